import TinysetModel.Proofs.CapWF
import TinysetModel.Proofs.CoreOK
import TinysetModel.Proofs.CfgInst
/-! C11 — the heap block a set owns is linear in the high-water member count.

`CapOK r M`: `capacity r ≤ 3 * M + 5` and `len r ≤ M`, for a ghost bound `M` (the largest `len` the set,
or any set it was derived from, has had).  Every operation preserves it, for every outcome of the random
draws (`g : Rng D` is arbitrary), and `footprint_linear` turns it into `blockBytes ≤ (8 M + 8)` words. -/
namespace SC
open RH

variable {c : Cfg} {D : Type}

/-! ### the ghost bound -/

def CapOK (r : Rp) (M : Nat) : Prop := capacity r ≤ 3 * M + 5 ∧ len r ≤ M

/-- an `insert` function that keeps the capacity linear in the high-water mark -/
def RecCap (c : Cfg) {D : Type} (rec : Ins D) : Prop :=
  ∀ r e d r' b d' M, WF c r → e < 2 ^ c.W → CapOK r M → rec r e d = .ok ((r', b), d') →
    CapOK r' (Max.max M (len r'))

/-- the words a table may leave empty and still report "no room" -/
def slack (c : Cfg) (n : Nat) : Nat :=
  match c.roomShift with
  | none => 0
  | some k => n >>> k

/-- the arithmetic facts about a configuration used by the capacity proof (both instances: `capCfg64`, `capCfg32`) -/
structure CapCfg (c : Cfg) : Prop where
  /-- `compute_array_bits` fits an element word (needed by the constructors' well-formedness) -/
  cab_lt : ∀ e, c.cab e < 2 ^ c.W
  /-- a dense block chosen at creation for `n + 1` (or fewer) members -/
  dense_new : ∀ n mx, n + 1 > mx >>> c.capShift → c.denseCap mx ≤ 3 * n + 5
  /-- dense growth is only taken when the element is not too far out -/
  dense_grow : ∀ e sz, ¬ e >>> c.capShift > sz → c.denseGrow e ≤ 3 * sz + 5
  sparse : ∀ sz, c.sparseCap sz ≤ 3 * sz + 5
  /-- growth of a table without room (plain: modulus `bigMod cap`) -/
  plain_grow : ∀ cap sz r, 0 < cap → cap ≤ sz + slack c cap → cap + 1 + c.growExtra cap + r % c.bigMod cap ≤ 3 * sz + 5
  /-- growth of a bitmap table without room -/
  bitmap_grow : ∀ cap sz r, 0 < cap → cap ≤ sz + slack c cap → cap + 1 + c.growExtra cap + r % cap ≤ 3 * sz + 5
  /-- bitmap table without room → dense -/
  bitmap_dense : ∀ cap sz mx, cap > mx >>> 6 → cap ≤ sz + slack c cap → c.denseCap mx ≤ 3 * sz + 5
  /-- narrowing a bitmap table -/
  narrow : ∀ needed sz r, 0 < needed → needed ≤ sz + 1 →
    needed + 1 + c.narrowExtra needed + c.narrowMul * (r % needed) ≤ 3 * sz + 5

theorem CapOK.mono {r : Rp} {M M' : Nat} (h : CapOK r M) (hM : M ≤ M') : CapOK r M' :=
  ⟨by have := h.1; omega, by have := h.2; omega⟩

theorem CapOK.empty (M : Nat) : CapOK .empty M := ⟨Nat.zero_le _, Nat.zero_le _⟩

/-- with the trivial half discharged -/
theorem capOK_max {r : Rp} {M : Nat} (h : capacity r ≤ 3 * Max.max M (len r) + 5) : CapOK r (Max.max M (len r)) :=
  ⟨h, Nat.le_max_right _ _⟩

theorem capOK_of_le {r : Rp} {M k : Nat} (h : capacity r ≤ 3 * k + 5) (hk : k ≤ M) : CapOK r (Max.max M (len r)) :=
  capOK_max (by have := Nat.le_max_left M (len r); omega)

/-! ### counting members through the abstraction -/

theorem len_le_of_subset {r r' : Rp} (a : AbsOK c r) (a' : AbsOK c r')
    (h : ∀ x, x ∈ elems c r → x ∈ elems c r') : len r ≤ len r' := by
  rw [a.len, a'.len]
  exact a.nodup.length_le_of_subset (fun x hx => h x hx)

theorem len_le_of_subset_list {r : Rp} (a : AbsOK c r) {l : List Nat}
    (h : ∀ x, x ∈ elems c r → x ∈ l) : len r ≤ l.length := by
  rw [a.len]
  exact a.nodup.length_le_of_subset (fun x hx => h x hx)

/-! ### `insertAll` and `rebuild` -/

theorem insertAll_cap (abs : ∀ r, WF c r → AbsOK c r) {rec : Ins D} (hrec : RecOK c rec) (hcap : RecCap c rec) :
    ∀ (xs : List Nat) (r : Rp) (d : D) (r' : Rp) (d' : D) (M : Nat),
    WF c r → (∀ x ∈ xs, x < 2 ^ c.W) → CapOK r M → insertAll rec r xs d = .ok (r', d') →
    CapOK r' (Max.max M (len r')) := by
  intro xs
  induction xs with
  | nil =>
    intro r d r' d' M _ _ hc h
    simp only [insertAll, List.foldlM_nil, pure, StateT.pure, Except.pure] at h
    cases h
    exact hc.mono (Nat.le_max_left _ _)
  | cons x xs ih =>
    intro r d r' d' M wf hx hc h
    simp only [insertAll, List.foldlM_cons] at h
    obtain ⟨r1, d1, h1, h2⟩ := bind_ok h
    obtain ⟨p, d2, h3, h4⟩ := bind_ok h1
    simp only [pure, StateT.pure, Except.pure] at h4
    cases h4
    have hx1 := hx x List.mem_cons_self
    have hxs : ∀ y ∈ xs, y < 2 ^ c.W := fun y hy => hx y (List.mem_cons_of_mem _ hy)
    have s1 := hrec r x d p.1 p.2 _ wf hx1 (by rw [h3])
    have c1 := hcap r x d p.1 p.2 _ M wf hx1 hc (by rw [h3])
    have c2 := ih p.1 _ r' d' _ s1.wf hxs c1 h2
    have s2 := insertAll_ok hrec xs p.1 _ r' d' s1.wf hxs h2
    have hmono : len p.1 ≤ len r' :=
      len_le_of_subset (abs _ s1.wf) (abs _ s2.1) (fun y hy => (s2.2 y).2 (Or.inl hy))
    exact ⟨by have := c2.1; rw [Nat.max_assoc, Nat.max_eq_right hmono] at this; exact this, Nat.le_max_right _ _⟩

/-- `rebuild new old e`: the bound of `new` (in terms of the ghost `M`) carries over to the result -/
theorem rebuild_cap (abs : ∀ r, WF c r → AbsOK c r) {rec : Ins D} (hrec : RecOK c rec) (hcap : RecCap c rec)
    {new old : Rp} {e : Nat} {d d' : D} {r' : Rp} {b : Bool} {M : Nat}
    (hnew : WF c new) (hold : ∀ x ∈ elems c old, x < 2 ^ c.W) (he : e < 2 ^ c.W) (hc : CapOK new M)
    (h : rebuild c rec new old e d = .ok ((r', b), d')) : CapOK r' (Max.max M (len r')) := by
  unfold rebuild at h
  obtain ⟨r1, d1, h1, h2⟩ := bind_ok h
  obtain ⟨p, d2, h3, h4⟩ := bind_ok h2
  simp only [pure, StateT.pure, Except.pure] at h4
  cases h4
  have s1 := insertAll_ok hrec _ _ _ _ _ hnew hold h1
  have c1 := insertAll_cap abs hrec hcap _ _ _ _ _ _ hnew hold hc h1
  have s2 := hrec r1 e d1 p.1 p.2 _ s1.1 he (by rw [h3])
  have c2 := hcap r1 e d1 p.1 p.2 _ _ s1.1 he c1 (by rw [h3])
  have hmono : len r1 ≤ len p.1 :=
    len_le_of_subset (abs _ s1.1) (abs _ s2.wf) (fun y hy => (s2.mem y).2 (Or.inl hy))
  exact ⟨by have := c2.1; rw [Nat.max_assoc, Nat.max_eq_right hmono] at this; exact this, Nat.le_max_right _ _⟩

/-! ### the constructors: capacity and length of what they return -/

theorem withCapBits_cap (g : Rng D) (cap bits : Nat) {d d' : D} {r : Rp}
    (h : withCapBits c g cap bits d = .ok (r, d')) : capacity r ≤ cap ∧ len r = 0 := by
  rcases withCapBits_shape g cap bits d d' r h with ⟨_, rfl⟩ | ⟨_, bits', rfl, _⟩
  · exact ⟨Nat.zero_le _, rfl⟩
  · exact ⟨Nat.le_refl _, rfl⟩

theorem withCapMax_cap (g : Rng D) (cap mx : Nat) {d d' : D} {r : Rp}
    (h : withCapMax c g cap mx d = .ok (r, d')) :
    ((cap > mx >>> c.capShift ∧ capacity r = c.denseCap mx) ∨ capacity r ≤ cap) ∧ len r = 0 := by
  unfold withCapMax at h
  split at h
  · rename_i hgt
    rw [pure_run] at h
    cases h
    exact ⟨Or.inl ⟨hgt, rfl⟩, rfl⟩
  · have := withCapBits_cap g _ _ h
    exact ⟨Or.inr this.1, this.2⟩

/-- `withCapMax n' mx` for a set that will hold `n + 1` members, `n' ≤ n + 1` -/
theorem withCapMax_capOK (cc : CapCfg c) (g : Rng D) {cap mx n : Nat} (hn : cap ≤ n + 1) {d d' : D} {r : Rp}
    (h : withCapMax c g cap mx d = .ok (r, d')) : capacity r ≤ 3 * n + 5 ∧ len r = 0 := by
  obtain ⟨h1, h2⟩ := withCapMax_cap g cap mx h
  refine ⟨?_, h2⟩
  rcases h1 with ⟨hgt, he⟩ | hle
  · rw [he]; exact cc.dense_new n mx (by omega)
  · omega

/-! ### counting: a table without room is (almost) full -/

theorem zeros_add_nz : ∀ l : List Nat, (l.filter (· == 0)).length + (l.filter (· ≠ 0)).length = l.length
  | [] => rfl
  | x :: l => by
    have ih := zeros_add_nz l
    rw [List.filter_cons, List.filter_cons]
    by_cases hx : x = 0
    · have h1 : (x == 0) = true := by simp [hx]
      have h2 : ¬ decide (x ≠ 0) = true := by simp [hx]
      rw [if_pos h1, if_neg h2]
      simp only [List.length_cons]; omega
    · have h1 : ¬ (x == 0) = true := by simp [hx]
      have h2 : decide (x ≠ 0) = true := by simp [hx]
      rw [if_neg h1, if_pos h2]
      simp only [List.length_cons]; omega

theorem size_le_of_noRoom {a : Tbl} (h : hasRoom c a = false) : a.size ≤ (nz a).length + slack c a.size := by
  have hz := zeros_add_nz a.toList
  have hl : a.toList.length = a.size := Array.length_toList
  unfold hasRoom at h
  unfold slack nz
  split at h
  · rename_i heq
    have : a.toList.filter (· == 0) = [] := by
      rw [List.filter_eq_nil_iff]
      intro x hx hx0
      rw [List.any_eq_false] at h
      exact h x hx hx0
    rw [this] at hz
    simp only [List.length_nil] at hz
    omega
  · rename_i k heq
    have h' := of_decide_eq_false h
    rw [heq]
    dsimp only
    omega

theorem exists_bit_of_mod_ne_zero {w bits : Nat} (h : w % 2 ^ bits ≠ 0) : ∃ b, b < bits ∧ w.testBit b = true := by
  false_or_by_contra
  rename_i hn
  apply h
  apply Nat.eq_of_testBit_eq
  intro i
  rw [Nat.testBit_mod_two_pow, Nat.zero_testBit]
  by_cases hi : i < bits
  · have : w.testBit i ≠ true := fun ht => hn ⟨i, hi, ht⟩
    simp [this]
  · simp [hi]

theorem length_le_flatMap (f : Nat → List Nat) : ∀ l : List Nat, (∀ w ∈ l, 1 ≤ (f w).length) →
    l.length ≤ (l.flatMap f).length
  | [], _ => Nat.zero_le _
  | x :: l, h => by
    have ih := length_le_flatMap f l (fun w hw => h w (List.mem_cons_of_mem _ hw))
    have hx := h x List.mem_cons_self
    rw [List.flatMap_cons, List.length_append, List.length_cons]
    omega

/-- every occupied bucket of a bitmap table holds at least one member -/
theorem bitmap_occupied_le {sz cap bits : Nat} {a : Tbl} (hb : isDense c bits = false) (hp : isPlain c bits = false)
    (wf : BitmapWF c sz cap bits a) : (nz a).length ≤ sz := by
  have hs := wf.szc
  rw [elems_bitmap_eq hb hp] at hs
  rw [hs]
  apply length_le_flatMap
  intro w hw
  obtain ⟨h0, i, hi, hg⟩ := mem_nz.1 hw
  obtain ⟨b, hb1, hb2⟩ := exists_bit_of_mod_ne_zero (wf.bucket i hi (by rw [hg]; exact h0)).1
  rw [hg] at hb2
  rw [bk_length]
  exact List.length_pos_of_mem (mem_bitsOf.2 ⟨hb1, hb2⟩)

/-! ### the two configurations -/

theorem slack64 (n : Nat) : slack cfg64 n = 0 := rfl
theorem slack32 (n : Nat) : slack cfg32 n = n / 16 := by
  show n >>> 4 = n / 16
  rw [Nat.shiftRight_eq_div_pow]

theorem capCfg64 : CapCfg cfg64 where
  cab_lt := by
    intro e
    have h : cfg64.cab e ≤ 64 := cfg64_cab_le_full e
    show cfg64.cab e < 2 ^ 64
    omega
  dense_new := by
    intro n mx h
    have h' : n + 1 > mx >>> 7 := h
    show 1 + mx / 64 + mx / 256 ≤ 3 * n + 5
    rw [Nat.shiftRight_eq_div_pow] at h'
    omega
  dense_grow := by
    intro e sz h
    have h' : ¬ e >>> 7 > sz := h
    show 1 + (e >>> 6) + (e >>> 6) / 4 ≤ 3 * sz + 5
    rw [Nat.shiftRight_eq_div_pow] at h' ⊢
    omega
  sparse := by
    intro sz
    show 2 * (sz + 1) ≤ 3 * sz + 5
    omega
  plain_grow := by
    intro cap sz r hc h
    rw [slack64] at h
    show cap + 1 + 0 + r % (2 * cap) ≤ 3 * sz + 5
    have := Nat.mod_lt r (show 0 < 2 * cap by omega)
    omega
  bitmap_grow := by
    intro cap sz r hc h
    rw [slack64] at h
    show cap + 1 + 0 + r % cap ≤ 3 * sz + 5
    have := Nat.mod_lt r hc
    omega
  bitmap_dense := by
    intro cap sz mx h1 h
    rw [slack64] at h
    show 1 + mx / 64 + mx / 256 ≤ 3 * sz + 5
    rw [Nat.shiftRight_eq_div_pow] at h1
    omega
  narrow := by
    intro needed sz r hn h
    show needed + 1 + 0 + 2 * (r % needed) ≤ 3 * sz + 5
    have := Nat.mod_lt r hn
    omega

theorem capCfg32 : CapCfg cfg32 where
  cab_lt := by
    intro e
    have h : cfg32.cab e ≤ 62 := cfg32_cab_le_62 e
    show cfg32.cab e < 2 ^ 32
    omega
  dense_new := by
    intro n mx h
    have h' : n + 1 > mx >>> 5 := h
    show 1 + mx / 32 + mx / 128 ≤ 3 * n + 5
    rw [Nat.shiftRight_eq_div_pow] at h'
    omega
  dense_grow := by
    intro e sz h
    have h' : ¬ e >>> 5 > sz := h
    show 1 + e / 32 + e / 128 ≤ 3 * sz + 5
    rw [Nat.shiftRight_eq_div_pow] at h'
    omega
  sparse := by
    intro sz
    show 1 + 2 * sz ≤ 3 * sz + 5
    omega
  plain_grow := by
    intro cap sz r hc h
    rw [slack32] at h
    show cap + 1 + cap / 8 + r % cap ≤ 3 * sz + 5
    have := Nat.mod_lt r hc
    omega
  bitmap_grow := by
    intro cap sz r hc h
    rw [slack32] at h
    show cap + 1 + cap / 8 + r % cap ≤ 3 * sz + 5
    have := Nat.mod_lt r hc
    omega
  bitmap_dense := by
    intro cap sz mx h1 h
    rw [slack32] at h
    show 1 + mx / 32 + mx / 128 ≤ 3 * sz + 5
    rw [Nat.shiftRight_eq_div_pow] at h1
    omega
  narrow := by
    intro needed sz r hn h
    show needed + 1 + needed / 8 + 1 * (r % needed) ≤ 3 * sz + 5
    have := Nat.mod_lt r hn
    omega

/-! ### `insertStep`, case by case -/

theorem capOK_new {new : Rp} {M k : Nat} (h1 : capacity new ≤ 3 * k + 5) (h2 : len new = 0) (hk : k ≤ M) :
    CapOK new M := ⟨by omega, by omega⟩

theorem insert_empty_cap (ok : CfgOK c) (cc : CapCfg c) (g : Rng D) {rec : Ins D} (hcap : RecCap c rec)
    (e : Nat) (he : e < 2 ^ c.W) {d d' : D} {r' : Rp} {b : Bool} (M : Nat)
    (h : insertStep c g rec .empty e d = .ok ((r', b), d')) : CapOK r' (Max.max M (len r')) := by
  rw [insertStep] at h
  cases hnew : TinyC.newSortedDeduped c.codec [e] with
  | some t =>
    rw [hnew] at h
    simp only [pure_run] at h
    cases h
    exact capOK_max (Nat.zero_le _)
  | none =>
    rw [hnew] at h
    simp only at h
    obtain ⟨new, d1, h1, h2⟩ := bind_ok h
    have hwf := Cap.withCapMax_wf ok g _ _ (cc.cab_lt e) h1
    obtain ⟨k1, k2⟩ := withCapMax_capOK cc g (n := 0) (Nat.le_refl _) h1
    exact hcap new e d1 r' b d' M hwf he (capOK_new k1 k2 (Nat.zero_le _)) h2

theorem insert_stack_cap (ok : CfgOK c) (cc : CapCfg c) (abs : ∀ r, WF c r → AbsOK c r) (g : Rng D)
    {rec : Ins D} (hrec : RecOK c rec) (hcap : RecCap c rec) {t : TinyC.T} (wf : StackWF c t)
    (e : Nat) (he : e < 2 ^ c.W) {d d' : D} {r' : Rp} {b : Bool} {M : Nat} (hc : CapOK (.stack t) M)
    (h : insertStep c g rec (.stack t) e d = .ok ((r', b), d')) : CapOK r' (Max.max M (len r')) := by
  rw [insertStep] at h
  cases hins : TinyC.insert c.codec t e with
  | some t' =>
    rw [hins] at h
    simp only [pure_run] at h
    cases h
    exact capOK_max (Nat.zero_le _)
  | none =>
    rw [hins] at h
    simp only at h
    obtain ⟨new, d1, h1, h2⟩ := bind_ok h
    have hwf := Cap.withCapMax_wf ok g _ _ (cc.cab_lt _) h1
    obtain ⟨k1, k2⟩ := withCapMax_capOK cc g (n := t.sz) (Nat.le_refl _) h1
    exact rebuild_cap abs hrec hcap (old := .stack t) hwf wf.range he (capOK_new k1 k2 hc.2) h2

theorem insertDense_cap (ok : CfgOK c) (cc : CapCfg c) (abs : ∀ r, WF c r → AbsOK c r) (g : Rng D)
    {rec : Ins D} (hrec : RecOK c rec) (hcap : RecCap c rec) {sz cap : Nat} {a : Tbl} (wf : DenseWF c sz cap a)
    (e : Nat) (he : e < 2 ^ c.W) {d d' : D} {r' : Rp} {b : Bool} {M : Nat} (hc : CapOK (.heap sz cap c.W a) M)
    (h : insertDense c g rec sz cap a e d = .ok ((r', b), d')) : CapOK r' (Max.max M (len r')) := by
  have hc1 : cap ≤ 3 * M + 5 := hc.1
  have hc2 : sz ≤ M := hc.2
  unfold insertDense at h
  dsimp only at h
  by_cases hk : e >>> c.dShift < cap
  · rw [if_pos hk, pure_run] at h
    cases h
    exact capOK_of_le (k := M) hc1 (Nat.le_refl _)
  · rw [if_neg hk] at h
    by_cases hsp : e >>> c.capShift > sz
    · rw [if_pos hsp] at h
      obtain ⟨new, d1, h1, h2⟩ := bind_ok h
      have hwf := Cap.withCapBits_wf ok g _ _ (cc.cab_lt e) h1
      obtain ⟨k1, k2⟩ := withCapBits_cap g _ _ h1
      exact rebuild_cap abs hrec hcap hwf wf.range he
        (capOK_new (Nat.le_trans k1 (cc.sparse sz)) k2 hc2) h2
    · rw [if_neg hsp, pure_run] at h
      cases h
      exact capOK_of_le (k := sz) (cc.dense_grow e sz hsp) hc2

/-- the second half of `insertPlain` (after a possible re-pick of the placeholder) -/
theorem plainTail_cap (cc : CapCfg c) (g : Rng D) {sz cap bits : Nat} {a : Tbl} (pw : PlainWF bits sz a)
    (hcap : cap = a.size) (e : Nat) {d d' : D} {r' : Rp} {b : Bool} {M : Nat}
    (hc1 : cap ≤ 3 * M + 5) (hc2 : sz ≤ M)
    (h : Plain2.plainTail c g sz cap e (a, bits) d = .ok ((r', b), d')) : CapOK r' (Max.max M (len r')) := by
  unfold Plain2.plainTail at h
  dsimp only at h
  have hfold : (if e = 0 then bits else e) = enc bits e := rfl
  rw [hfold] at h
  have key : (∀ i, lookfor (enc bits e) a 0 ≠ .found i) →
      (match tablePlace c (enc bits e) (enc bits e) 0 a with
        | some a' => (pure (Rp.heap (sz + 1) cap bits a', true) : SC.M D (Rp × Bool))
        | none => do
          let r ← drawM c g cap bits
          let na ← List.foldlM (fun t v => placeRaw v t) (Array.replicate (cap + 1 + c.growExtra cap + r % c.bigMod cap) 0)
            (List.filter (fun x => decide (x ≠ 0)) a.toList)
          let na ← placeRaw (enc bits e) na
          pure (Rp.heap (sz + 1) (cap + 1 + c.growExtra cap + r % c.bigMod cap) bits na, true)) d = .ok ((r', b), d') →
      CapOK r' (Max.max M (len r')) := by
    intro hnf h
    have hfresh : ∀ i, i < a.size → get a i ≠ 0 → K a 0 i ≠ enc bits e := by
      intro i hi h0 hk
      exact hnf i (lookfor_complete pw.inv hi h0 hk)
    have hspec := tablePlace_spec c (k := enc bits e) (w := enc bits e) pw.npos pw.inv
      (enc_ne_zero pw.ph_ne) Nat.shiftRight_zero hfresh
    cases hplace : tablePlace c (enc bits e) (enc bits e) 0 a with
    | some a' =>
      rw [hplace] at h
      simp only [pure_run] at h
      cases h
      exact capOK_of_le (k := M) hc1 (Nat.le_refl _)
    | none =>
      rw [hplace] at h hspec
      simp only at h hspec
      obtain ⟨r, d2, _, h2⟩ := bind_ok h
      obtain ⟨na, d3, _, h3⟩ := bind_ok h2
      obtain ⟨na2, d4, _, h4⟩ := bind_ok h3
      rw [pure_run] at h4
      cases h4
      have hfull := size_le_of_noRoom hspec
      rw [← pw.szc, ← hcap] at hfull
      exact capOK_of_le (k := sz) (cc.plain_grow cap sz r (by have := pw.npos; omega) hfull) hc2
  cases hl : lookfor (enc bits e) a 0 with
  | found i =>
    rw [hl] at h
    simp only [pure_run] at h
    cases h
    exact capOK_of_le (k := M) hc1 (Nat.le_refl _)
  | empty ii =>
    rw [hl] at h
    exact key (fun i hi => by rw [hl] at hi; cases hi) h
  | needInsert =>
    rw [hl] at h
    exact key (fun i hi => by rw [hl] at hi; cases hi) h

theorem insertPlain_cap (cc : CapCfg c) (g : Rng D) {sz cap bits : Nat} {a : Tbl} (pw : PlainWF bits sz a)
    (hcap : cap = a.size) (hwords : ∀ x ∈ nz a, x < 2 ^ c.W)
    (e : Nat) {d d' : D} {r' : Rp} {b : Bool} {M : Nat} (hc : CapOK (.heap sz cap bits a) M)
    (h : insertPlain c g sz cap bits a e d = .ok ((r', b), d')) : CapOK r' (Max.max M (len r')) := by
  have hc1 : cap ≤ 3 * M + 5 := hc.1
  have hc2 : sz ≤ M := hc.2
  by_cases hne : e = bits
  · subst hne
    obtain ⟨i, hs⟩ := Plain2.scan_of_ok g h rfl
    obtain ⟨a2, hr, pw2, s2, _⟩ := Plain2.repick_spec g pw hwords d hs
    rw [Plain2.insertPlain_of_repick g hr] at h
    exact plainTail_cap cc g pw2 (hcap.trans s2.symm) e hc1 hc2 h
  · rw [Plain2.insertPlain_of_ne g hne] at h
    exact plainTail_cap cc g pw hcap e hc1 hc2 h

theorem sortDedup_length_le (l : List Nat) : (sortDedup l).length ≤ l.length := by
  obtain ⟨s1, s2⟩ := sortDedup_spec l
  exact (pairwise_lt_nodup s1).length_le_of_subset (fun x hx => (s2 x).1 hx)

theorem insertBitmap_cap (ok : CfgOK c) (cc : CapCfg c) (abs : ∀ r, WF c r → AbsOK c r) (g : Rng D)
    {rec : Ins D} (hrec : RecOK c rec) (hcap : RecCap c rec) {sz cap bits : Nat} {a : Tbl}
    (hb : isDense c bits = false) (hp : isPlain c bits = false) (wf : BitmapWF c sz cap bits a)
    (e : Nat) (he : e < 2 ^ c.W) {d d' : D} {r' : Rp} {b : Bool} {M : Nat} (hc : CapOK (.heap sz cap bits a) M)
    (h : insertBitmap c g rec sz cap bits a e d = .ok ((r', b), d')) : CapOK r' (Max.max M (len r')) := by
  have hc1 : cap ≤ 3 * M + 5 := hc.1
  have hc2 : sz ≤ M := hc.2
  have same : ∀ sz', CapOK (.heap sz' cap bits a) (Max.max M (len (.heap sz' cap bits a))) :=
    fun _ => capOK_of_le (k := M) hc1 (Nat.le_refl _)
  by_cases hcab : c.cab e < bits
  · -- narrowing
    unfold insertBitmap at h
    rw [if_pos hcab] at h
    dsimp only at h
    obtain ⟨r, d1, _, h2⟩ := bind_ok h
    obtain ⟨new, d2, h3, h4⟩ := bind_ok h2
    have hwf := Cap.withCapBits_wf ok g _ _ (cc.cab_lt e) h3
    obtain ⟨k1, k2⟩ := withCapBits_cap g _ _ h3
    refine rebuild_cap abs hrec hcap hwf wf.range he (capOK_new (Nat.le_trans k1 (cc.narrow _ sz _ (Nat.succ_pos _) ?_)) k2 hc2) h4
    have := sortDedup_length_le ((elems c (.heap sz cap bits a)).map (· / (Max.max (c.cab e) 1)))
    rw [List.length_map, ← wf.szc] at this
    exact Nat.succ_le_succ this
  · by_cases hf : ∃ idx, lookfor (e / bits) a bits = .found idx
    · obtain ⟨idx, hl⟩ := hf
      by_cases hbit : (get a idx).testBit (e % bits) = true
      · obtain ⟨heq, _⟩ := insertBitmap_found_set g rec hb hp wf e hcab hl hbit d
        rw [heq] at h; cases h
        exact capOK_of_le (k := M) hc1 (Nat.le_refl _)
      · obtain ⟨heq, _⟩ := insertBitmap_found_clear g rec hb hp wf e he hcab hl hbit d
        rw [heq] at h; cases h
        exact capOK_of_le (k := M) hc1 (Nat.le_refl _)
    · have hnf : ∀ i, lookfor (e / bits) a bits ≠ .found i := fun i hl => hf ⟨i, hl⟩
      cases hpl : tablePlace c (e / bits) (modW c ((e / bits) <<< bits) ||| (1 <<< (e % bits))) bits a with
      | some a' =>
        obtain ⟨heq, _⟩ := insertBitmap_place g rec hb hp ok wf e he hcab hnf hpl d
        rw [heq] at h; cases h
        exact capOK_of_le (k := M) hc1 (Nat.le_refl _)
      | none =>
        have hfresh : ∀ i, i < a.size → get a i ≠ 0 → K a bits i ≠ e / bits := by
          intro i hi h0 hk
          exact hnf i (lookfor_complete wf.inv hi h0 hk)
        -- the table has no room, so it is (almost) full
        have hfull : cap ≤ sz + slack c cap := by
          have hpos := wf.bits_pos
          have hoff : e % bits < bits := Nat.mod_lt _ hpos
          obtain ⟨hm, _⟩ := newword_facts ok hpos wf.bits_lt e he hcab
          have hpl' := hpl
          rw [hm] at hpl'
          have hbitlt : 1 <<< (e % bits) < 2 ^ bits := by
            rw [Nat.shiftLeft_eq, Nat.one_mul]; exact Nat.pow_lt_pow_right (by omega) hoff
          have hvk : ((e / bits) <<< bits ||| (1 <<< (e % bits))) >>> bits = e / bits := key_of_word hbitlt
          have hvb : ((e / bits) <<< bits ||| (1 <<< (e % bits))).testBit (e % bits) = true := by
            rw [testBit_or_bit]; simp
          have hspec := tablePlace_spec c (k := e / bits) wf.npos wf.inv (ne_zero_of_testBit hvb) hvk hfresh
          rw [hpl'] at hspec
          have h1 := size_le_of_noRoom hspec
          have h2 := bitmap_occupied_le hb hp wf
          rw [← wf.cap_eq] at h1
          omega
        -- reduce to the growing code
        have hgrow : ∃ mx, (if cap > mx >>> 6 then
              rebuild c rec (denseWithMax c mx) (.heap sz cap bits a) e
            else do
              let r ← drawM c g cap bits
              let new ← withCapBits c g (cap + 1 + c.growExtra cap + (r % cap)) bits
              rebuild c rec new (.heap sz cap bits a) e) d = .ok ((r', b), d') := by
          unfold insertBitmap at h
          rw [if_neg hcab] at h
          dsimp only at h
          cases hl : lookfor (e / bits) a bits with
          | found i => exact absurd hl (hnf i)
          | empty ii => rw [hl] at h; dsimp only at h; rw [hpl] at h; exact ⟨_, h⟩
          | needInsert => rw [hl] at h; dsimp only at h; rw [hpl] at h; exact ⟨_, h⟩
        obtain ⟨mx, hg⟩ := hgrow
        split at hg
        · rename_i hgt
          exact rebuild_cap abs hrec hcap (Cap.denseWithMax_wf ok mx) wf.range he
            (capOK_new (k := sz) (cc.bitmap_dense cap sz mx hgt hfull) rfl hc2) hg
        · obtain ⟨r, d1, _, h2⟩ := bind_ok hg
          obtain ⟨new, d2, h3, h4⟩ := bind_ok h2
          have hbW : bits < 2 ^ c.W := Nat.lt_trans wf.bits_lt Nat.lt_two_pow_self
          have hwf := Cap.withCapBits_wf ok g _ _ hbW h3
          obtain ⟨k1, k2⟩ := withCapBits_cap g _ _ h3
          exact rebuild_cap abs hrec hcap hwf wf.range he
            (capOK_new (Nat.le_trans k1 (cc.bitmap_grow cap sz r wf.cap_pos hfull)) k2 hc2) h4

/-! ### `insertStep` and `insert` -/

theorem insertStep_cap (ok : CfgOK c) (cc : CapCfg c) (abs : ∀ r, WF c r → AbsOK c r) (g : Rng D)
    {rec : Ins D} (hrec : RecOK c rec) (hcap : RecCap c rec) : RecCap c (insertStep c g rec) := by
  intro r e d r' b d' M wf he hc h
  match r, wf with
  | .empty, _ => exact insert_empty_cap ok cc g hcap e he M h
  | .stack t, wf => exact insert_stack_cap ok cc abs g hrec hcap wf e he hc h
  | .heap sz cap bits a, wf =>
    rcases Cap.heap_cases wf with ⟨hbits, dw⟩ | ⟨hnd, hpl, pw, hcap', _, hwords, _⟩ | ⟨hnd, hpl, bw⟩
    · subst hbits
      rw [insertStep, if_pos (isDense_W c)] at h
      exact insertDense_cap ok cc abs g hrec hcap dw e he hc h
    · rw [insertStep, if_neg (by rw [hnd]; simp), if_pos hpl] at h
      exact insertPlain_cap cc g pw hcap' hwords e hc h
    · rw [insertStep, if_neg (by rw [hnd]; simp), if_neg (by rw [hpl]; simp)] at h
      exact insertBitmap_cap ok cc abs g hrec hcap hnd hpl bw e he hc h

/-- C11, inductive core: every `insert` keeps the capacity within `3 M + 5`, `M` the high-water member count,
    for every fuel and every random generator -/
theorem insert_cap (ok : CfgOK c) (cc : CapCfg c) (abs : ∀ r, WF c r → AbsOK c r) (g : Rng D)
    (hins : ∀ fuel, RecOK c (insert c g fuel)) : ∀ fuel, RecCap c (insert c g fuel)
  | 0 => by
    intro r e d r' b d' M _ _ _ h
    cases h
  | fuel + 1 => insertStep_cap ok cc abs g (hins fuel) (insert_cap ok cc abs g hins fuel)

/-! ### `fromIterSorted`, `fromIter` -/

theorem eraseDups_length_le : ∀ (k : Nat) (l : List Nat), l.length ≤ k → l.eraseDups.length ≤ l.length
  | _, [], _ => by simp
  | 0, _ :: _, h => by simp at h
  | k + 1, a :: as, h => by
    rw [List.eraseDups_cons]
    have h1 := List.length_filter_le (fun b => !b == a) as
    simp only [List.length_cons] at h
    have := eraseDups_length_le k (as.filter fun b => !b == a) (by omega)
    simp only [List.length_cons]
    omega

theorem cap_len_eq_of_mem_iff {r : Rp} (a : AbsOK c r) {v : List Nat} (nd : v.Nodup)
    (h : ∀ x, x ∈ elems c r ↔ x ∈ v) : len r = v.length := by
  rw [a.len]
  exact ((List.perm_ext_iff_of_nodup a.nodup nd).2 h).length_eq

theorem fromIterSorted_cap (ok : CfgOK c) (cc : CapCfg c) (abs : ∀ r, WF c r → AbsOK c r) (g : Rng D) (fuel : Nat)
    (hins : RecOK c (insert c g fuel)) (hcap : RecCap c (insert c g fuel))
    (v : List Nat) (hsorted : v.Pairwise (· < ·)) (hrange : ∀ x ∈ v, x < 2 ^ c.W) {d d' : D} {r : Rp}
    (h : fromIterSorted c g fuel v d = .ok (r, d')) : CapOK r (len r) ∧ len r = v.length := by
  obtain ⟨wfr, hmem⟩ := fromIterSorted_ok ok g fuel hins v hsorted hrange d d' r h
  have hlen : len r = v.length := cap_len_eq_of_mem_iff (abs r wfr) (pairwise_lt_nodup hsorted) hmem
  refine ⟨?_, hlen⟩
  unfold fromIterSorted at h
  have fill : ∀ (s : Rp) (d1 : D), WF c s → capacity s ≤ 3 * v.length + 5 → len s = 0 →
      insertAll (insert c g fuel) s v d1 = .ok (r, d') → CapOK r (len r) := by
    intro s d1 hs k1 k2 hi
    have := insertAll_cap abs hins hcap v s d1 r d' v.length hs hrange (capOK_new k1 k2 (Nat.le_refl _)) hi
    rw [hlen, Nat.max_self] at this
    rw [hlen]; exact this
  cases hl : v.getLast? with
  | none =>
    rw [hl] at h
    simp only [pure_run] at h
    cases h
    exact CapOK.empty _
  | some mx =>
    rw [hl] at h
    simp only at h
    cases hnew : TinyC.newSortedDeduped c.codec v with
    | some t =>
      rw [hnew] at h
      simp only [pure_run] at h
      cases h
      exact ⟨Nat.zero_le _, Nat.le_refl _⟩
    | none =>
      rw [hnew] at h
      simp only at h
      by_cases h1 : v.length > mx >>> 4
      · rw [if_pos h1] at h
        obtain ⟨s, d1, h2, h3⟩ := bind_ok h
        obtain ⟨k1, k2⟩ := withCapMax_capOK cc g (n := v.length) (Nat.le_succ _) h2
        exact fill s d1 (Cap.withCapMax_wf ok g _ _ (cc.cab_lt mx) h2) k1 k2 h3
      · rw [if_neg h1] at h
        by_cases h4 : c.cab mx = 0
        · rw [if_pos h4] at h
          obtain ⟨s, d1, h2, h3⟩ := bind_ok h
          obtain ⟨k1, k2⟩ := withCapBits_cap g _ _ h2
          exact fill s d1 (Cap.withCapBits_wf ok g _ _ (cc.cab_lt mx) h2) (by omega) k2 h3
        · rw [if_neg h4] at h
          obtain ⟨s, d1, h2, h3⟩ := bind_ok h
          obtain ⟨k1, k2⟩ := withCapBits_cap g _ _ h2
          have hk := eraseDups_length_le _ (v.map (· / c.cab mx)) (Nat.le_refl _)
          rw [List.length_map] at hk
          exact fill s d1 (Cap.withCapBits_wf ok g _ _ (cc.cab_lt mx) h2) (by omega) k2 h3

/-- `collect`: the block is linear in the number of distinct members -/
theorem fromIter_cap (ok : CfgOK c) (cc : CapCfg c) (abs : ∀ r, WF c r → AbsOK c r) (g : Rng D) (fuel : Nat)
    (hins : RecOK c (insert c g fuel)) (hcap : RecCap c (insert c g fuel))
    (v : List Nat) (hrange : ∀ x ∈ v, x < 2 ^ c.W) {d d' : D} {r : Rp}
    (h : fromIter c g fuel v d = .ok (r, d')) : CapOK r (len r) ∧ len r ≤ v.length := by
  unfold fromIter at h
  obtain ⟨s1, s2⟩ := sortDedup_spec v
  obtain ⟨w1, w2⟩ := fromIterSorted_cap ok cc abs g fuel hins hcap (sortDedup v) s1
    (fun x hx => hrange x ((s2 x).1 hx)) h
  exact ⟨w1, by rw [w2]; exact sortDedup_length_le v⟩

/-! ### `remove` -/

theorem ite_pred_le (p : Prop) [Decidable p] (sz : Nat) : (if p then sz - 1 else sz) ≤ sz := by
  split <;> omega

theorem remove_heap_shape (g : Rng D) (fuel : Nat) {sz cap bits : Nat} {a : Tbl} {e : Nat} {d d' : D} {r' : Rp} {b : Bool}
    (h : remove c g fuel (.heap sz cap bits a) e d = .ok ((r', b), d')) : capacity r' = cap ∧ len r' ≤ sz := by
  unfold remove at h
  dsimp only at h
  have fin : ∀ {sz' : Nat} {a' : Tbl} {b' : Bool}, sz' ≤ sz →
      (pure (Rp.heap sz' cap bits a', b') : SC.M D (Rp × Bool)) d = .ok ((r', b), d') → capacity r' = cap ∧ len r' ≤ sz := by
    intro sz' a' b' hle h
    rw [pure_run] at h
    cases h
    exact ⟨rfl, hle⟩
  split at h
  · split at h
    · exact fin (ite_pred_le _ _) h
    · exact fin (Nat.le_refl _) h
  · split at h
    · split at h
      · exact fin (Nat.le_refl _) h
      · exact fin (ite_pred_le _ _) h
    · split at h
      · exact fin (Nat.le_refl _) h
      · cases hl : lookfor (e / bits) a bits with
        | found idx =>
          rw [hl] at h
          dsimp only at h
          split at h
          · split at h
            · exact fin (Nat.sub_le _ _) h
            · exact fin (Nat.sub_le _ _) h
          · exact fin (Nat.le_refl _) h
        | empty ii => rw [hl] at h; exact fin (Nat.le_refl _) h
        | needInsert => rw [hl] at h; exact fin (Nat.le_refl _) h
/-- removal never grows the block (inline removal rebuilds from at most `len - 1` members) -/
theorem remove_cap (ok : CfgOK c) (cc : CapCfg c) (abs : ∀ r, WF c r → AbsOK c r) (g : Rng D) (fuel : Nat)
    (hins : RecOK c (insert c g fuel)) (hcap : RecCap c (insert c g fuel))
    {r : Rp} (wf : WF c r) (e : Nat) {d d' : D} {r' : Rp} {b : Bool} {M : Nat} (hc : CapOK r M)
    (h : remove c g fuel r e d = .ok ((r', b), d')) : CapOK r' M := by
  match r, wf with
  | .empty, _ =>
    rw [remove, pure_run] at h
    cases h
    exact CapOK.empty _
  | .stack t, wf =>
    have hc2 : t.sz ≤ M := hc.2
    rw [remove] at h
    by_cases hcn : (t.members c.codec).contains e = true
    · rw [if_pos hcn] at h
      by_cases h1 : t.sz - 1 = 0
      · rw [if_pos h1, pure_run] at h
        cases h
        exact CapOK.empty _
      · rw [if_neg h1] at h
        obtain ⟨r1, d1, h2, h3⟩ := bind_ok h
        rw [pure_run] at h3
        cases h3
        obtain ⟨w1, w2⟩ := fromIterSorted_cap ok cc abs g fuel hins hcap _ ((members_sorted t).filter _)
          (fun x hx => wf.range x (List.mem_filter.1 hx).1) h2
        refine w1.mono ?_
        rw [w2]
        have := List.length_filter_le (fun x => decide (x ≠ e)) (t.members c.codec)
        rw [stack_members_length ok wf] at this
        omega
    · rw [if_neg hcn, pure_run] at h
      cases h
      exact hc
  | .heap sz cap bits a, _ =>
    obtain ⟨k1, k2⟩ := remove_heap_shape g fuel h
    exact ⟨by rw [k1]; exact hc.1, Nat.le_trans k2 hc.2⟩

/-! ### the public surface, from the core refinement (`CoreOK`, for every fuel) -/

section surface
variable (ok : CfgOK c) (cc : CapCfg c) (g : Rng D) (core : ∀ fuel, CoreOK c g fuel)
include ok cc core

/-- C11 for `insert`: for every fuel, every generator `g`, every reachable (`WF`) set and every ghost bound -/
theorem insert_capOK (fuel : Nat) : RecCap c (insert c g fuel) :=
  insert_cap ok cc (core 0).abs g (fun f => (core f).ins) fuel

theorem remove_capOK (fuel : Nat) {r : Rp} (wf : WF c r) (e : Nat) {d d' : D} {r' : Rp} {b : Bool} {M : Nat}
    (hc : CapOK r M) (h : remove c g fuel r e d = .ok ((r', b), d')) : CapOK r' M :=
  remove_cap ok cc (core 0).abs g fuel (core fuel).ins (insert_capOK ok cc g core fuel) wf e hc h

theorem fromIter_capOK (fuel : Nat) (v : List Nat) (hrange : ∀ x ∈ v, x < 2 ^ c.W) {d d' : D} {r : Rp}
    (h : fromIter c g fuel v d = .ok (r, d')) : CapOK r (len r) ∧ len r ≤ v.length :=
  fromIter_cap ok cc (core 0).abs g fuel (core fuel).ins (insert_capOK ok cc g core fuel) v hrange h

/-- `extend` / insert loops -/
theorem extend_capOK (fuel : Nat) {r : Rp} (wf : WF c r) (xs : List Nat) (hx : ∀ x ∈ xs, x < 2 ^ c.W)
    {d d' : D} {r' : Rp} {M : Nat} (hc : CapOK r M) (h : extend c g fuel r xs d = .ok (r', d')) :
    CapOK r' (Max.max M (len r')) ∧ WF c r' ∧ len r ≤ len r' ∧
      ∀ x, x ∈ elems c r' ↔ (x ∈ elems c r ∨ x ∈ xs) := by
  unfold extend at h
  have s := insertAll_ok (core fuel).ins xs r d r' d' wf hx h
  refine ⟨insertAll_cap (core 0).abs (core fuel).ins (insert_capOK ok cc g core fuel) xs r d r' d' M wf hx hc h,
    s.1, ?_, s.2⟩
  exact len_le_of_subset ((core 0).abs _ wf) ((core 0).abs _ s.1) (fun x hx => (s.2 x).2 (Or.inl hx))

theorem removeAll_capOK (fuel : Nat) : ∀ (xs : List Nat) {r : Rp}, WF c r → (∀ x ∈ xs, x < 2 ^ c.W) →
    ∀ {d d' : D} {r' : Rp} {M : Nat}, CapOK r M → removeAll c g fuel r xs d = .ok (r', d') →
    CapOK r' M ∧ WF c r'
  | [], r, wf, _, d, d', r', M, hc, h => by
    simp only [removeAll, List.foldlM_nil, pure, StateT.pure, Except.pure] at h
    cases h
    exact ⟨hc, wf⟩
  | x :: xs, r, wf, hx, d, d', r', M, hc, h => by
    simp only [removeAll, List.foldlM_cons] at h
    obtain ⟨r1, d1, h1, h2⟩ := bind_ok h
    obtain ⟨p, d2, h3, h4⟩ := bind_ok h1
    simp only [pure, StateT.pure, Except.pure] at h4
    cases h4
    have hx1 := hx x List.mem_cons_self
    have s1 := (core fuel).rem r x d p.1 p.2 _ wf hx1 (by rw [h3])
    have c1 : CapOK p.1 M := remove_capOK ok cc g core fuel wf x hc (by rw [h3])
    exact removeAll_capOK fuel xs s1.wf (fun y hy => hx y (List.mem_cons_of_mem _ hy)) c1 h2

end surface

/-! ### `with_capacity_of`, `clone`, and the operators -/

theorem withCapOf_cap {r : Rp} {M : Nat} (hc : CapOK r M) : CapOK (withCapOf r) M := by
  cases r with
  | empty => exact CapOK.empty _
  | stack t => exact CapOK.empty _
  | heap sz cap bits a => exact ⟨hc.1, Nat.zero_le _⟩

theorem clone_cap {r : Rp} {M : Nat} (hc : CapOK r M) : CapOK (clone r) M := hc

theorem elems_withCapOf (r : Rp) : elems c (withCapOf r) = [] := by
  cases r with
  | empty => rfl
  | stack t => rfl
  | heap sz cap bits a => exact elems_zero c (fun w hw => replicate_zero_mem hw)

section operators
variable (ok : CfgOK c) (cc : CapCfg c) (g : Rng D) (core : ∀ fuel, CoreOK c g fuel)
include ok cc core

/-- `&a | &b` -/
theorem unionRef_cap (fuel : Nat) {a b : Rp} (wa : WF c a) (wb : WF c b) {Ma Mb : Nat}
    (ha : CapOK a Ma) (hb : CapOK b Mb) {d d' : D} {r : Rp}
    (h : unionRef c g fuel a b d = .ok (r, d')) : CapOK r (Max.max (Max.max Ma Mb) (len r)) ∧ WF c r := by
  unfold unionRef at h
  obtain ⟨s1, d1, h1, h2⟩ := bind_ok h
  have hs : WF c (if len a > len b then withCapOf a else withCapOf b) ∧
      CapOK (if len a > len b then withCapOf a else withCapOf b) (Max.max Ma Mb) := by
    split
    · exact ⟨Cap.withCapOf_wf ok wa, (withCapOf_cap ha).mono (Nat.le_max_left _ _)⟩
    · exact ⟨Cap.withCapOf_wf ok wb, (withCapOf_cap hb).mono (Nat.le_max_right _ _)⟩
  obtain ⟨e1, e2, _, _⟩ := extend_capOK ok cc g core fuel hs.1 _ ((core 0).abs a wa).range hs.2 h1
  obtain ⟨f1, f2, f3, _⟩ := extend_capOK ok cc g core fuel e2 _ ((core 0).abs b wb).range e1 h2
  exact ⟨⟨by have := f1.1; rw [Nat.max_assoc, Nat.max_eq_right f3] at this; exact this, Nat.le_max_right _ _⟩, f2⟩

/-- `a | &b` -/
theorem unionOwn_cap (fuel : Nat) {a b : Rp} (wa : WF c a) (wb : WF c b) {Ma : Nat}
    (ha : CapOK a Ma) {d d' : D} {r : Rp}
    (h : unionOwn c g fuel a b d = .ok (r, d')) : CapOK r (Max.max Ma (len r)) ∧ WF c r :=
  have := extend_capOK ok cc g core fuel wa _ ((core 0).abs b wb).range ha h
  ⟨this.1, this.2.1⟩

/-- `&a - &b`: the result never has more members than `a`, so `a`'s bound is kept -/
theorem diffRef_cap (fuel : Nat) {a b : Rp} (wa : WF c a) {Ma : Nat}
    (ha : CapOK a Ma) {d d' : D} {r : Rp}
    (h : diffRef c g fuel a b d = .ok (r, d')) : CapOK r Ma ∧ WF c r := by
  unfold diffRef at h
  have hr : ∀ x ∈ (elems c a).filter (fun v => !contains c b v), x < 2 ^ c.W :=
    fun x hx => ((core 0).abs a wa).range x (List.mem_filter.1 hx).1
  obtain ⟨e1, e2, _, e4⟩ := extend_capOK ok cc g core fuel (Cap.withCapOf_wf ok wa) _ hr (withCapOf_cap ha) h
  have hle : len r ≤ len a := by
    apply len_le_of_subset ((core 0).abs r e2) ((core 0).abs a wa)
    intro x hx
    rcases (e4 x).1 hx with h1 | h1
    · rw [elems_withCapOf] at h1; cases h1
    · exact (List.mem_filter.1 h1).1
  have : len r ≤ Ma := Nat.le_trans hle ha.2
  rw [Nat.max_eq_left this] at e1
  exact ⟨e1, e2⟩

/-- `a - &b` -/
theorem diffOwn_cap (fuel : Nat) {a b : Rp} (wa : WF c a) (wb : WF c b) {Ma : Nat}
    (ha : CapOK a Ma) {d d' : D} {r : Rp}
    (h : diffOwn c g fuel a b d = .ok (r, d')) : CapOK r Ma ∧ WF c r :=
  removeAll_capOK ok cc g core fuel _ wa ((core 0).abs b wb).range ha h

/-- `&a - &b` for `Set64` (starts from `new()`): bounded by the result's own member count -/
theorem diffRef64_cap (fuel : Nat) {a b : Rp} (wa : WF c a) {d d' : D} {r : Rp}
    (h : diffRef64 c g fuel a b d = .ok (r, d')) : CapOK r (len r) ∧ WF c r := by
  unfold diffRef64 at h
  have hr : ∀ x ∈ (elems c a).filter (fun v => !contains c b v), x < 2 ^ c.W :=
    fun x hx => ((core 0).abs a wa).range x (List.mem_filter.1 hx).1
  have := extend_capOK ok cc g core fuel (r := .empty) trivial _ hr (CapOK.empty 0) h
  rw [Nat.zero_max] at this
  exact ⟨this.1, this.2.1⟩

/-- `&a | &b` for `Set64` (starts from `new()`) -/
theorem unionRef64_cap (fuel : Nat) {a b : Rp} (wa : WF c a) (wb : WF c b) {d d' : D} {r : Rp}
    (h : unionRef64 c g fuel a b d = .ok (r, d')) : CapOK r (len r) ∧ WF c r := by
  unfold unionRef64 at h
  obtain ⟨s1, d1, h1, h2⟩ := bind_ok h
  obtain ⟨e1, e2, _, _⟩ := extend_capOK ok cc g core fuel (r := .empty) trivial _ ((core 0).abs a wa).range
    (CapOK.empty 0) h1
  obtain ⟨f1, f2, f3, _⟩ := extend_capOK ok cc g core fuel e2 _ ((core 0).abs b wb).range e1 h2
  rw [Nat.zero_max, Nat.max_eq_right f3] at f1
  exact ⟨f1, f2⟩

end operators

/-! ### the footprint -/

theorem memUsed_eq (r : Rp) : memUsed c r = 8 + blockBytes c r := rfl

/-- the header is three element words in both configurations -/
theorem header_words (hW : c.W = 64 ∨ c.W = 32) : headerBytes c = 3 * elemBytes c := by
  unfold headerBytes elemBytes
  rcases hW with h | h <;> rw [h] <;> rfl

/-- C11: the block is at most `8 M + 8` element words -/
theorem footprint_linear (hW : c.W = 64 ∨ c.W = 32) {r : Rp} {M : Nat} (hc : CapOK r M) :
    blockBytes c r ≤ (8 * M + 8) * elemBytes c := by
  cases r with
  | empty => exact Nat.zero_le _
  | stack t => exact Nat.zero_le _
  | heap sz cap bits a =>
    have h1 : cap ≤ 3 * M + 5 := hc.1
    show cap * elemBytes c + headerBytes c ≤ (8 * M + 8) * elemBytes c
    rw [header_words hW, ← Nat.add_mul]
    exact Nat.mul_le_mul_right _ (by omega)

theorem footprint64 {r : Rp} {M : Nat} (hc : CapOK r M) : memUsed cfg64 r ≤ 64 * M + 72 := by
  have h := footprint_linear (c := cfg64) (Or.inl rfl) hc
  have e : elemBytes cfg64 = 8 := rfl
  rw [memUsed_eq]
  rw [e] at h
  omega

theorem footprint32 {r : Rp} {M : Nat} (hc : CapOK r M) : memUsed cfg32 r ≤ 32 * M + 40 := by
  have h := footprint_linear (c := cfg32) (Or.inr rfl) hc
  have e : elemBytes cfg32 = 4 := rfl
  rw [memUsed_eq]
  rw [e] at h
  omega

/-! ### every history -/

/-- `Hist c g r M`: `r` is the value of a set after some history of operations that starts from `new()` or
`collect` (no capacity hints), for some outcomes of the random draws (the generator states `d` are arbitrary
at every step), and `M` is the largest `len` that the set, or any set it was derived from, has had. -/
inductive Hist (c : Cfg) {D : Type} (g : Rng D) : Rp → Nat → Prop
  | new : Hist c g .empty 0
  | collect {fuel v d d' r} : (∀ x ∈ v, x < 2 ^ c.W) → fromIter c g fuel v d = .ok (r, d') → Hist c g r (len r)
  | insert {fuel r M e d r' b d'} : Hist c g r M → e < 2 ^ c.W → insert c g fuel r e d = .ok ((r', b), d') →
      Hist c g r' (Max.max M (len r'))
  | remove {fuel r M e d r' b d'} : Hist c g r M → e < 2 ^ c.W → remove c g fuel r e d = .ok ((r', b), d') →
      Hist c g r' M
  | extend {fuel r M xs d r' d'} : Hist c g r M → (∀ x ∈ xs, x < 2 ^ c.W) → extend c g fuel r xs d = .ok (r', d') →
      Hist c g r' (Max.max M (len r'))
  | clone {r M} : Hist c g r M → Hist c g (clone r) M
  | withCapOf {r M} : Hist c g r M → Hist c g (withCapOf r) M
  | drain {r M} : Hist c g r M → Hist c g (drain c r).1 M
  | unionRef {fuel a b Ma Mb d r d'} : Hist c g a Ma → Hist c g b Mb → unionRef c g fuel a b d = .ok (r, d') →
      Hist c g r (Max.max (Max.max Ma Mb) (len r))
  | unionOwn {fuel a b Ma Mb d r d'} : Hist c g a Ma → Hist c g b Mb → unionOwn c g fuel a b d = .ok (r, d') →
      Hist c g r (Max.max Ma (len r))
  | diffRef {fuel a b Ma Mb d r d'} : Hist c g a Ma → Hist c g b Mb → diffRef c g fuel a b d = .ok (r, d') →
      Hist c g r Ma
  | diffOwn {fuel a b Ma Mb d r d'} : Hist c g a Ma → Hist c g b Mb → diffOwn c g fuel a b d = .ok (r, d') →
      Hist c g r Ma
  | unionRef64 {fuel a b Ma Mb d r d'} : Hist c g a Ma → Hist c g b Mb → unionRef64 c g fuel a b d = .ok (r, d') →
      Hist c g r (len r)
  | diffRef64 {fuel a b Ma Mb d r d'} : Hist c g a Ma → Hist c g b Mb → diffRef64 c g fuel a b d = .ok (r, d') →
      Hist c g r (len r)

/-- along every history the value is well formed and within the ghost bound -/
theorem hist_ok (ok : CfgOK c) (cc : CapCfg c) (g : Rng D) (core : ∀ fuel, CoreOK c g fuel) {r : Rp} {M : Nat}
    (h : Hist c g r M) : WF c r ∧ CapOK r M := by
  induction h with
  | new => exact ⟨trivial, CapOK.empty 0⟩
  | @collect fuel v d d' r hv h =>
    exact ⟨(fromIter_ok ok g fuel (core fuel).ins v hv d d' r h).1, (fromIter_capOK ok cc g core fuel v hv h).1⟩
  | @insert fuel r M e d r' b d' _ he h ih =>
    exact ⟨((core fuel).ins r e d r' b d' ih.1 he h).wf, insert_capOK ok cc g core fuel r e d r' b d' M ih.1 he ih.2 h⟩
  | @remove fuel r M e d r' b d' _ he h ih =>
    exact ⟨((core fuel).rem r e d r' b d' ih.1 he h).wf, remove_capOK ok cc g core fuel ih.1 e ih.2 h⟩
  | @extend fuel r M xs d r' d' _ hx h ih =>
    have := extend_capOK ok cc g core fuel ih.1 xs hx ih.2 h
    exact ⟨this.2.1, this.1⟩
  | clone _ ih => exact ih
  | withCapOf _ ih => exact ⟨Cap.withCapOf_wf ok ih.1, withCapOf_cap ih.2⟩
  | drain _ _ => exact ⟨trivial, CapOK.empty _⟩
  | unionRef _ _ h iha ihb => exact (unionRef_cap ok cc g core _ iha.1 ihb.1 iha.2 ihb.2 h).symm
  | unionOwn _ _ h iha ihb => exact (unionOwn_cap ok cc g core _ iha.1 ihb.1 iha.2 h).symm
  | diffRef _ _ h iha _ => exact (diffRef_cap ok cc g core _ iha.1 iha.2 h).symm
  | diffOwn _ _ h iha ihb => exact (diffOwn_cap ok cc g core _ iha.1 ihb.1 iha.2 h).symm
  | unionRef64 _ _ h iha ihb => exact (unionRef64_cap ok cc g core _ iha.1 ihb.1 h).symm
  | diffRef64 _ _ h iha _ => exact (diffRef64_cap ok cc g core _ iha.1 h).symm

/-- C11: after every history from `new()` / `collect`, for every outcome of the random draws, the block is at
    most `8 M + 8` element words, `M` the high-water member count -/
theorem hist_footprint (ok : CfgOK c) (cc : CapCfg c) (hW : c.W = 64 ∨ c.W = 32) (g : Rng D)
    (core : ∀ fuel, CoreOK c g fuel) {r : Rp} {M : Nat} (h : Hist c g r M) :
    blockBytes c r ≤ (8 * M + 8) * elemBytes c ∧ len r ≤ M :=
  have := hist_ok ok cc g core h
  ⟨footprint_linear hW this.2, this.2.2⟩

theorem hist_footprint64 (g : Rng D) (core : ∀ fuel, CoreOK cfg64 g fuel) {r : Rp} {M : Nat}
    (h : Hist cfg64 g r M) : memUsed cfg64 r ≤ 64 * M + 72 :=
  footprint64 (hist_ok cfg64_ok capCfg64 g core h).2

theorem hist_footprint32 (g : Rng D) (core : ∀ fuel, CoreOK cfg32 g fuel) {r : Rp} {M : Nat}
    (h : Hist cfg32 g r M) : memUsed cfg32 r ≤ 32 * M + 40 :=
  footprint32 (hist_ok cfg32_ok capCfg32 g core h).2


#print axioms insert_cap
#print axioms insert_capOK
#print axioms remove_capOK
#print axioms fromIter_capOK
#print axioms extend_capOK
#print axioms removeAll_capOK
#print axioms unionRef_cap
#print axioms unionOwn_cap
#print axioms diffRef_cap
#print axioms diffOwn_cap
#print axioms diffRef64_cap
#print axioms unionRef64_cap
#print axioms withCapOf_cap
#print axioms capCfg64
#print axioms capCfg32
#print axioms footprint_linear
#print axioms footprint64
#print axioms footprint32
#print axioms hist_ok
#print axioms hist_footprint
#print axioms hist_footprint64
#print axioms hist_footprint32

end SC
