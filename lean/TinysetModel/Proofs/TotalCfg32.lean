import TinysetModel.Proofs.TotalSites
/-! Totality of `insert`, part 5: why the fuel-3 statement is about `SetU64` only.  Under the `SetU32` room
rule ("more than `cap >>> 4` buckets empty") the regrown table `cap + 1 + r % cap` can be too small for the
refill when the draw is small, so the refill re-enters the growth branch.  A concrete reachable state and a
constant-0 generator on which `insert cfg32 _ 3` runs out of fuel while `insert cfg32 _ 4` returns: -/
namespace SC

/-- the generator that always draws 0 -/
def zeroRng32 : Rng Unit := { draw := fun _ _ _ => (0, ()) }

/-- 32 values with 32 different keys for the width `compute_array_bits = 11` -/
def vals32 : List Nat := (List.range 32).map (fun i => 2 ^ 20 + i * 1024)

/-- the `SetU32` reached by inserting `vals32` into the empty set: a full 32-bucket bitmap table -/
def r32 : Rp := .heap 32 32 11 #[197132289, 199229441, 196940800, 199037952, 201135104, 196749824, 198846976,
  200944128, 196559104, 198656256, 200753408, 196368512, 198465664, 200562816, 196177984, 198275136, 200372288,
  195987488, 198084640, 200181792, 195797008, 197894160, 199991312, 195606536, 197703688, 199800840, 195416068,
  197513220, 199610372, 195225602, 197322754, 199419906]

/-- `r32` is reached from the empty set by 32 inserts (already with fuel 3) -/
theorem r32_reached : insertAll (insert cfg32 zeroRng32 3) .empty vals32 () = .ok (r32, ()) := by decide +kernel

theorem r32_wf : WF cfg32 r32 :=
  (insertAll_ok (insert_refines cfg32_ok zeroRng32 3) vals32 .empty () r32 () trivial
    (by decide +kernel) r32_reached).1

/-- inserting one more key with the constant-0 generator: recursion depth 2 is not enough ... -/
theorem r32_fuel3 : insert cfg32 zeroRng32 3 r32 (2 ^ 20 + 32 * 1024) () = .error .fuel := by decide +kernel

/-- ... depth 3 is -/
theorem r32_fuel4 : ∃ p, insert cfg32 zeroRng32 4 r32 (2 ^ 20 + 32 * 1024) () = .ok p := by
  have h : (insert cfg32 zeroRng32 4 r32 (2 ^ 20 + 32 * 1024) ()).toBool = true := by decide +kernel
  cases hh : insert cfg32 zeroRng32 4 r32 (2 ^ 20 + 32 * 1024) () with
  | ok p => exact ⟨p, rfl⟩
  | error e => rw [hh] at h; cases h

/-- the fuel-3 totality statement, read for `cfg32`, is false -/
theorem insert_total_u32_fuel3_false :
    ¬ (∀ (g : Rng Unit) (r : Rp), WF cfg32 r → ∀ e, e < 2 ^ 32 →
        capacity r + 32 + 3 ≤ 2 ^ 32 ∧ 3 * len r + 4 + 32 + 3 ≤ 2 ^ 32 →
        ∀ d, ∃ r' b d', insert cfg32 g 3 r e d = .ok ((r', b), d')) := by
  intro h
  obtain ⟨r', b, d', h1⟩ := h zeroRng32 r32 r32_wf (2 ^ 20 + 32 * 1024) (by decide) (by decide) ()
  rw [r32_fuel3] at h1
  cases h1

/-- `cfg32` does not have the room rule the proof for `cfg64` uses -/
theorem cfg32_not_like : ¬ Like64 cfg32 := fun h => by
  have := h.room
  cases this

#print axioms r32_reached
#print axioms r32_fuel3
#print axioms r32_fuel4
#print axioms insert_total_u32_fuel3_false
end SC
