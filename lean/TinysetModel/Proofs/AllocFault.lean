import TinysetModel.Proofs.AllocProj
import TinysetModel.Proofs.FaultProj
/-! The two instrumented readings of `insert` agree: the requests for a zeroed block that the failure-state reading
(`Model/Fault.lean`, one entry of the trace per request) enumerates are exactly the `alloc_zeroed` calls of the
allocator-call reading (`Model/Alloc.lean`) — same run, same number, for every input, generator state and fuel.
So "every allocation point inside `insert`/`extend`" of the fault enumeration and "every `alloc` event" are the
same points, and what the failure-state theorems say about the k-th request is about the k-th `alloc` event. -/
namespace SC
open RH (Tbl get put)

variable {D : Type}

def isAlloc : Ev → Bool
  | .alloc _ => true
  | _ => false

/-- number of `alloc_zeroed` calls -/
def nAlloc (evs : List Ev) : Nat := (evs.filter isAlloc).length

theorem nAlloc_append (a b : List Ev) : nAlloc (a ++ b) = nAlloc a + nAlloc b := by
  simp [nAlloc, List.filter_append]

theorem nAlloc_nil : nAlloc [] = 0 := rfl
theorem nAlloc_freeEv (c : Cfg) (r : Rp) : nAlloc (freeEv c r) = 0 := by cases r <;> rfl

/-- paired outcomes of the two readings on the same input -/
def LinkOut : Except Err (((Rp × Bool) × Tr) × D) → Except Err (((Rp × Bool) × List Ev) × D) → Prop
  | .ok ((_, t), _), .ok ((_, evs), _) => t.length = nAlloc evs
  | _, _ => True

def LinkOut1 : Except Err ((Rp × Tr) × D) → Except Err ((Rp × List Ev) × D) → Prop
  | .ok ((_, t), _), .ok ((_, evs), _) => t.length = nAlloc evs
  | _, _ => True

/-- the recursive calls: both readings project onto the same `rec`, and their counts agree -/
structure LinkRec (recT : InsT D) (recE : InsE D) (rec : Ins D) : Prop where
  pT : ProjOK recT rec
  pE : ProjE recE rec
  link : ∀ r e d, LinkOut (recT r e d) (recE r e d)

theorem LinkOut_bind {α : Type} (m : M D α) (fT : α → M D ((Rp × Bool) × Tr)) (fE : α → M D ((Rp × Bool) × List Ev)) (d : D)
    (h : ∀ x d1, m d = .ok (x, d1) → LinkOut (fT x d1) (fE x d1)) : LinkOut ((m >>= fT) d) ((m >>= fE) d) := by
  simp only [bind, StateT.bind, Except.bind]
  cases hm : m d with
  | error e => trivial
  | ok p => exact h p.1 p.2 hm

/-- the paired insert loops: same intermediate sets and generator states (both project onto `rec`) -/
theorem insertAll_link_aux {recT : InsT D} {recE : InsE D} {rec : Ins D} (h : LinkRec recT recE rec) (xs : List Nat) :
    ∀ (r : Rp) (t0 : Tr) (e0 : List Ev) (d : D), t0.length = nAlloc e0 →
      LinkOut1
        (xs.foldlM (fun (acc : Rp × Tr) x => (do
          let ((r', _), t) ← recT acc.1 x
          pure (r', acc.2 ++ t) : M D (Rp × Tr))) (r, t0) d)
        (xs.foldlM (fun (acc : Rp × List Ev) x => (do
          let ((r', _), t) ← recE acc.1 x
          pure (r', acc.2 ++ t) : M D (Rp × List Ev))) (r, e0) d) := by
  induction xs with
  | nil => intro r t0 e0 d h0; exact h0
  | cons x xs ih =>
    intro r t0 e0 d h0
    simp only [List.foldlM_cons, bind, StateT.bind, Except.bind]
    have hl := h.link r x d
    cases hT : recT r x d with
    | error y => trivial
    | ok p =>
      obtain ⟨⟨⟨r1, b1⟩, t⟩, d1⟩ := p
      cases hE : recE r x d with
      | error y => simp only [LinkOut1]; split <;> trivial
      | ok q =>
        obtain ⟨⟨⟨r2, b2⟩, ev⟩, d2⟩ := q
        have e1 := h.pT.ok hT
        have e2 := h.pE.ok hE
        rw [e1] at e2
        cases e2
        rw [hT, hE] at hl
        simp only [pure, StateT.pure, Except.pure]
        exact ih r1 (t0 ++ t) (e0 ++ ev) d1 (by rw [List.length_append, nAlloc_append, h0, hl])

theorem insertAll_link {recT : InsT D} {recE : InsE D} {rec : Ins D} (h : LinkRec recT recE rec) (r : Rp) (xs : List Nat) (d : D) :
    LinkOut1 (insertAllT recT r xs d) (insertAllE recE r xs d) :=
  insertAll_link_aux h xs r [] [] d rfl

/-- both rebuild readings (`*self` assigned first, or a local assigned last) against the event reading: the requests
    made by the refill are the `alloc` events of the refill; the caller adds the request of `new` itself -/
theorem rebuild_link (c : Cfg) {recT : InsT D} {recE : InsE D} {rec : Ins D} (h : LinkRec recT recE rec) (selfT : Bool)
    (new old : Rp) (e : Nat) (d : D) (req : Tr) (hreq : req.length = nAlloc (allocEv c new)) :
    LinkOut (((if selfT then rebuildSelfT c recT new old e else rebuildLocalT c recT new old e) >>=
        fun p => pure (p.1, req ++ p.2)) d)
      (rebuildE c recE new old e d) := by
  have hA := insertAll_link h new (elems c old) d
  have pA := insertAllT_proj h.pT new (elems c old) d
  have pB := insertAllE_proj h.pE new (elems c old) d
  cases selfT <;>
  · simp only [rebuildLocalT, rebuildSelfT, rebuildE, bind, StateT.bind, Except.bind, if_true, if_false, Bool.false_eq_true]
    cases hT : insertAllT recT new (elems c old) d with
    | error y => trivial
    | ok p =>
      obtain ⟨⟨r1, t1⟩, d1⟩ := p
      cases hE : insertAllE recE new (elems c old) d with
      | error y => simp only [LinkOut]; split <;> trivial
      | ok q =>
        obtain ⟨⟨r2, e1⟩, d2⟩ := q
        rw [hT] at pA
        rw [hE] at pB
        rw [← pB] at pA
        simp only [dropTr1, dropEv1, Except.ok.injEq, Prod.mk.injEq] at pA
        obtain ⟨rfl, rfl⟩ := pA
        rw [hT, hE] at hA
        have hl := h.link r1 e d1
        simp only []
        cases hT2 : recT r1 e d1 with
        | error y => trivial
        | ok p2 =>
          obtain ⟨⟨⟨r3, b3⟩, t2⟩, d3⟩ := p2
          cases hE2 : recE r1 e d1 with
          | error y => simp only [LinkOut]; split <;> trivial
          | ok q2 =>
            obtain ⟨⟨⟨r4, b4⟩, e2⟩, d4⟩ := q2
            rw [hT2, hE2] at hl
            simp only [pure, StateT.pure, Except.pure, LinkOut, LinkOut1] at hA hl ⊢
            simp only [List.length_append, List.length_map, nAlloc_append, nAlloc_freeEv, hreq, hA, hl]
            omega

/-! ### the request made when a value is created -/

theorem reqWCB_link (c : Cfg) (g : Rng D) (self : Rp) (cap bits : Nat) {d d' : D} {new : Rp}
    (h : withCapBits c g cap bits d = .ok (new, d')) : (reqWCB self cap).length = nAlloc (allocEv c new) := by
  unfold withCapBits at h
  unfold reqWCB
  by_cases hc : cap > 0
  · simp only [hc, if_true] at h ⊢
    by_cases hb : bits = 0
    · simp only [hb, if_true] at h
      obtain ⟨b, d1, _, h2⟩ := bind_ok h
      simp only [pure, StateT.pure, Except.pure] at h2
      cases h2; rfl
    · simp only [hb, if_false, pure, StateT.pure, Except.pure] at h
      cases h; rfl
  · simp only [hc, if_false, pure, StateT.pure, Except.pure] at h ⊢
    cases h; rfl

theorem reqWCM_link (c : Cfg) (g : Rng D) (self : Rp) (cap mx : Nat) {d d' : D} {new : Rp}
    (h : withCapMax c g cap mx d = .ok (new, d')) : (reqWCM c self cap mx).length = nAlloc (allocEv c new) := by
  unfold withCapMax at h
  unfold reqWCM
  by_cases hc : cap > mx >>> c.capShift
  · simp only [hc, if_true, pure, StateT.pure, Except.pure] at h ⊢
    cases h; rfl
  · simp only [hc, if_false] at h ⊢
    exact reqWCB_link c g self cap _ h

section step
variable (c : Cfg) (fresh : Bool) (g : Rng D)

theorem insertDense_link {recT : InsT D} {recE : InsE D} {rec : Ins D} (h : LinkRec recT recE rec)
    (sz cap : Nat) (a : Tbl) (e : Nat) (d : D) :
    LinkOut (insertDenseT c fresh g recT sz cap a e d) (insertDenseE c fresh g recE sz cap a e d) := by
  unfold insertDenseT insertDenseE
  dsimp only
  split
  · rfl
  · split
    · refine LinkOut_bind _ _ _ d (fun new d1 hn => ?_)
      exact rebuild_link c h false new _ e d1 _ (reqWCB_link c g _ _ _ hn)
    · cases fresh <;> rfl

theorem insertPlain_link (sz cap bits : Nat) (a : Tbl) (e : Nat) (d : D) :
    LinkOut (insertPlainT c g sz cap bits a e d) (insertPlainE c g sz cap bits a e d) := by
  unfold insertPlainT insertPlainE
  refine LinkOut_bind _ _ _ d (fun ab d1 _ => ?_)
  obtain ⟨a1, bits1⟩ := ab
  dsimp only
  generalize (if e = 0 then bits1 else e) = e'
  have key : LinkOut ((match tablePlace c e' e' 0 a1 with
        | some a' => (pure ((Rp.heap (sz + 1) cap bits1 a', true), []) : M D ((Rp × Bool) × Tr))
        | none => do
          let r ← drawM c g cap bits1
          let na ← (a1.toList.filter (· ≠ 0)).foldlM (fun t v => placeRaw v t)
            (Array.replicate (cap + 1 + c.growExtra cap + r % c.bigMod cap) 0)
          let na ← placeRaw e' na
          pure ((Rp.heap (sz + 1) (cap + 1 + c.growExtra cap + r % c.bigMod cap) bits1 na, true),
            reqWCB (Rp.heap sz cap bits1 a1) (cap + 1 + c.growExtra cap + r % c.bigMod cap))) d1)
      ((match tablePlace c e' e' 0 a1 with
        | some a' => (pure ((Rp.heap (sz + 1) cap bits1 a', true), []) : M D ((Rp × Bool) × List Ev))
        | none => do
          let r ← drawM c g cap bits1
          let na ← (a1.toList.filter (· ≠ 0)).foldlM (fun t v => placeRaw v t)
            (Array.replicate (cap + 1 + c.growExtra cap + r % c.bigMod cap) 0)
          let na ← placeRaw e' na
          pure ((Rp.heap (sz + 1) (cap + 1 + c.growExtra cap + r % c.bigMod cap) bits1 na, true),
            [.alloc (bytesFor c (cap + 1 + c.growExtra cap + r % c.bigMod cap)), .free (bytesFor c cap)])) d1) := by
    cases tablePlace c e' e' 0 a1 with
    | some a' => rfl
    | none =>
      refine LinkOut_bind _ _ _ d1 (fun r d2 _ => ?_)
      refine LinkOut_bind _ _ _ d2 (fun na d3 _ => ?_)
      refine LinkOut_bind _ _ _ d3 (fun na2 d4 _ => ?_)
      show (reqWCB _ _).length = nAlloc _
      have : cap + 1 + c.growExtra cap + r % c.bigMod cap > 0 := by omega
      simp only [reqWCB, this, if_true, List.length_singleton, nAlloc]
      rfl
  cases RH.lookfor e' a1 0 with
  | found i => rfl
  | empty i => exact key
  | needInsert => exact key

theorem insertBitmap_link {recT : InsT D} {recE : InsE D} {rec : Ins D} (h : LinkRec recT recE rec)
    (sz cap bits : Nat) (a : Tbl) (e : Nat) (d : D) :
    LinkOut (insertBitmapT c g recT sz cap bits a e d) (insertBitmapE c g recE sz cap bits a e d) := by
  unfold insertBitmapT insertBitmapE
  dsimp only
  split
  · refine LinkOut_bind _ _ _ d (fun r d1 _ => ?_)
    refine LinkOut_bind _ _ _ d1 (fun new d2 hn => ?_)
    exact rebuild_link c h false new _ e d2 _ (reqWCB_link c g _ _ _ hn)
  · have key : LinkOut ((match tablePlace c (e / bits) (modW c ((e / bits) <<< bits) ||| 1 <<< (e % bits)) bits a with
        | some a' => (pure ((Rp.heap (sz + 1) cap bits a', true), []) : M D ((Rp × Bool) × Tr))
        | none =>
          let mx0 := (a.toList.map (fun x => (x >>> bits) * bits + bits)).foldl Max.max 0
          let mx := if e > mx0 then e else mx0
          if cap > mx >>> 6 then do
            let (res, t) ← rebuildLocalT c recT (denseWithMax c mx) (.heap sz cap bits a) e
            pure (res, (Rp.heap sz cap bits a) :: t)
          else do
            let r ← drawM c g cap bits
            let ncap := cap + 1 + c.growExtra cap + (r % cap)
            let new ← withCapBits c g ncap bits
            let (res, t) ← rebuildLocalT c recT new (.heap sz cap bits a) e
            pure (res, reqWCB (.heap sz cap bits a) ncap ++ t)) d)
      ((match tablePlace c (e / bits) (modW c ((e / bits) <<< bits) ||| 1 <<< (e % bits)) bits a with
        | some a' => (pure ((Rp.heap (sz + 1) cap bits a', true), []) : M D ((Rp × Bool) × List Ev))
        | none =>
          let mx0 := (a.toList.map (fun x => (x >>> bits) * bits + bits)).foldl Max.max 0
          let mx := if e > mx0 then e else mx0
          if cap > mx >>> 6 then
            rebuildE c recE (denseWithMax c mx) (.heap sz cap bits a) e
          else do
            let r ← drawM c g cap bits
            let new ← withCapBits c g (cap + 1 + c.growExtra cap + (r % cap)) bits
            rebuildE c recE new (.heap sz cap bits a) e) d) := by
      cases tablePlace c (e / bits) (modW c ((e / bits) <<< bits) ||| 1 <<< (e % bits)) bits a with
      | some a' => rfl
      | none =>
        dsimp only
        generalize (if e > (a.toList.map (fun x => (x >>> bits) * bits + bits)).foldl Max.max 0 then e
          else (a.toList.map (fun x => (x >>> bits) * bits + bits)).foldl Max.max 0) = mx
        split
        · exact rebuild_link c h false (denseWithMax c mx) _ e d [Rp.heap sz cap bits a] rfl
        · refine LinkOut_bind _ _ _ d (fun r d1 _ => ?_)
          refine LinkOut_bind _ _ _ d1 (fun new d2 hn => ?_)
          exact rebuild_link c h false new _ e d2 _ (reqWCB_link c g _ _ _ hn)
    cases RH.lookfor (e / bits) a bits with
    | found idx =>
      dsimp only
      split <;> rfl
    | empty i => exact key
    | needInsert => exact key

theorem insertStep_link {recT : InsT D} {recE : InsE D} {rec : Ins D} (h : LinkRec recT recE rec) :
    LinkRec (insertStepT c fresh g recT) (insertStepE c fresh g recE) (insertStep c g rec) where
  pT := insertStepT_proj c fresh g h.pT
  pE := insertStepE_proj c fresh g h.pE
  link := by
    intro r e d
    cases r with
    | empty =>
      unfold insertStepT insertStepE
      dsimp only
      cases TinyC.newSortedDeduped c.codec [e] with
      | some t => rfl
      | none =>
        refine LinkOut_bind _ _ _ d (fun r1 d1 hn => ?_)
        have hq := reqWCM_link c g .empty 1 e hn
        have hl := h.link r1 e d1
        simp only [bind, StateT.bind, Except.bind]
        cases hT : recT r1 e d1 with
        | error y => trivial
        | ok p =>
          obtain ⟨⟨res, t⟩, d2⟩ := p
          cases hE : recE r1 e d1 with
          | error y => simp only [LinkOut]; split <;> trivial
          | ok q =>
            obtain ⟨⟨res', ev⟩, d3⟩ := q
            rw [hT, hE] at hl
            simp only [pure, StateT.pure, Except.pure, LinkOut] at hl ⊢
            rw [List.length_append, nAlloc_append, hq, hl]
    | stack t =>
      unfold insertStepT insertStepE
      dsimp only
      cases TinyC.insert c.codec t e with
      | some t' => rfl
      | none =>
        refine LinkOut_bind _ _ _ d (fun r1 d1 hn => ?_)
        exact rebuild_link c h true r1 _ e d1 _ (reqWCM_link c g _ _ _ hn)
    | heap sz cap bits a =>
      unfold insertStepT insertStepE
      dsimp only
      split
      · exact insertDense_link c fresh g h sz cap a e d
      · split
        · exact insertPlain_link c g sz cap bits a e d
        · exact insertBitmap_link c g h sz cap bits a e d

/-- **the zeroed requests of the failure-state reading are the `alloc_zeroed` calls of the allocator-call reading** -/
theorem insert_link (fuel : Nat) : LinkRec (insertT c fresh g fuel) (insertE c fresh g fuel) (insert c g fuel) := by
  induction fuel with
  | zero => exact ⟨fun _ _ _ => rfl, fun _ _ _ => rfl, fun _ _ _ => trivial⟩
  | succ n ih => exact insertStep_link c fresh g ih

theorem extend_link (fuel : Nat) (r : Rp) (xs : List Nat) (d : D) :
    LinkOut1 (extendT c fresh g fuel r xs d) (extendE c fresh g fuel r xs d) :=
  insertAll_link (insert_link c fresh g fuel) r xs d

/-- usable form: a returning run of the failure-state reading has a returning run of the allocator-call reading
    with the same result and generator state, and as many `alloc_zeroed` calls as the trace has requests -/
theorem insertT_insertE (fuel : Nat) {r : Rp} {e : Nat} {d d1 : D} {res : Rp × Bool} {t : Tr}
    (h : insertT c fresh g fuel r e d = .ok ((res, t), d1)) :
    ∃ evs, insertE c fresh g fuel r e d = .ok ((res, evs), d1) ∧ t.length = nAlloc evs := by
  have L := insert_link c fresh g fuel
  have hi := L.pT.ok h
  have hl := L.link r e d
  have hp := L.pE r e d
  rw [hi] at hp
  cases hE : insertE c fresh g fuel r e d with
  | error y => rw [hE] at hp; cases hp
  | ok q =>
    obtain ⟨⟨res', evs⟩, d2⟩ := q
    rw [hE] at hp
    simp only [dropEv2, Except.ok.injEq, Prod.mk.injEq] at hp
    obtain ⟨rfl, rfl⟩ := hp
    rw [h, hE] at hl
    exact ⟨evs, rfl, hl⟩

end step
end SC

#print axioms SC.insert_link
