import Lean
import TinysetModel.Model.Set
/-! `Array.qsort` (core, Lean 4.33) sorts: the result is ordered and has the same members.
Core ships no lemmas about `qsort`; its helper functions are private to their module, so two tiny
term elaborators give access to the private constants and their unfolding equations. -/
namespace QS

open Lean Elab Term Meta in
/-- the private constant `n` of module `m` -/
elab "privConst% " m:ident n:ident : term => do
  let c := mkPrivateNameCore m.getId n.getId
  unless (← getEnv).contains c do throwError "unknown private constant {c}"
  mkConstWithFreshMVarLevels c

open Lean Elab Term Meta in
/-- the unfolding equation of the private constant `n` of module `m` -/
elab "privUnfold% " m:ident n:ident : term => do
  let c := mkPrivateNameCore m.getId n.getId
  let some e ← getUnfoldEqnFor? c (nonRec := true) | throwError "no unfolding equation for {c}"
  mkConstWithFreshMVarLevels e

abbrev ltN : Nat → Nat → Bool := fun a b => decide (a < b)

variable {n : Nat}

/-- `Array.qsort.sort` at `Nat`, `<` -/
def sort (as : Vector Nat n) (lo hi : Nat) (w : lo ≤ hi) (hlo : lo < n) (hhi : hi < n) : Vector Nat n :=
  (privConst% Init.Data.Array.QSort.Basic Array.qsort.sort) ltN as lo hi w hlo hhi

/-- `Array.qpartition.loop` at `Nat`, `<` -/
def loop (lo hi : Nat) (hhi : hi < n) (pivot : Nat) (as : Vector Nat n) (i k : Nat)
    (ilo : lo ≤ i) (ik : i ≤ k) (w : k ≤ hi) : {m : Nat // lo ≤ m ∧ m ≤ hi} × Vector Nat n :=
  (privConst% Init.Data.Array.QSort.Basic Array.qpartition.loop) ltN lo hi hhi pivot as i k ilo ik w

theorem sort_eq (as : Vector Nat n) (lo hi : Nat) (w : lo ≤ hi) (hlo : lo < n) (hhi : hi < n) :
    sort as lo hi w hlo hhi =
      if h₁ : lo < hi then
        match Array.qpartition as ltN lo hi w hlo hhi with
        | (⟨mid, hmid⟩, as) =>
          if h₂ : mid ≥ hi then as
          else sort (sort as lo mid (by omega) hlo (by omega)) (mid + 1) hi (by omega) (by omega) hhi
      else as := by
  unfold sort
  rw [privUnfold% Init.Data.Array.QSort.Basic Array.qsort.sort]

theorem loop_eq (lo hi : Nat) (hhi : hi < n) (pivot : Nat) (as : Vector Nat n) (i k : Nat)
    (ilo : lo ≤ i) (ik : i ≤ k) (w : k ≤ hi) :
    loop lo hi hhi pivot as i k ilo ik w =
      if h : k < hi then
        if as[k] < pivot then loop lo hi hhi pivot (as.swap i k) (i + 1) (k + 1) (by omega) (by omega) (by omega)
        else loop lo hi hhi pivot as i (k + 1) ilo (by omega) (by omega)
      else (⟨i, ilo, by omega⟩, as.swap i hi) := by
  unfold loop
  rw [privUnfold% Init.Data.Array.QSort.Basic Array.qpartition.loop]
  simp only [ltN, decide_eq_true_eq]

theorem qpartition_eq (as : Vector Nat n) (lo hi : Nat) (w : lo ≤ hi) (hlo : lo < n) (hhi : hi < n)
    (mid : Nat) (hmid : mid = (lo + hi) / 2) :
    Array.qpartition as ltN lo hi w hlo hhi =
      (let as1 := if as[mid] < as[lo] then as.swap lo mid else as
       let as2 := if as1[hi] < as1[lo] then as1.swap lo hi else as1
       let as3 := if as2[mid] < as2[hi] then as2.swap mid hi else as2
       loop lo hi hhi as3[hi] as3 lo lo (Nat.le_refl _) (Nat.le_refl _) w) := by
  subst hmid
  unfold Array.qpartition loop
  simp only [ltN, decide_eq_true_eq]

/-! ### permutations confined to a range -/

/-- `as'` is a rearrangement of `as` inside positions `lo..hi` and agrees with it outside -/
structure Conf (lo hi : Nat) (as as' : Vector Nat n) : Prop where
  out : ∀ j (hj : j < n), (j < lo ∨ hi < j) → as'[j] = as[j]
  fwd : ∀ j (hj : j < n), lo ≤ j → j ≤ hi → ∃ j', ∃ (hj' : j' < n), lo ≤ j' ∧ j' ≤ hi ∧ as'[j] = as[j']
  bwd : ∀ j (hj : j < n), lo ≤ j → j ≤ hi → ∃ j', ∃ (hj' : j' < n), lo ≤ j' ∧ j' ≤ hi ∧ as[j] = as'[j']

theorem Conf.refl (lo hi : Nat) (as : Vector Nat n) : Conf lo hi as as :=
  ⟨fun _ _ _ => rfl, fun j hj h1 h2 => ⟨j, hj, h1, h2, rfl⟩, fun j hj h1 h2 => ⟨j, hj, h1, h2, rfl⟩⟩

theorem Conf.trans {lo hi : Nat} {a b c : Vector Nat n} (h1 : Conf lo hi a b) (h2 : Conf lo hi b c) :
    Conf lo hi a c := by
  refine ⟨fun j hj ho => by rw [h2.out j hj ho, h1.out j hj ho], fun j hj l1 l2 => ?_, fun j hj l1 l2 => ?_⟩
  · obtain ⟨j1, hj1, a1, a2, e1⟩ := h2.fwd j hj l1 l2
    obtain ⟨j2, hj2, b1, b2, e2⟩ := h1.fwd j1 hj1 a1 a2
    exact ⟨j2, hj2, b1, b2, by rw [e1, e2]⟩
  · obtain ⟨j1, hj1, a1, a2, e1⟩ := h1.bwd j hj l1 l2
    obtain ⟨j2, hj2, b1, b2, e2⟩ := h2.bwd j1 hj1 a1 a2
    exact ⟨j2, hj2, b1, b2, by rw [e1, e2]⟩

theorem Conf.mono {lo hi lo' hi' : Nat} {a b : Vector Nat n} (h : Conf lo hi a b) (hl : lo' ≤ lo) (hh : hi ≤ hi') :
    Conf lo' hi' a b := by
  refine ⟨fun j hj ho => h.out j hj (by omega), fun j hj l1 l2 => ?_, fun j hj l1 l2 => ?_⟩
  · by_cases hin : lo ≤ j ∧ j ≤ hi
    · obtain ⟨j1, hj1, a1, a2, e1⟩ := h.fwd j hj hin.1 hin.2
      exact ⟨j1, hj1, by omega, by omega, e1⟩
    · exact ⟨j, hj, l1, l2, h.out j hj (by omega)⟩
  · by_cases hin : lo ≤ j ∧ j ≤ hi
    · obtain ⟨j1, hj1, a1, a2, e1⟩ := h.bwd j hj hin.1 hin.2
      exact ⟨j1, hj1, by omega, by omega, e1⟩
    · exact ⟨j, hj, l1, l2, (h.out j hj (by omega)).symm⟩

theorem Conf.swap {lo hi : Nat} (as : Vector Nat n) {i k : Nat} (hi' : i < n) (hk : k < n)
    (h1 : lo ≤ i) (h2 : i ≤ hi) (h3 : lo ≤ k) (h4 : k ≤ hi) : Conf lo hi as (as.swap i k hi' hk) := by
  refine ⟨fun j hj ho => ?_, fun j hj l1 l2 => ?_, fun j hj l1 l2 => ?_⟩
  · rw [Vector.getElem_swap, if_neg (by omega), if_neg (by omega)]
  · rw [Vector.getElem_swap]
    by_cases e1 : j = i
    · rw [if_pos e1]; exact ⟨k, hk, h3, h4, rfl⟩
    · rw [if_neg e1]
      by_cases e2 : j = k
      · rw [if_pos e2]; exact ⟨i, hi', h1, h2, rfl⟩
      · rw [if_neg e2]; exact ⟨j, hj, l1, l2, rfl⟩
  · by_cases e1 : j = i
    · subst e1
      refine ⟨k, hk, h3, h4, ?_⟩
      rw [Vector.getElem_swap]
      by_cases e : k = j
      · subst e; rw [if_pos rfl]
      · rw [if_neg e, if_pos rfl]
    · by_cases e2 : j = k
      · subst e2
        refine ⟨i, hi', h1, h2, ?_⟩
        rw [Vector.getElem_swap, if_pos rfl]
      · refine ⟨j, hj, l1, l2, ?_⟩
        rw [Vector.getElem_swap, if_neg e1, if_neg e2]

/-- a conditional swap -/
theorem Conf.swapIf {lo hi : Nat} (as : Vector Nat n) (p : Prop) [Decidable p] {i k : Nat} (hi' : i < n) (hk : k < n)
    (h1 : lo ≤ i) (h2 : i ≤ hi) (h3 : lo ≤ k) (h4 : k ≤ hi) :
    Conf lo hi as (if p then as.swap i k hi' hk else as) := by
  split
  · exact Conf.swap as hi' hk h1 h2 h3 h4
  · exact Conf.refl _ _ _

/-! ### the partition loop -/

theorem loop_final (lo hi : Nat) (hhi : hi < n) (pivot mid0 : Nat) (hmid : mid0 < hi)
    (as : Vector Nat n) (i k : Nat) (ilo : lo ≤ i) (ik : i ≤ k) (w : k ≤ hi) (hk : hi ≤ k)
    (H1 : ∀ j (hj : j < n), lo ≤ j → j < i → as[j] < pivot)
    (H2 : ∀ j (hj : j < n), i ≤ j → j < k → pivot ≤ as[j])
    (H3 : as[hi] = pivot) (M2 : mid0 < k → i < k)
    (m : {m : Nat // lo ≤ m ∧ m ≤ hi}) (as' : Vector Nat n)
    (h : loop lo hi hhi pivot as i k ilo ik w = (m, as')) :
      Conf lo hi as as' ∧ m.1 < hi ∧ (∃ hm : m.1 < n, as'[m.1] = pivot) ∧
      (∀ j (hj : j < n), lo ≤ j → j < m.1 → as'[j] < pivot) ∧
      (∀ j (hj : j < n), m.1 < j → j ≤ hi → pivot ≤ as'[j]) := by
  have hk : k = hi := by omega
  subst hk
  rw [loop_eq, dif_neg (by omega)] at h
  obtain ⟨mv, mp⟩ := m
  obtain ⟨hm, has⟩ := Prod.mk.inj h
  have hm := Subtype.mk.inj hm
  subst hm
  subst has
  have hik : i < k := M2 hmid
  refine ⟨Conf.swap as _ _ ilo ik (by omega) (Nat.le_refl _), hik, ⟨by show i < n; omega, ?_⟩,
    fun j hj l1 l2 => ?_, fun j hj l1 l2 => ?_⟩
  · show (as.swap i k _ _)[i] = pivot
    rw [Vector.getElem_swap, if_pos rfl]; exact H3
  · show (as.swap i k _ _)[j] < pivot
    have l2 : j < i := l2
    rw [Vector.getElem_swap, if_neg (by omega), if_neg (by omega)]
    exact H1 j hj l1 l2
  · show pivot ≤ (as.swap i k _ _)[j]
    have l1 : i < j := l1
    rw [Vector.getElem_swap, if_neg (by omega)]
    by_cases e : j = k
    · rw [if_pos e]; exact H2 i (by omega) (Nat.le_refl _) hik
    · rw [if_neg e]; exact H2 j hj (by omega) (by omega)

theorem loop_spec (lo hi : Nat) (hhi : hi < n) (pivot mid0 : Nat) (hmid : mid0 < hi) :
    ∀ (fuel : Nat) (as : Vector Nat n) (i k : Nat) (ilo : lo ≤ i) (ik : i ≤ k) (w : k ≤ hi), hi - k ≤ fuel →
    (∀ j (hj : j < n), lo ≤ j → j < i → as[j] < pivot) →
    (∀ j (hj : j < n), i ≤ j → j < k → pivot ≤ as[j]) →
    as[hi] = pivot →
    (k ≤ mid0 → pivot ≤ as[mid0]) → (mid0 < k → i < k) →
    ∀ m as', loop lo hi hhi pivot as i k ilo ik w = (m, as') →
      Conf lo hi as as' ∧ m.1 < hi ∧ (∃ hm : m.1 < n, as'[m.1] = pivot) ∧
      (∀ j (hj : j < n), lo ≤ j → j < m.1 → as'[j] < pivot) ∧
      (∀ j (hj : j < n), m.1 < j → j ≤ hi → pivot ≤ as'[j]) := by
  intro fuel
  induction fuel with
  | zero =>
    intro as i k ilo ik w hf H1 H2 H3 M1 M2 m as' h
    exact loop_final lo hi hhi pivot mid0 hmid as i k ilo ik w (by omega) H1 H2 H3 M2 m as' h
  | succ fuel ih =>
    intro as i k ilo ik w hf H1 H2 H3 M1 M2 m as' h
    by_cases hk : k < hi
    · rw [loop_eq, dif_pos hk] at h
      by_cases hlt : as[k] < pivot
      · rw [if_pos hlt] at h
        have hkm : k ≠ mid0 := by
          intro e; subst e
          have := M1 (Nat.le_refl _); omega
        obtain ⟨c1, c2, c3, c4, c5⟩ := ih (as.swap i k) (i + 1) (k + 1) (by omega) (by omega) (by omega) (by omega)
          (fun j hj l1 l2 => by
            rw [Vector.getElem_swap]
            by_cases e : j = i
            · rw [if_pos e]; exact hlt
            · rw [if_neg e, if_neg (by omega)]; exact H1 j hj l1 (by omega))
          (fun j hj l1 l2 => by
            rw [Vector.getElem_swap, if_neg (by omega)]
            by_cases e : j = k
            · rw [if_pos e]; exact H2 i (by omega) (Nat.le_refl _) (by omega)
            · rw [if_neg e]; exact H2 j hj (by omega) (by omega))
          (by rw [Vector.getElem_swap, if_neg (by omega), if_neg (by omega)]; exact H3)
          (fun l => by
            rw [Vector.getElem_swap, if_neg (by omega), if_neg (by omega)]; exact M1 (by omega))
          (fun l => by
            have : mid0 < k := by omega
            have := M2 this; omega)
          m as' h
        exact ⟨(Conf.swap as _ _ ilo (by omega) (by omega) (by omega)).trans c1, c2, c3, c4, c5⟩
      · rw [if_neg hlt] at h
        exact ih as i (k + 1) ilo (by omega) (by omega) (by omega) H1
          (fun j hj l1 l2 => by
            by_cases e : j = k
            · subst e; omega
            · exact H2 j hj l1 (by omega))
          H3 (fun l => M1 (by omega)) (fun l => by omega) m as' h
    · exact loop_final lo hi hhi pivot mid0 hmid as i k ilo ik w (by omega) H1 H2 H3 M2 m as' h

/-! ### `qpartition` -/

theorem qpartition_spec (as : Vector Nat n) (lo hi : Nat) (w : lo ≤ hi) (hlo : lo < n) (hhi : hi < n) (hlt : lo < hi)
    (m : {m : Nat // lo ≤ m ∧ m ≤ hi}) (as' : Vector Nat n)
    (h : Array.qpartition as ltN lo hi w hlo hhi = (m, as')) :
    Conf lo hi as as' ∧ m.1 < hi ∧ ∃ hm : m.1 < n,
      (∀ j (hj : j < n), lo ≤ j → j < m.1 → as'[j] < as'[m.1]) ∧
      (∀ j (hj : j < n), m.1 < j → j ≤ hi → as'[m.1] ≤ as'[j]) := by
  obtain ⟨mid, hmid0⟩ : ∃ mid, mid = (lo + hi) / 2 := ⟨_, rfl⟩
  rw [qpartition_eq as lo hi w hlo hhi mid hmid0] at h
  have hmid : mid < n := by omega
  have hm1 : lo ≤ mid := by omega
  have hm2 : mid < hi := by omega
  dsimp only at h
  have c1 : Conf lo hi as (if as[mid] < as[lo] then as.swap lo mid else as) :=
    Conf.swapIf as _ _ _ (Nat.le_refl _) w hm1 (by omega)
  generalize (if as[mid] < as[lo] then as.swap lo mid else as) = as1 at h c1
  have c2 : Conf lo hi as1 (if as1[hi] < as1[lo] then as1.swap lo hi else as1) :=
    Conf.swapIf as1 _ _ _ (Nat.le_refl _) w w (Nat.le_refl _)
  generalize (if as1[hi] < as1[lo] then as1.swap lo hi else as1) = as2 at h c2
  have c3 : Conf lo hi as2 (if as2[mid] < as2[hi] then as2.swap mid hi else as2) :=
    Conf.swapIf as2 _ _ _ hm1 (by omega) w (Nat.le_refl _)
  have hp : (if as2[mid] < as2[hi] then as2.swap mid hi else as2)[hi] ≤
      (if as2[mid] < as2[hi] then as2.swap mid hi else as2)[mid] := by
    by_cases hc : as2[mid] < as2[hi]
    · simp only [if_pos hc]
      rw [Vector.getElem_swap, Vector.getElem_swap, if_neg (by omega), if_pos rfl, if_pos rfl]
      omega
    · simp only [if_neg hc]
      omega
  generalize (if as2[mid] < as2[hi] then as2.swap mid hi else as2) = as3 at h c3 hp
  obtain ⟨l1, l2, ⟨hm, l3⟩, l4, l5⟩ := loop_spec lo hi hhi as3[hi] mid hm2 (hi - lo) as3 lo lo (Nat.le_refl _) (Nat.le_refl _) w
    (Nat.le_refl _) (fun j hj a b => by omega) (fun j hj a b => by omega) rfl (fun _ => hp) (fun a => by omega) m as' h
  refine ⟨(c1.trans c2).trans (c3.trans l1), l2, hm, ?_, ?_⟩
  · rw [l3]; exact l4
  · rw [l3]; exact l5

/-! ### `sort` -/

def SortedOn (as : Vector Nat n) (lo hi : Nat) : Prop :=
  ∀ i j (hi' : i < n) (hj : j < n), lo ≤ i → i ≤ j → j ≤ hi → as[i] ≤ as[j]

theorem sort_spec : ∀ (fuel : Nat) (as : Vector Nat n) (lo hi : Nat) (w : lo ≤ hi) (hlo : lo < n) (hhi : hi < n),
    hi - lo ≤ fuel → Conf lo hi as (sort as lo hi w hlo hhi) ∧ SortedOn (sort as lo hi w hlo hhi) lo hi := by
  intro fuel
  induction fuel with
  | zero =>
    intro as lo hi w hlo hhi hf
    rw [sort_eq, dif_neg (by omega)]
    refine ⟨Conf.refl _ _ _, fun i j hi' hj a b c => ?_⟩
    have : i = j := by omega
    subst this; exact Nat.le_refl _
  | succ fuel ih =>
    intro as lo hi w hlo hhi hf
    by_cases hlt : lo < hi
    · rw [sort_eq, dif_pos hlt]
      cases hq : Array.qpartition as ltN lo hi w hlo hhi with
      | mk m as1 =>
        obtain ⟨mid, hmid⟩ := m
        obtain ⟨p1, p2, hm, p3, p4⟩ := qpartition_spec as lo hi w hlo hhi hlt _ _ hq
        have p2 : mid < hi := p2
        have p3 : ∀ j (hj : j < n), lo ≤ j → j < mid → as1[j] < as1[mid] := p3
        have p4 : ∀ j (hj : j < n), mid < j → j ≤ hi → as1[mid] ≤ as1[j] := p4
        dsimp only
        rw [dif_neg (by omega)]
        obtain ⟨s1, s2⟩ := ih as1 lo mid (by omega) hlo (by omega) (by omega)
        generalize sort as1 lo mid (by omega) hlo (by omega) = as2 at s1 s2
        obtain ⟨t1, t2⟩ := ih as2 (mid + 1) hi (by omega) (by omega) hhi (by omega)
        generalize sort as2 (mid + 1) hi (by omega) (by omega) hhi = as3 at t1 t2
        refine ⟨p1.trans ((s1.mono (Nat.le_refl _) (by omega)).trans (t1.mono (by omega) (Nat.le_refl _))), ?_⟩
        intro i j hi' hj a b c
        by_cases hjm : j ≤ mid
        · -- both in the left part, untouched by the second call
          rw [t1.out i hi' (by omega), t1.out j hj (by omega)]
          exact s2 i j hi' hj a b hjm
        · by_cases him : mid < i
          · exact t2 i j hi' hj (by omega) b c
          · -- `i` on the left, `j` on the right: compare through the pivot
            rw [t1.out i hi' (by omega)]
            obtain ⟨j1, hj1, a1, a2, e1⟩ := t1.fwd j hj (by omega) c
            rw [e1, s1.out j1 hj1 (by omega)]
            obtain ⟨i1, hi1, b1, b2, e2⟩ := s1.fwd i hi' a (by omega)
            rw [e2]
            have r1 := p4 j1 hj1 (by omega) a2
            by_cases e : i1 = mid
            · subst e; exact r1
            · have := p3 i1 hi1 b1 (by omega); omega
    · rw [sort_eq, dif_neg hlt]
      refine ⟨Conf.refl _ _ _, fun i j hi' hj a b c => ?_⟩
      have : i = j := by omega
      subst this; exact Nat.le_refl _

/-! ### the whole array -/

theorem sort_full (v : Vector Nat n) (lo hi : Nat) (w : lo ≤ hi) (hlo : lo < n) (hhi : hi < n)
    (h0 : lo = 0) (h1 : hi = n - 1) :
    (sort v lo hi w hlo hhi).toList.Pairwise (· ≤ ·) ∧ ∀ x, x ∈ (sort v lo hi w hlo hhi).toList ↔ x ∈ v.toList := by
  obtain ⟨c, s⟩ := sort_spec (hi - lo) v lo hi w hlo hhi (Nat.le_refl _)
  generalize sort v lo hi w hlo hhi = v' at c s
  constructor
  · rw [List.pairwise_iff_getElem]
    intro i j hi' hj hij
    have e1 : v'.toList.length = n := Vector.length_toList
    rw [Vector.getElem_toList, Vector.getElem_toList]
    exact s i j (by omega) (by omega) (by omega) (by omega) (by omega)
  · intro x
    rw [List.mem_iff_getElem, List.mem_iff_getElem]
    constructor
    · rintro ⟨i, hi', e⟩
      have e1 : v'.toList.length = n := Vector.length_toList
      rw [Vector.getElem_toList] at e
      obtain ⟨j, hj, _, _, e2⟩ := c.fwd i (by omega) (by omega) (by omega)
      refine ⟨j, by rw [Vector.length_toList]; exact hj, ?_⟩
      rw [Vector.getElem_toList, ← e2, e]
    · rintro ⟨i, hi', e⟩
      have e1 : v.toList.length = n := Vector.length_toList
      rw [Vector.getElem_toList] at e
      obtain ⟨j, hj, _, _, e2⟩ := c.bwd i (by omega) (by omega) (by omega)
      refine ⟨j, by rw [Vector.length_toList]; exact hj, ?_⟩
      rw [Vector.getElem_toList, ← e2, e]

/-- `Array.qsort` with `<` on `Nat`: the result is ordered and has the same members -/
theorem qsort_spec (as : Array Nat) :
    (as.qsort (fun a b => decide (a < b))).toList.Pairwise (· ≤ ·) ∧
    ∀ x, x ∈ (as.qsort (fun a b => decide (a < b))).toList ↔ x ∈ as.toList := by
  unfold Array.qsort
  by_cases h : as.size = 0
  · rw [dif_pos h]
    have : as = #[] := Array.eq_empty_of_size_eq_zero h
    subst this
    exact ⟨List.Pairwise.nil, fun _ => Iff.rfl⟩
  · rw [dif_neg h]
    dsimp only
    have := sort_full as.toVector (min 0 (as.size - 1)) (max (min 0 (as.size - 1)) (min (as.size - 1) (as.size - 1)))
      (by omega) (by omega) (by omega) (by omega) (by omega)
    rw [Vector.toList_toArray]
    exact this

end QS

namespace SC

theorem eraseDups_sorted : ∀ (k : Nat) (l : List Nat), l.length ≤ k → l.Pairwise (· ≤ ·) → l.eraseDups.Pairwise (· < ·)
  | _, [], _, _ => by simp
  | 0, _ :: _, h, _ => by simp at h
  | k + 1, a :: as, h, hp => by
    rw [List.eraseDups_cons]
    rw [List.pairwise_cons] at hp
    have hlen : (as.filter fun b => !b == a).length ≤ k := by
      have := List.length_filter_le (fun b => !b == a) as
      simp only [List.length_cons] at h
      omega
    refine List.Pairwise.cons ?_ (eraseDups_sorted k _ hlen (hp.2.filter _))
    intro x hx
    rw [List.mem_eraseDups, List.mem_filter] at hx
    have h1 := hp.1 x hx.1
    have h2 : x ≠ a := by simpa using hx.2
    omega

/-- `sortDedup` returns the members of its argument in strictly increasing order -/
theorem sortDedup_spec (l : List Nat) : (sortDedup l).Pairwise (· < ·) ∧ ∀ x, x ∈ sortDedup l ↔ x ∈ l := by
  unfold sortDedup
  obtain ⟨h1, h2⟩ := QS.qsort_spec l.toArray
  refine ⟨eraseDups_sorted _ _ (Nat.le_refl _) h1, fun x => ?_⟩
  rw [List.mem_eraseDups, h2]

#print axioms sortDedup_spec
end SC
