import TinysetModel.Proofs.Refine
import TinysetModel.Proofs.TotalCab
/-! Totality of `insert`, part 2: the non-growing steps.  Under `WF` and a room hypothesis each of the three
layout inserts returns `.ok` without calling the recursive `insert`, and keeps capacity and layout. -/
namespace SC
open RH Plain2

variable {c : Cfg} {D : Type}

/-! ### room -/

theorem hasRoom_of_zero (hroom : c.roomShift = none) {a : Tbl} {z : Nat} (hz : z < a.size) (hz0 : get a z = 0) :
    hasRoom c a = true := by
  unfold hasRoom
  rw [hroom]
  dsimp only
  rw [List.any_eq_true]
  refine ⟨0, ?_, rfl⟩
  rw [← hz0, get_eq_getElem hz]
  exact List.getElem_mem _

/-- with the `cfg64` room rule, `tablePlace` succeeds for a fresh key as soon as one bucket is empty -/
theorem tablePlace_isSome (hroom : c.roomShift = none) {a : Tbl} {off k w : Nat} (hn : 0 < a.size) (inv : Inv a off)
    (hw : w ≠ 0) (hk : w >>> off = k) (hfresh : ∀ i, i < a.size → get a i ≠ 0 → K a off i ≠ k)
    (hlt : (nz a).length < a.size) : ∃ a', tablePlace c k w off a = some a' := by
  have hspec := tablePlace_spec c hn inv hw hk hfresh
  cases hpl : tablePlace c k w off a with
  | some a' => exact ⟨a', rfl⟩
  | none =>
    rw [hpl] at hspec
    obtain ⟨z, hz, hz0⟩ := exists_zero_of_lt hlt
    rw [hasRoom_of_zero hroom hz hz0] at hspec
    cases hspec

/-! ### dense: the word of the value is inside the block -/

theorem insertDense_inrange (ok : CfgOK c) (g : Rng D) (rec : Ins D) (hrec : RecOK c rec)
    {sz cap : Nat} {a : Tbl} (wf : DenseWF c sz cap a) (e : Nat) (he : e < 2 ^ c.W)
    (hin : e >>> c.dShift < cap) (d : D) :
    ∃ sz' a' b, insertDense c g rec sz cap a e d = .ok ((.heap sz' cap c.W a', b), d) ∧
      InsOK c (.heap sz cap c.W a) e (.heap sz' cap c.W a') b := by
  have heq : insertDense c g rec sz cap a e d =
      .ok ((.heap (if (get a (e >>> c.dShift)).testBit (e % c.W) then sz else sz + 1) cap c.W
        (put a (e >>> c.dShift) (get a (e >>> c.dShift) ||| (1 <<< (e % c.W)))),
        !(get a (e >>> c.dShift)).testBit (e % c.W)), d) := by
    unfold insertDense
    dsimp only
    rw [if_pos hin]
    rfl
  exact ⟨_, _, _, heq, insertDense_ok ok g rec hrec wf e he d d _ _ heq⟩

/-! ### plain: fewer words than slots -/

/-- a value other than the placeholder, with room for one more word -/
theorem insertPlain_ne_room (hroom : c.roomShift = none) (g : Rng D) {sz cap bits : Nat} {a : Tbl}
    (pw : PlainWF bits sz a) (hcap : cap = a.size) (hW : c.W < bits) (hb : bits < 2 ^ c.W)
    (hwords : ∀ x ∈ nz a, x < 2 ^ c.W) (e : Nat) (he : e < 2 ^ c.W) (hne : e ≠ bits) (d : D)
    (hr : e ∉ plainElems bits a → (nz a).length < a.size) :
    ∃ sz' a' b, insertPlain c g sz cap bits a e d = .ok ((.heap sz' cap bits a', b), d) ∧
      InsOK c (.heap sz cap bits a) e (.heap sz' cap bits a') b := by
  have hpl := isPlain_of_gt (c := c) hW
  have hnd := isDense_of_gt (c := c) hW
  have wf : WF c (.heap sz cap bits a) := mkWF_plain pw hcap hW hb hwords
  have he' : enc bits e < 2 ^ c.W := by unfold enc; split <;> assumption
  by_cases hmem : e ∈ plainElems bits a
  · refine ⟨sz, a, false, (insert_plain_nogrow c g pw e hne d).1 hmem, wf, ?_, ?_⟩
    · rw [elems_plain hpl hnd]; simp [hmem]
    · intro x
      rw [elems_plain hpl hnd]
      constructor
      · exact Or.inl
      · rintro (h | h)
        · exact h
        · exact h ▸ hmem
  · have hnot : enc bits e ∉ nz a := by rw [← mem_plainElems pw.ph_ne hne]; exact hmem
    have hfresh := fresh_of_not_mem hnot
    obtain ⟨a', hplace⟩ := tablePlace_isSome hroom (k := enc bits e) (w := enc bits e) pw.npos pw.inv
      (enc_ne_zero pw.ph_ne) Nat.shiftRight_zero hfresh (hr hmem)
    have hspec := tablePlace_spec c (k := enc bits e) (w := enc bits e) pw.npos pw.inv
      (enc_ne_zero pw.ph_ne) Nat.shiftRight_zero hfresh
    rw [hplace] at hspec
    obtain ⟨s1, _, _, s4⟩ := hspec
    obtain ⟨q1, q2, q3⟩ := (insert_plain_nogrow c g pw e hne d).2 hmem a' hplace
    refine ⟨sz + 1, a', true, q1, insOK_of_perm hW hmem q3 (mkWF_plain q2 (by rw [s1]; exact hcap) hW hb ?_)⟩
    intro x hx
    rcases List.mem_cons.1 ((s4.mem_iff).1 hx) with h | h
    · rw [h]; exact he'
    · exact hwords x h

/-- `insertPlain` with room: succeeds, the capacity is unchanged, the result is a plain table -/
theorem insertPlain_room (hroom : c.roomShift = none) (g : Rng D) {sz cap bits : Nat} {a : Tbl}
    (wf : WF c (.heap sz cap bits a)) (hpl : isPlain c bits = true) (hnd : isDense c bits = false)
    (e : Nat) (he : e < 2 ^ c.W) (d : D) (hsmall : cap + c.W + 3 ≤ 2 ^ c.W)
    (hr : e ∉ elems c (.heap sz cap bits a) → sz < cap) :
    ∃ sz' bits' a' b d', insertPlain c g sz cap bits a e d = .ok ((.heap sz' cap bits' a', b), d') ∧
      InsOK c (.heap sz cap bits a) e (.heap sz' cap bits' a') b ∧ c.W < bits' ∧ bits' < 2 ^ c.W := by
  obtain ⟨pw, hcap, hW, hw, hbits⟩ := plain_unfold wf hpl hnd
  rw [elems_plain hpl hnd] at hr
  by_cases hne : e = bits
  · subst hne
    have hl : (premove e a 0).2.toList.length = (premove e a 0).2.size := Array.length_toList
    obtain ⟨i, hi, _⟩ := scanUp_terminates c (premove e a 0).2.toList e (modW c (g.draw d cap e).1)
      (modW_lt _) (by rw [hl, premove_size, ← hcap]; exact hsmall)
    rw [hl] at hi
    obtain ⟨a2, hrp, pw2, s2, hWi, hilt, hie, hw2, hperm⟩ := repick_spec g pw hw d hi
    obtain ⟨sz', a', b, hins, ok⟩ :=
      insertPlain_ne_room hroom g pw2 (hcap.trans s2.symm) hWi hilt hw2 e he (Ne.symm hie) (g.draw d cap e).2
        (by
          intro _
          rw [← pw2.szc, s2, ← hcap]
          exact hr (ph_not_mem pw.ph_ne))
    refine ⟨sz', i, a', b, (g.draw d cap e).2, ?_, ⟨ok.wf, ?_, ?_⟩, hWi, hilt⟩
    · rw [insertPlain_of_repick g hrp, ← insertPlain_of_ne g (Ne.symm hie)]; exact hins
    · rw [ok.ret, elems_plain (isPlain_of_gt hWi) (isDense_of_gt hWi),
        elems_plain (isPlain_of_gt hW) (isDense_of_gt hW), hperm.mem_iff]
    · intro x
      rw [ok.mem x, elems_plain (isPlain_of_gt hWi) (isDense_of_gt hWi),
        elems_plain (isPlain_of_gt hW) (isDense_of_gt hW), hperm.mem_iff]
  · obtain ⟨sz', a', b, hins, ok⟩ := insertPlain_ne_room hroom g pw hcap hW hbits hw e he hne d
      (by intro h; rw [← pw.szc, ← hcap]; exact hr h)
    exact ⟨sz', bits, a', b, d, hins, ok, hW, hbits⟩

/-! ### bitmap: fewer buckets than slots -/

/-- every occupied bucket of a well-formed bitmap table holds a member -/
theorem bucket_has_member {sz cap bits : Nat} {a : Tbl} (hb : isDense c bits = false) (hp : isPlain c bits = false)
    (wf : BitmapWF c sz cap bits a) {w : Nat} (hw : w ∈ nz a) :
    ∃ x, x ∈ elems c (.heap sz cap bits a) ∧ x / bits = w >>> bits := by
  obtain ⟨h0, i, hi, hg⟩ := mem_nz.1 hw
  have hlow := (wf.bucket i hi (by rw [hg]; exact h0)).1
  rw [hg] at hlow
  obtain ⟨j, hj⟩ := Nat.exists_testBit_of_ne_zero hlow
  rw [Nat.testBit_mod_two_pow] at hj
  simp only [Bool.and_eq_true, decide_eq_true_eq] at hj
  obtain ⟨h1, h2⟩ := (split_unique (e := (w >>> bits) * bits + j) wf.bits_pos hj.1).1 rfl
  refine ⟨(w >>> bits) * bits + j, ?_, h1.symm⟩
  rw [mem_elems_nz hb hp wf.bits_pos]
  exact ⟨w, hw, h1, by rw [← h2]; exact hj.2⟩

/-- counting buckets: if all member keys lie in a duplicate-free list `KL` that also contains a key `k`
    absent from the table, the table holds fewer than `KL.length` buckets -/
theorem buckets_lt {sz cap bits : Nat} {a : Tbl} (hb : isDense c bits = false) (hp : isPlain c bits = false)
    (wf : BitmapWF c sz cap bits a) {KL : List Nat} (hnd : KL.Nodup)
    (hsub : ∀ x ∈ elems c (.heap sz cap bits a), x / bits ∈ KL) {k : Nat} (hk : k ∈ KL)
    (hfresh : ∀ i, i < a.size → get a i ≠ 0 → K a bits i ≠ k) : (nz a).length < KL.length := by
  have h1 : ((nz a).map (· >>> bits)).Nodup := inv_nodup wf.inv
  have h2 : (nz a).map (· >>> bits) ⊆ KL.erase k := by
    intro q hq
    obtain ⟨w, hw, rfl⟩ := List.mem_map.1 hq
    obtain ⟨x, hx, hxk⟩ := bucket_has_member hb hp wf hw
    have hne : w >>> bits ≠ k := by
      obtain ⟨_, i, hi, hg⟩ := mem_nz.1 hw
      have := hfresh i hi (by rw [hg]; exact (mem_nz.1 hw).1)
      unfold K at this
      rw [hg] at this
      exact this
    rw [(List.Nodup.mem_erase_iff hnd)]
    exact ⟨hne, by rw [← hxk]; exact hsub x hx⟩
  have h3 := h1.length_le_of_subset h2
  rw [List.length_map, List.length_erase_of_mem hk] at h3
  have : 0 < KL.length := List.length_pos_of_mem hk
  omega

/-- `insertBitmap` with room: succeeds without rebuilding; capacity and width are unchanged -/
theorem insertBitmap_room (hroom : c.roomShift = none) (ok : CfgOK c) (g : Rng D) (rec : Ins D)
    {sz cap bits : Nat} {a : Tbl} (hb : isDense c bits = false) (hp : isPlain c bits = false)
    (wf : BitmapWF c sz cap bits a) (e : Nat) (he : e < 2 ^ c.W) (hfit : ¬ c.cab e < bits)
    {KL : List Nat} (hnd : KL.Nodup) (hlen : KL.length ≤ cap)
    (hsub : ∀ x ∈ elems c (.heap sz cap bits a), x / bits ∈ KL) (hk : e / bits ∈ KL) (d : D) :
    ∃ sz' a' b, insertBitmap c g rec sz cap bits a e d = .ok ((.heap sz' cap bits a', b), d) ∧
      InsOK c (.heap sz cap bits a) e (.heap sz' cap bits a') b := by
  rcases lookfor_cases wf.inv wf.npos (e / bits) with ⟨idx, hl, _, _, _⟩ | ⟨hnf, hfresh⟩
  · by_cases hbit : (get a idx).testBit (e % bits) = true
    · exact ⟨_, _, _, insertBitmap_found_set g rec hb hp wf e hfit hl hbit d⟩
    · exact ⟨_, _, _, insertBitmap_found_clear g rec hb hp wf e he hfit hl hbit d⟩
  · have hpos := wf.bits_pos
    have hoff : e % bits < bits := Nat.mod_lt _ hpos
    obtain ⟨hm, hkW⟩ := newword_facts ok hpos wf.bits_lt e he hfit
    have hbitlt : 1 <<< (e % bits) < 2 ^ bits := by
      rw [Nat.shiftLeft_eq, Nat.one_mul]; exact Nat.pow_lt_pow_right (by omega) hoff
    have hvk : (modW c ((e / bits) <<< bits) ||| (1 <<< (e % bits))) >>> bits = e / bits := by
      rw [hm]; exact key_of_word hbitlt
    have hv0 : modW c ((e / bits) <<< bits) ||| (1 <<< (e % bits)) ≠ 0 := by
      apply ne_zero_of_testBit (off := e % bits)
      rw [testBit_or_bit]; simp
    have hlt : (nz a).length < a.size := by
      have := buckets_lt hb hp wf hnd hsub hk hfresh
      have := wf.cap_eq
      omega
    obtain ⟨a', hpl⟩ := tablePlace_isSome hroom wf.npos wf.inv hv0 hvk hfresh hlt
    exact ⟨_, _, _, insertBitmap_place g rec hb hp ok wf e he hfit hnf hpl d⟩

#print axioms insertDense_inrange
#print axioms insertPlain_room
#print axioms insertBitmap_room
end SC
