import TinysetModel.Proofs.ContainsSrc
import TinysetModel.Proofs.CfgInst
import TinysetModel.Model.Iter
/-! The inline constructor and the inline step of the iterator ARE the current source: `Generated/Loops.lean` holds
`Tiny::new_sorted_deduped` (`setu64.rs`) / `Tiny::new` (`setu32.rs`) — the `zip` loop that packs the gaps into the
word, with its `log_2` width test and early `return None` — and the `Stack` arm of `Inner::next` (`setu64/iter.rs`,
`setu32/iter.rs`), translated on every run; here: they compute the model's `TinyC.newSortedDeduped` and the model's
`next` on an inline set. -/
namespace SC
open TinyC

/-! ### `Inner::next`, the `Stack` arm -/

theorem getElem?_eq_getD_of_lt (l : List Nat) (i : Nat) (h : i < l.length) : l[i]? = some (l.getD i 0) := by
  simp [List.getD, List.getElem?_eq_getElem h]

/-- `setu64/iter.rs`: one step of the iteration over an inline set is the model's `next` (the index into the row of
`BITSPLITS` is in range for every cursor over a well-formed inline set: `sz_left ≤ sz ≤ 7`) -/
theorem iter_next_stack_64_eq (t : T) (k : Cursor)
    (hidx : k.szLeft > 0 → k.sz - k.szLeft < (widths codec64 k.sz).length) :
    next cfg64 (.stack t) k =
      (match Gen.iter_next_stack_64 k.sz k.szLeft k.sbits k.last with
       | (out, szLeft, sbits, last) => .ok (out, { k with szLeft := szLeft, sbits := sbits, last := last })) := by
  simp only [next, Gen.iter_next_stack_64, mask_64_eq, Nat.and_two_pow_sub_one_eq_mod]
  by_cases h0 : k.szLeft > 0
  · have hw : widths cfg64.codec k.sz = List.getD Gen.bitsplits64 k.sz [] := by
      simp only [widths, ← bitsplits64_match]; rfl
    have hi := hidx h0
    simp only [h0, if_true, hw]
    rw [getElem?_eq_getD_of_lt _ _ (by simpa [widths, ← bitsplits64_match] using hi)]
    by_cases he : k.szLeft = k.sz <;> simp [he]
  · simp only [h0, if_false]

/-- `setu32/iter.rs` (the payload lives in the cursor's `stack_bits`; `Some(self.last as u32)`: stated for a cursor
whose next member is a `u32`, as every member of a `SetU32` is) -/
theorem iter_next_stack_32_eq (t : T) (k : Cursor)
    (hidx : k.szLeft > 0 → k.sz - k.szLeft < (widths codec32 k.sz).length)
    (hlt : (if k.szLeft = k.sz then k.sbits % 2 ^ (widths codec32 k.sz).getD (k.sz - k.szLeft) 0
            else k.last + 1 + k.sbits % 2 ^ (widths codec32 k.sz).getD (k.sz - k.szLeft) 0) < 2 ^ 32) :
    next cfg32 (.stack t) k =
      (match Gen.iter_next_stack_32 k.sz k.szLeft k.sbits k.last with
       | (out, szLeft, sbits, last) => .ok (out, { k with szLeft := szLeft, sbits := sbits, last := last })) := by
  simp only [next, Gen.iter_next_stack_32, mask_32_eq, Nat.and_two_pow_sub_one_eq_mod]
  by_cases h0 : k.szLeft > 0
  · have hw : widths cfg32.codec k.sz = List.getD Gen.bitsplits32 k.sz [] := by
      simp only [widths, ← bitsplits32_match]; rfl
    have hw' : widths codec32 k.sz = List.getD Gen.bitsplits32 k.sz [] := hw
    have hi := hidx h0
    simp only [h0, if_true, hw]
    rw [getElem?_eq_getD_of_lt _ _ (by simpa [widths, ← bitsplits32_match] using hi)]
    rw [hw'] at hlt
    generalize (List.getD Gen.bitsplits32 k.sz []).getD (k.sz - k.szLeft) 0 = n at hlt ⊢
    by_cases he : k.szLeft = k.sz
    · simp only [he, if_true] at hlt
      have h1 : k.sbits % 2 ^ n % 4294967296 = k.sbits % 2 ^ n := Nat.mod_eq_of_lt (by omega)
      simp only [he, if_true, h1]
    · simp only [he, if_false] at hlt
      have h1 : (k.last + 1 + k.sbits % 2 ^ n) % 4294967296 = k.last + 1 + k.sbits % 2 ^ n :=
        Nat.mod_eq_of_lt (by omega)
      simp only [he, if_false, h1]
  · simp only [h0, if_false]

theorem widths_len_64 : ∀ n, n ≤ 7 → (widths codec64 n).length = n := by
  intro n h
  have : n = 0 ∨ n = 1 ∨ n = 2 ∨ n = 3 ∨ n = 4 ∨ n = 5 ∨ n = 6 ∨ n = 7 := by omega
  rcases this with h | h | h | h | h | h | h | h <;> subst h <;> rfl
theorem widths_len_32 : ∀ n, n ≤ 6 → (widths codec32 n).length = n := by
  intro n h
  have : n = 0 ∨ n = 1 ∨ n = 2 ∨ n = 3 ∨ n = 4 ∨ n = 5 ∨ n = 6 := by omega
  rcases this with h | h | h | h | h | h | h <;> subst h <;> rfl

/-! ### `Inner::next`, the `Big` arm: the walk along a plain table -/

theorem iter_next_big_loop_64 (a : RH.Tbl) : ∀ (fuel : Nat) (k : Cursor) (out : Option Nat) (k' : Cursor),
    nextBig a fuel k = .ok (out, k') →
    Gen.iter_next_big_64_loop1 a k.bits fuel k.index k.szLeft = (out, k'.index, k'.szLeft) ∧
      k' = { k with index := k'.index, szLeft := k'.szLeft } := by
  intro fuel
  induction fuel with
  | zero =>
    intro k out k' h
    simp only [nextBig, Except.ok.injEq, Prod.mk.injEq] at h
    obtain ⟨rfl, rfl⟩ := h
    exact ⟨rfl, rfl⟩
  | succ f ih =>
    intro k out k' h
    simp only [nextBig] at h
    simp only [Gen.iter_next_big_64_loop1, Gen.RI.idx, ← RH.get.eq_1]
    by_cases hi : k.index < a.size
    · simp only [hi, if_true] at h ⊢
      by_cases hx : RH.get a k.index ≠ 0
      · simp only [hx, ne_eq, not_false_eq_true, if_true, decLeft, bind, Except.bind] at h ⊢
        by_cases hz : k.szLeft = 0
        · simp [hz] at h
        · simp only [hz, if_false, pure, Except.pure, Except.ok.injEq, Prod.mk.injEq] at h
          obtain ⟨rfl, rfl⟩ := h
          exact ⟨rfl, rfl⟩
      · simp only [hx, if_false] at h ⊢
        have := ih { k with index := k.index + 1 } out k' h
        simp only at this
        refine ⟨this.1, ?_⟩
        rw [this.2]
    · simp only [hi, if_false] at h ⊢
      simp only [Except.ok.injEq, Prod.mk.injEq] at h
      obtain ⟨rfl, rfl⟩ := h
      exact ⟨rfl, rfl⟩

/-- `setu64/iter.rs`, plain table: whenever the model's `next` returns (it always does on a well-formed set: C04), the
translated source returns the same member and leaves the same cursor -/
theorem iter_next_big_64_eq (sz cap bits : Nat) (a : RH.Tbl) (hb : bits = 0 ∨ bits > 64) (k : Cursor) (out : Option Nat)
    (k' : Cursor) (h : next cfg64 (.heap sz cap bits a) k = .ok (out, k')) :
    Gen.iter_next_big_64 a k.bits k.index k.szLeft = (out, k'.index, k'.szLeft) ∧
      k' = { k with index := k'.index, szLeft := k'.szLeft } := by
  have h1 : isDense cfg64 bits = false := by simp [isDense, cfg64]; omega
  have h2 : isPlain cfg64 bits = true := by simp [isPlain, cfg64]; omega
  simp only [next, h1, h2, Bool.false_eq_true, if_false, if_true] at h
  exact iter_next_big_loop_64 a _ k out k' h

theorem iter_next_big_loop_32 (a : RH.Tbl) : ∀ (fuel : Nat) (k : Cursor) (out : Option Nat) (k' : Cursor),
    k.bits < 2 ^ 32 → nextBig a fuel k = .ok (out, k') →
    Gen.iter_next_big_32_loop1 a k.bits fuel k.index k.szLeft = (out, k'.index, k'.szLeft) ∧
      k' = { k with index := k'.index, szLeft := k'.szLeft } := by
  intro fuel
  induction fuel with
  | zero =>
    intro k out k' hkb h
    simp only [nextBig, Except.ok.injEq, Prod.mk.injEq] at h
    obtain ⟨rfl, rfl⟩ := h
    exact ⟨rfl, rfl⟩
  | succ f ih =>
    intro k out k' hkb h
    simp only [nextBig] at h
    have hmod : k.bits % 4294967296 = k.bits := Nat.mod_eq_of_lt hkb
    simp only [Gen.iter_next_big_32_loop1, Gen.RI.idx, ← RH.get.eq_1, hmod]
    by_cases hi : k.index < a.size
    · simp only [hi, if_true] at h ⊢
      by_cases hx : RH.get a k.index ≠ 0
      · simp only [hx, ne_eq, not_false_eq_true, if_true, decLeft, bind, Except.bind] at h ⊢
        by_cases hz : k.szLeft = 0
        · simp [hz] at h
        · simp only [hz, if_false, pure, Except.pure, Except.ok.injEq, Prod.mk.injEq] at h
          obtain ⟨rfl, rfl⟩ := h
          exact ⟨rfl, rfl⟩
      · simp only [hx, if_false] at h ⊢
        have := ih { k with index := k.index + 1 } out k' hkb h
        simp only at this
        refine ⟨this.1, ?_⟩
        rw [this.2]
    · simp only [hi, if_false] at h ⊢
      simp only [Except.ok.injEq, Prod.mk.injEq] at h
      obtain ⟨rfl, rfl⟩ := h
      exact ⟨rfl, rfl⟩

/-- `setu32/iter.rs`, plain table: whenever the model's `next` returns (it always does on a well-formed set: C04), the
translated source returns the same member and leaves the same cursor -/
theorem iter_next_big_32_eq (sz cap bits : Nat) (a : RH.Tbl) (hb : bits = 0 ∨ bits > 32) (k : Cursor) (hkb : k.bits < 2 ^ 32)
    (out : Option Nat) (k' : Cursor) (h : next cfg32 (.heap sz cap bits a) k = .ok (out, k')) :
    Gen.iter_next_big_32 a k.bits k.index k.szLeft = (out, k'.index, k'.szLeft) ∧
      k' = { k with index := k'.index, szLeft := k'.szLeft } := by
  have h1 : isDense cfg32 bits = false := by simp [isDense, cfg32]; omega
  have h2 : isPlain cfg32 bits = true := by simp [isPlain, cfg32]; omega
  simp only [next, h1, h2, Bool.false_eq_true, if_false, if_true] at h
  exact iter_next_big_loop_32 a _ k out k' hkb h

/-! ### the inline constructor -/

theorem or_shift_eq_add (bits y off : Nat) (h : bits < 2 ^ off) : bits ||| (y <<< off) = bits + 2 ^ off * y := by
  rw [Nat.or_comm, ← Nat.shiftLeft_add_eq_or_of_lt h, Nat.shiftLeft_eq, Nat.mul_comm]
  omega

theorem tiny_new_loop_64 (sz : Nat) : ∀ (xs ws : List Nat) (last off bits : Nat), 0 < off → bits < 2 ^ off →
    (∀ x ∈ xs, x < 2 ^ 64) →
    Gen.tiny_new_64_loop1 sz xs ws last off bits =
      if fitAll ws (fieldsFrom last xs) then some (sz, bits + 2 ^ off * pack ws (fieldsFrom last xs)) else none := by
  intro xs
  induction xs with
  | nil =>
    intro ws last off bits _ _ _
    cases ws <;> simp [Gen.tiny_new_64_loop1, fieldsFrom, fitAll, pack]
  | cons x rx ih =>
    intro ws last off bits hoff hbits hx
    cases ws with
    | nil => simp [Gen.tiny_new_64_loop1, fitAll, pack]
    | cons w rw =>
      have hoff0 : ¬ off = 0 := by omega
      have hy : x - last - 1 < 2 ^ 64 := by have := hx x (by simp); omega
      simp only [Gen.tiny_new_64_loop1, hoff0, if_false, fieldsFrom, fitAll, pack, log_2_64_eq _ hy]
      by_cases hfit : TinyC.log2 (x - last - 1) ≤ w
      · have hng : ¬ TinyC.log2 (x - last - 1) > w := by omega
        have hylt : x - last - 1 < 2 ^ w := lt_of_log2_le (e := _) (show SC.log2 _ ≤ _ from hfit)
        have hb' : bits + 2 ^ off * (x - last - 1) < 2 ^ (off + w) := by
          rw [Nat.pow_add]
          have h1 : 2 ^ off * (x - last - 1) ≤ 2 ^ off * (2 ^ w - 1) := Nat.mul_le_mul_left _ (by omega)
          have h2 : 2 ^ off * (2 ^ w - 1) = 2 ^ off * 2 ^ w - 2 ^ off := by
            rw [Nat.mul_sub_one]
          have h3 : 2 ^ off ≤ 2 ^ off * 2 ^ w := Nat.le_mul_of_pos_right _ (Nat.two_pow_pos w)
          omega
        simp only [hng, if_false, or_shift_eq_add bits _ off hbits, hfit, decide_true, Bool.true_and]
        rw [ih rw x (off + w) _ (by omega) hb' (fun y hy => hx y (by simp [hy]))]
        have he : bits + 2 ^ off * (x - last - 1) + 2 ^ (off + w) * pack rw (fieldsFrom x rx)
            = bits + 2 ^ off * (x - last - 1 + 2 ^ w * pack rw (fieldsFrom x rx)) := by
          rw [Nat.pow_add, Nat.mul_add, Nat.mul_assoc, Nat.add_assoc]
        rw [he]
      · have hg : TinyC.log2 (x - last - 1) > w := by omega
        simp [hg, hfit]

/-- the rows of the table used by the constructor start with a positive width -/
theorem rows_64_pos : ∀ n, 1 ≤ n → n ≤ 7 → ∃ w rw, List.getD Gen.bitsplits64 n [] = w :: rw ∧ 0 < w := by
  intro n h1 h2
  have : n = 1 ∨ n = 2 ∨ n = 3 ∨ n = 4 ∨ n = 5 ∨ n = 6 ∨ n = 7 := by omega
  rcases this with h | h | h | h | h | h | h <;> subst h <;> first | exact ⟨_, _, rfl, by decide⟩ | omega

/-- `Tiny::new_sorted_deduped` of `setu64.rs` is the model's constructor of the inline word: for every vector of
`u64` values it refuses (`None`) exactly when the model does and otherwise builds the same count and payload -/
theorem tiny_new_64_eq (v : List Nat) (hv : ∀ x ∈ v, x < 2 ^ 64) :
    Gen.tiny_new_64 v = (newSortedDeduped codec64 v).map (fun t => (t.sz, t.bits)) := by
  have hlen : Gen.bitsplits64.length - 1 = 7 := by decide
  simp only [Gen.tiny_new_64, newSortedDeduped, hlen, show codec64.maxN = 7 from rfl]
  by_cases h0 : v.length = 0
  · simp [h0]
  by_cases h7 : v.length > 7
  · simp [h0, h7]
  have hno : ¬ (v.length = 0 ∨ v.length > 7) := by omega
  have hmod : v.length % 256 = v.length := Nat.mod_eq_of_lt (by omega)
  simp only [h0, h7, if_false, hmod]
  obtain ⟨w, rw, hrow, hw⟩ := rows_64_pos v.length (by omega) (by omega)
  have hws : widths codec64 v.length = w :: rw := by simp only [widths, bitsplits64_match]; exact hrow
  rw [hrow, hws]
  cases v with
  | nil => simp at h0
  | cons x rx =>
    have hx : x < 2 ^ 64 := hv x (by simp)
    simp only [Gen.tiny_new_64_loop1, if_true, fields, fitAll, pack, log_2_64_eq _ hx]
    by_cases hfit : TinyC.log2 x ≤ w
    · have hng : ¬ TinyC.log2 x > w := by omega
      have hxlt : x < 2 ^ w := lt_of_log2_le (e := _) (show SC.log2 _ ≤ _ from hfit)
      simp only [hng, if_false, hfit, decide_true, Bool.true_and, Nat.shiftLeft_zero, Nat.zero_or]
      rw [tiny_new_loop_64 _ rx rw x (0 + w) x (by omega) (by simpa using hxlt) (fun y hy => hv y (by simp [hy]))]
      simp only [Nat.zero_add]
      split <;> simp
    · have hg : TinyC.log2 x > w := by omega
      simp [hg, hfit]

theorem tiny_new_loop_32 (sd : List Nat → List Nat) (sz : Nat) : ∀ (xs ws : List Nat) (last off bits : Nat), 0 < off → bits < 2 ^ off →
    (∀ x ∈ xs, x < 2 ^ 32) →
    Gen.tiny_new_32_loop1 sd sz xs ws last off bits =
      if fitAll ws (fieldsFrom last xs) then some (sz, bits + 2 ^ off * pack ws (fieldsFrom last xs)) else none := by
  intro xs
  induction xs with
  | nil =>
    intro ws last off bits _ _ _
    cases ws <;> simp [Gen.tiny_new_32_loop1, fieldsFrom, fitAll, pack]
  | cons x rx ih =>
    intro ws last off bits hoff hbits hx
    cases ws with
    | nil => simp [Gen.tiny_new_32_loop1, fitAll, pack]
    | cons w rw =>
      have hoff0 : ¬ off = 0 := by omega
      have hy : x - last - 1 < 2 ^ 32 := by have := hx x (by simp); omega
      simp only [Gen.tiny_new_32_loop1, hoff0, if_false, fieldsFrom, fitAll, pack, log_2_32_eq _ hy]
      by_cases hfit : TinyC.log2 (x - last - 1) ≤ w
      · have hng : ¬ TinyC.log2 (x - last - 1) > w := by omega
        have hylt : x - last - 1 < 2 ^ w := lt_of_log2_le (e := _) (show SC.log2 _ ≤ _ from hfit)
        have hb' : bits + 2 ^ off * (x - last - 1) < 2 ^ (off + w) := by
          rw [Nat.pow_add]
          have h1 : 2 ^ off * (x - last - 1) ≤ 2 ^ off * (2 ^ w - 1) := Nat.mul_le_mul_left _ (by omega)
          have h2 : 2 ^ off * (2 ^ w - 1) = 2 ^ off * 2 ^ w - 2 ^ off := by
            rw [Nat.mul_sub_one]
          have h3 : 2 ^ off ≤ 2 ^ off * 2 ^ w := Nat.le_mul_of_pos_right _ (Nat.two_pow_pos w)
          omega
        simp only [hng, if_false, or_shift_eq_add bits _ off hbits, hfit, decide_true, Bool.true_and]
        rw [ih rw x (off + w) _ (by omega) hb' (fun y hy => hx y (by simp [hy]))]
        have he : bits + 2 ^ off * (x - last - 1) + 2 ^ (off + w) * pack rw (fieldsFrom x rx)
            = bits + 2 ^ off * (x - last - 1 + 2 ^ w * pack rw (fieldsFrom x rx)) := by
          rw [Nat.pow_add, Nat.mul_add, Nat.mul_assoc, Nat.add_assoc]
        rw [he]
      · have hg : TinyC.log2 (x - last - 1) > w := by omega
        simp [hg, hfit]

/-- the rows of the table used by the constructor start with a positive width -/
theorem rows_32_pos : ∀ n, 1 ≤ n → n ≤ 6 → ∃ w rw, List.getD Gen.bitsplits32 n [] = w :: rw ∧ 0 < w := by
  intro n h1 h2
  have : n = 1 ∨ n = 2 ∨ n = 3 ∨ n = 4 ∨ n = 5 ∨ n = 6 ∨ n = 7 := by omega
  rcases this with h | h | h | h | h | h | h <;> subst h <;> first | exact ⟨_, _, rfl, by decide⟩ | omega

/-- `Tiny::new` of `setu32.rs` (its own `sort` / `dedup` — `std`'s, a parameter here — leave the already sorted
duplicate-free vector it is given by `from_iter` as it is) is the model's constructor of the inline word: for every vector of
`u64` values it refuses (`None`) exactly when the model does and otherwise builds the same count and payload -/
theorem tiny_new_32_eq (v : List Nat) (sd : List Nat → List Nat) (hsd : sd v = v) (hv : ∀ x ∈ v, x < 2 ^ 32) :
    Gen.tiny_new_32 v sd = (newSortedDeduped codec32 v).map (fun t => (t.sz, t.bits)) := by
  have hlen : Gen.bitsplits32.length - 1 = 6 := by decide
  simp only [Gen.tiny_new_32, newSortedDeduped, hlen, show codec32.maxN = 6 from rfl]
  by_cases h0 : v.length = 0
  · simp [h0]
  by_cases h7 : v.length > 6
  · simp [h0, h7]
  have hno : ¬ (v.length = 0 ∨ v.length > 6) := by omega
  have hmod : v.length % 256 = v.length := Nat.mod_eq_of_lt (by omega)
  simp only [h0, h7, if_false, hsd, hmod]
  obtain ⟨w, rw, hrow, hw⟩ := rows_32_pos v.length (by omega) (by omega)
  have hws : widths codec32 v.length = w :: rw := by simp only [widths, bitsplits32_match]; exact hrow
  rw [hrow, hws]
  cases v with
  | nil => simp at h0
  | cons x rx =>
    have hx : x < 2 ^ 32 := hv x (by simp)
    simp only [Gen.tiny_new_32_loop1, if_true, fields, fitAll, pack, log_2_32_eq _ hx]
    by_cases hfit : TinyC.log2 x ≤ w
    · have hng : ¬ TinyC.log2 x > w := by omega
      have hxlt : x < 2 ^ w := lt_of_log2_le (e := _) (show SC.log2 _ ≤ _ from hfit)
      simp only [hng, if_false, hfit, decide_true, Bool.true_and, Nat.shiftLeft_zero, Nat.zero_or]
      rw [tiny_new_loop_32 sd _ rx rw x (0 + w) x (by omega) (by simpa using hxlt) (fun y hy => hv y (by simp [hy]))]
      simp only [Nat.zero_add]
      split <;> simp
    · have hg : TinyC.log2 x > w := by omega
      simp [hg, hfit]


/-- `Tiny::from_singleton` is the constructor at a one-element vector (which is how the model writes it) -/
theorem tiny_from_singleton_64_eq (x : Nat) (hx : x < 2 ^ 64) :
    Gen.tiny_from_singleton_64 x = (newSortedDeduped codec64 [x]).map (fun t => (t.sz, t.bits)) := by
  have hw : List.getD (List.getD Gen.bitsplits64 1 []) 0 0 = 61 := by decide
  have hws : widths codec64 1 = [61] := rfl
  simp only [Gen.tiny_from_singleton_64, newSortedDeduped, hw, log_2_64_eq x hx, List.length_singleton, hws, fields,
    fieldsFrom, fitAll, pack, show codec64.maxN = 7 from rfl]
  by_cases h : TinyC.log2 x ≤ 61
  · have hn : ¬ TinyC.log2 x > 61 := by omega
    simp [hn, h]
  · have hg : TinyC.log2 x > 61 := by omega
    simp [hg, h]
theorem tiny_from_singleton_32_eq (x : Nat) (hx : x < 2 ^ 32) :
    Gen.tiny_from_singleton_32 x = (newSortedDeduped codec32 [x]).map (fun t => (t.sz, t.bits)) := by
  have hw : List.getD (List.getD Gen.bitsplits32 1 []) 0 0 = 31 := by decide
  have hws : widths codec32 1 = [31] := rfl
  simp only [Gen.tiny_from_singleton_32, newSortedDeduped, hw, log_2_32_eq x hx, List.length_singleton, hws, fields,
    fieldsFrom, fitAll, pack, show codec32.maxN = 6 from rfl]
  by_cases h : TinyC.log2 x ≤ 31
  · have hn : ¬ TinyC.log2 x > 31 := by omega
    simp [hn, h]
  · have hg : TinyC.log2 x > 31 := by omega
    simp [hg, h]

end SC
#print axioms SC.iter_next_stack_64_eq
#print axioms SC.iter_next_stack_32_eq
#print axioms SC.iter_next_big_64_eq
#print axioms SC.iter_next_big_32_eq
#print axioms SC.tiny_new_64_eq
#print axioms SC.tiny_from_singleton_64_eq
#print axioms SC.tiny_from_singleton_32_eq
#print axioms SC.tiny_new_32_eq
