import TinysetModel.Model.Alloc
import TinysetModel.Generated.Consts
/-! The constants the hand-written model uses are the ones the translator read off the current
source.  If the source changes one of them, the corresponding theorem stops checking. -/
namespace SC

theorem bitsplits64_match : TinyC.codec64.splits = Gen.bitsplits64 := by decide
theorem bitsplits32_match : TinyC.codec32.splits = Gen.bitsplits32 := by decide

/-- every inline-vs-pointer test of `SetU64` uses the mask 7 (blocks are 8-aligned) -/
theorem tagMasks64_coherent : ∀ p ∈ Gen.tagMasks64, p.2 = 7 := by decide
/-- every inline-vs-pointer test of `SetU32` uses the mask 3 (blocks are only 4-aligned) -/
theorem tagMasks32_coherent : ∀ p ∈ Gen.tagMasks32, p.2 = 3 := by decide
/-- the mask never exceeds what the block alignment guarantees to be zero -/
theorem tagMask_le_align64 : ∀ p ∈ Gen.tagMasks64, p.2 + 1 ≤ Gen.layout64.2.2 := by decide
theorem tagMask_le_align32 : ∀ p ∈ Gen.tagMasks32, p.2 + 1 ≤ Gen.layout32.2.2 := by decide

theorem layout64_match : (headerBytes cfg64, elemBytes cfg64) = (Gen.layout64.1, Gen.layout64.2.1) := by decide
theorem layout32_match : (headerBytes cfg32, elemBytes cfg32) = (Gen.layout32.1, Gen.layout32.2.1) := by decide

/-- the allocator is called directly in exactly the functions the event reading (`Model/Alloc.lean`) accounts
    for — four zeroed requests, one release in `Drop`, one in-place resize in `SetU32` — and nowhere in the
    iterator, wrapper and operator files; no `mem::forget` / `ManuallyDrop` / `Box::from_raw` anywhere -/
theorem allocSites64_match : Gen.allocSites64 = allocSites true := by decide
theorem allocSites32_match : Gen.allocSites32 = allocSites false := by decide
theorem allocSitesOther_none : Gen.allocSitesOther = [] := by decide
/-- the alignment passed to the allocator -/
theorem align_match : (alignBytes cfg64, alignBytes cfg32) = (Gen.layout64.2.2, Gen.layout32.2.2) := by decide

theorem detRng_match (cap bits : Nat) :
    (detRng.draw () cap bits).1 = ((cap * Gen.detMul1) % 2 ^ 64) ^^^ ((bits * Gen.detMul2) % 2 ^ 64) := rfl

theorem splitmix_match (z : Nat) :
    splitmix z =
      (let m := 2 ^ 64
       let z1 := ((z ^^^ (z >>> Gen.smConsts[0]!)) * Gen.smConsts[1]!) % m
       let z2 := ((z1 ^^^ (z1 >>> Gen.smConsts[2]!)) * Gen.smConsts[3]!) % m
       z2 ^^^ (z2 >>> Gen.smConsts[4]!)) := rfl
theorem splitmix_inc_match (s c b : Nat) : (splitmixRng.draw s c b).2 = (s + Gen.smInc) % 2 ^ 64 := rfl

theorem thresholds64_match :
    (cfg64.capShift, cfg64.dShift) = (Gen.capShift64, 6) ∧ Gen.sparseShift64 = cfg64.capShift ∧
    Gen.denseBigShift64 = 6 ∧ Gen.placeholderFloor64 = (cfg64.W, cfg64.W + 1) ∧ Gen.scanAbove64 = cfg64.W ∧
    Gen.denseDiv64 = [64, 256] := by decide
theorem thresholds32_match :
    (cfg32.capShift, cfg32.dShift) = (Gen.capShift32, 5) ∧ Gen.sparseShift32 = cfg32.capShift ∧
    Gen.denseBigShift32 = 6 ∧ Gen.placeholderFloor32 = (cfg32.W, cfg32.W + 1) ∧ Gen.scanAbove32 = cfg32.W ∧
    Gen.denseDiv32 = [32, 128] := by decide

end SC
