import TinysetModel.Proofs.Dense
import TinysetModel.Proofs.Repick
/-! The plain Robin-Hood layout in full: `contains`, `remove`, `insertPlain` (re-pick of the placeholder,
ordinary insertion, growth) against `WF` / `InsOK` / `RemOK`. -/
namespace SC
open RH

variable {c : Cfg} {D : Type}

/-! ### unfolding

Helper lemmas live in the namespace `SC.Plain2` (to avoid clashes with other proof files); the main
theorems (`elems_plain`, `wf_plain_iff`, `contains_plain_wf`, `remove_plain_wf`, `insertPlain_spec`,
`insertPlain_ok`, `insertPlain_shape`, `insertPlain_total`) are in `SC`. -/
namespace Plain2

theorem isPlain_of_gt {bits : Nat} (h : c.W < bits) : isPlain c bits = true := by
  unfold isPlain
  exact decide_eq_true (Or.inr h)

theorem isDense_of_gt {bits : Nat} (h : c.W < bits) : isDense c bits = false := by
  unfold isDense
  exact decide_eq_false (by omega)

end Plain2
open Plain2

theorem elems_plain {sz cap bits : Nat} {a : Tbl} (hpl : isPlain c bits = true) (hnd : isDense c bits = false) :
    elems c (.heap sz cap bits a) = plainElems bits a := by
  simp only [elems, hpl, if_true]
  rfl

theorem wf_plain_iff {sz cap bits : Nat} {a : Tbl} (hpl : isPlain c bits = true) (hnd : isDense c bits = false) :
    WF c (.heap sz cap bits a) ↔
      (PlainWF bits sz a ∧ cap = a.size ∧ c.W < bits ∧ (∀ i, i < a.size → get a i < 2 ^ c.W) ∧ bits < 2 ^ c.W) := by
  unfold WF
  simp only [hnd, hpl, Bool.false_eq_true, if_false, if_true]

namespace Plain2

theorem words_iff {a : Tbl} {B : Nat} (hB : 0 < B) :
    (∀ i, i < a.size → get a i < B) ↔ ∀ x ∈ nz a, x < B := by
  constructor
  · intro h x hx
    obtain ⟨_, i, hi, hg⟩ := mem_nz.1 hx
    rw [← hg]; exact h i hi
  · intro h i hi
    by_cases h0 : get a i = 0
    · rw [h0]; exact hB
    · exact h _ (mem_nz.2 ⟨h0, i, hi, rfl⟩)

theorem nz_nodup {a : Tbl} (inv : Inv a 0) : (nz a).Nodup := by
  have := inv_nodup inv
  simpa using this

theorem fresh_of_not_mem {a : Tbl} {v : Nat} (h : v ∉ nz a) :
    ∀ i, i < a.size → get a i ≠ 0 → K a 0 i ≠ v := by
  intro i hi ho hk
  rw [K0] at hk
  exact h (mem_nz.2 ⟨by rw [← hk]; exact ho, i, hi, hk⟩)

theorem exists_zero_of_lt {t : Tbl} (h : (nz t).length < t.size) : ∃ z, z < t.size ∧ get t z = 0 := by
  apply exists_zero_of_mem
  have h' : (t.toList.filter (· ≠ 0)).length < t.toList.length := by simpa [nz] using h
  obtain ⟨x, hx, hp⟩ := List.length_filter_lt_length_iff_exists.1 h'
  have : x = 0 := by simpa using hp
  rw [← this]; exact hx

theorem map_dec_of_not_mem {ph : Nat} : ∀ {l : List Nat}, ph ∉ l → l.map (dec ph) = l
  | [], _ => rfl
  | x :: l, h => by
    rw [List.map_cons, map_dec_of_not_mem (fun hm => h (List.mem_cons_of_mem _ hm))]
    have : x ≠ ph := fun e => h (e ▸ List.mem_cons_self)
    simp [dec, this]

/-- the placeholder value itself is never a member -/
theorem ph_not_mem {ph : Nat} {a : Tbl} (hph : ph ≠ 0) : ph ∉ plainElems ph a := by
  intro h
  unfold plainElems at h
  rw [List.mem_map] at h
  obtain ⟨x, hx, hd⟩ := h
  unfold dec at hd
  split at hd
  · exact hph hd.symm
  · rename_i hne; exact hne hd

/-! ### sizes are preserved by `premove` -/

theorem unshift_size (off n ii : Nat) : ∀ (fuel j prevI : Nat) (a : Tbl),
    (unshift off n ii fuel j prevI a).size = a.size := by
  intro fuel
  induction fuel with
  | zero => intro j p a; rfl
  | succ fuel ih =>
    intro j p a
    unfold unshift
    dsimp only
    split
    · rfl
    · rw [ih]; simp

theorem premoveAux_size (k off n : Nat) : ∀ (fuel i : Nat) (a : Tbl),
    (premoveAux k off n fuel i a).2.size = a.size := by
  intro fuel
  induction fuel with
  | zero => intro i a; rfl
  | succ fuel ih =>
    intro i a
    unfold premoveAux
    dsimp only
    split
    · rfl
    · split
      · rfl
      · split
        · dsimp only; rw [unshift_size]; simp
        · exact ih _ _

theorem premove_size (k : Nat) (a : Tbl) (off : Nat) : (premove k a off).2.size = a.size :=
  premoveAux_size _ _ _ _ _ _

/-! ### monad plumbing -/

theorem bind_run {α β : Type} {m : M D α} {f : α → M D β} {d d1 : D} {x : α}
    (h : m d = .ok (x, d1)) : (m >>= f) d = f x d1 := by
  simp only [bind, StateT.bind, Except.bind, h]

theorem sbind_run {α β : Type} {m : M D α} {f : α → M D β} {d d1 : D} {x : α}
    (h : m d = .ok (x, d1)) : StateT.bind m f d = f x d1 := bind_run h

theorem drawM_run (g : Rng D) (cap bits : Nat) (d : D) :
    drawM c g cap bits d = .ok (modW c (g.draw d cap bits).1, (g.draw d cap bits).2) := rfl

theorem modW_lt (x : Nat) : modW c x < 2 ^ c.W := Nat.mod_lt _ (Nat.two_pow_pos _)

/-! ### `placeRaw` and the refill loop -/

theorem placeRaw_spec_z {t : Tbl} {v z : Nat} (inv : Inv t 0) (hz : z < t.size) (hz0 : get t z = 0)
    (hv : v ≠ 0) (hfresh : v ∉ nz t) (d : D) :
    ∃ t', placeRaw (D := D) v t d = .ok (t', d) ∧ t'.size = t.size ∧ Inv t' 0 ∧
      (nz t').Perm (v :: nz t) ∧ ∃ b, b < t'.size ∧ Lin t' 0 b := by
  obtain ⟨r, hp, hidx, hsz, hinv, hperm, hlin⟩ :=
    pinsert_spec (w := v) inv hz hz0 hv Nat.shiftRight_zero (fresh_of_not_mem hfresh)
  refine ⟨put r.2 r.1 v, ?_, hsz, hinv, hperm, next t.size z, by rw [hsz]; exact next_lt (by omega), hlin⟩
  unfold placeRaw
  rw [hp]
  rfl

theorem placeRaw_spec {t : Tbl} {v : Nat} (inv : Inv t 0) (hroom : (nz t).length < t.size)
    (hv : v ≠ 0) (hfresh : v ∉ nz t) (d : D) :
    ∃ t', placeRaw (D := D) v t d = .ok (t', d) ∧ t'.size = t.size ∧ Inv t' 0 ∧
      (nz t').Perm (v :: nz t) ∧ ∃ b, b < t'.size ∧ Lin t' 0 b := by
  obtain ⟨z, hz, hz0⟩ := exists_zero_of_lt hroom
  exact placeRaw_spec_z inv hz hz0 hv hfresh d

theorem placeAll_spec : ∀ (l : List Nat) (t : Tbl) (d : D), Inv t 0 → l.Nodup → (∀ v ∈ l, v ≠ 0) →
    (∀ v ∈ l, v ∉ nz t) → (nz t).length + l.length ≤ t.size →
    ∃ t', l.foldlM (fun t v => placeRaw (D := D) v t) t d = .ok (t', d) ∧ t'.size = t.size ∧ Inv t' 0 ∧
      (nz t').Perm (l ++ nz t) := by
  intro l
  induction l with
  | nil =>
    intro t d inv _ _ _ _
    exact ⟨t, rfl, rfl, inv, List.Perm.refl _⟩
  | cons v l ih =>
    intro t d inv nd h0 hfr hlen
    rw [List.length_cons] at hlen
    obtain ⟨t1, h1, s1, i1, p1, _⟩ := placeRaw_spec (D := D) inv (by omega) (h0 v List.mem_cons_self)
      (hfr v List.mem_cons_self) d
    have nd' := List.nodup_cons.1 nd
    obtain ⟨t', h2, s2, i2, p2⟩ := ih t1 d i1 nd'.2 (fun x hx => h0 x (List.mem_cons_of_mem _ hx))
      (by
        intro x hx hm
        rcases List.mem_cons.1 ((p1.mem_iff).1 hm) with e | hm'
        · exact nd'.1 (e ▸ hx)
        · exact hfr x (List.mem_cons_of_mem _ hx) hm')
      (by rw [p1.length_eq, List.length_cons, s1]; omega)
    refine ⟨t', ?_, by rw [s2, s1], i2, ?_⟩
    · rw [List.foldlM_cons, bind_run h1]; exact h2
    · refine p2.trans ?_
      refine (List.Perm.append_left l p1).trans ?_
      exact List.perm_middle

/-! ### ordinary insertion (the value is not the placeholder), including growth -/

theorem mkWF_plain {sz cap bits : Nat} {a : Tbl} (pw : PlainWF bits sz a) (hcap : cap = a.size)
    (hW : c.W < bits) (hb : bits < 2 ^ c.W) (hwords : ∀ x ∈ nz a, x < 2 ^ c.W) : WF c (.heap sz cap bits a) :=
  (wf_plain_iff (isPlain_of_gt hW) (isDense_of_gt hW)).2
    ⟨pw, hcap, hW, (words_iff (Nat.two_pow_pos _)).2 hwords, hb⟩

theorem insOK_of_perm {sz cap bits sz' cap' : Nat} {a a' : Tbl} {e : Nat} (hW : c.W < bits)
    (hnot : e ∉ plainElems bits a) (hperm : (plainElems bits a').Perm (e :: plainElems bits a))
    (wf' : WF c (.heap sz' cap' bits a')) :
    InsOK c (.heap sz cap bits a) e (.heap sz' cap' bits a') true := by
  have hpl := isPlain_of_gt (c := c) hW
  have hnd := isDense_of_gt (c := c) hW
  refine ⟨wf', ?_, ?_⟩
  · rw [elems_plain hpl hnd]; simp [hnot]
  · intro x
    rw [elems_plain hpl hnd, elems_plain hpl hnd, hperm.mem_iff, List.mem_cons]
    exact or_comm

theorem insertPlain_ne_spec (g : Rng D) {sz cap bits : Nat} {a : Tbl} (pw : PlainWF bits sz a)
    (hcap : cap = a.size) (hW : c.W < bits) (hb : bits < 2 ^ c.W) (hwords : ∀ x ∈ nz a, x < 2 ^ c.W)
    (e : Nat) (he : e < 2 ^ c.W) (hne : e ≠ bits) (d : D) :
    ∃ sz' cap' a' b d', insertPlain c g sz cap bits a e d = .ok ((.heap sz' cap' bits a', b), d') ∧
      InsOK c (.heap sz cap bits a) e (.heap sz' cap' bits a') b := by
  have hpl := isPlain_of_gt (c := c) hW
  have hnd := isDense_of_gt (c := c) hW
  have wf : WF c (.heap sz cap bits a) := mkWF_plain pw hcap hW hb hwords
  have hfold : (if e = 0 then bits else e) = enc bits e := rfl
  have he' : enc bits e < 2 ^ c.W := by unfold enc; split <;> assumption
  by_cases hmem : e ∈ plainElems bits a
  · refine ⟨sz, cap, a, false, d, (insert_plain_nogrow c g pw e hne d).1 hmem, wf, ?_, ?_⟩
    · rw [elems_plain hpl hnd]; simp [hmem]
    · intro x
      rw [elems_plain hpl hnd]
      constructor
      · exact Or.inl
      · rintro (h | h)
        · exact h
        · exact h ▸ hmem
  · have hnot : enc bits e ∉ nz a := by rw [← mem_plainElems pw.ph_ne hne]; exact hmem
    have hfresh := fresh_of_not_mem hnot
    have hspec := tablePlace_spec c (k := enc bits e) (w := enc bits e) pw.npos pw.inv
      (enc_ne_zero pw.ph_ne) Nat.shiftRight_zero hfresh
    cases hplace : tablePlace c (enc bits e) (enc bits e) 0 a with
    | some a' =>
      rw [hplace] at hspec
      obtain ⟨s1, _, _, s4⟩ := hspec
      obtain ⟨q1, q2, q3⟩ := (insert_plain_nogrow c g pw e hne d).2 hmem a' hplace
      refine ⟨sz + 1, cap, a', true, d, q1, insOK_of_perm hW hmem q3 (mkWF_plain q2 (by rw [s1]; exact hcap) hW hb ?_)⟩
      intro x hx
      rcases List.mem_cons.1 ((s4.mem_iff).1 hx) with h | h
      · rw [h]; exact he'
      · exact hwords x h
    | none =>
      have hnf : ∀ i, lookfor (enc bits e) a 0 ≠ .found i := lookfor_absent pw.npos hfresh
      have hlen : (nz a).length ≤ a.size := by
        have := List.length_filter_le (fun x => decide (x ≠ 0)) a.toList
        simpa [nz] using this
      obtain ⟨t1, h1, s1, i1, p1⟩ := placeAll_spec (D := D) (nz a)
        (Array.replicate (cap + 1 + c.growExtra cap + modW c (g.draw d cap bits).1 % c.bigMod cap) 0) (g.draw d cap bits).2
        (inv_replicate_zero _ _) (nz_nodup pw.inv) (fun x hx => (mem_nz.1 hx).1)
        (by rw [nz_replicate_zero]; simp) (by rw [nz_replicate_zero]; simp; omega)
      rw [nz_replicate_zero, List.append_nil] at p1
      rw [Array.size_replicate] at s1
      obtain ⟨t2, h2, s2, i2, p2, cut2⟩ := placeRaw_spec (D := D) (v := enc bits e) i1
        (by rw [p1.length_eq, s1]; omega) (enc_ne_zero pw.ph_ne)
        (fun hm => hnot ((p1.mem_iff).1 hm)) (g.draw d cap bits).2
      have h1' : List.foldlM (fun t v => placeRaw (D := D) v t)
          (Array.replicate (cap + 1 + c.growExtra cap + modW c (g.draw d cap bits).1 % c.bigMod cap) 0)
          (a.toList.filter (· ≠ 0)) (g.draw d cap bits).2 = .ok (t1, (g.draw d cap bits).2) := h1
      have p3 : (nz t2).Perm (enc bits e :: nz a) := p2.trans (List.Perm.cons _ p1)
      refine ⟨sz + 1, cap + 1 + c.growExtra cap + modW c (g.draw d cap bits).1 % c.bigMod cap, t2, true, (g.draw d cap bits).2, ?_,
        insOK_of_perm hW hmem ?_ (mkWF_plain ⟨by rw [s2, s1]; omega, i2, cut2, ?_, pw.ph_ne⟩ (by rw [s2, s1]) hW hb ?_)⟩
      · unfold insertPlain
        simp only [hne, if_false, hfold, bind, StateT.bind, pure, StateT.pure, Except.bind, Except.pure]
        cases hl : lookfor (enc bits e) a 0 with
        | found i => exact absurd hl (hnf i)
        | empty ii =>
          simp only [hplace]
          rw [sbind_run (drawM_run g cap bits d), sbind_run h1', sbind_run h2]
          rfl
        | needInsert =>
          simp only [hplace]
          rw [sbind_run (drawM_run g cap bits d), sbind_run h1', sbind_run h2]
          rfl
      · unfold plainElems
        have := p3.map (dec bits)
        rw [List.map_cons, dec_enc hne] at this
        exact this
      · rw [p3.length_eq, List.length_cons, ← pw.szc]
      · intro x hx
        rcases List.mem_cons.1 ((p3.mem_iff).1 hx) with h | h
        · rw [h]; exact he'
        · exact hwords x h

/-! ### re-picking the placeholder -/

/-- the first half of `insertPlain` when the placeholder itself is inserted -/
def repick (c : Cfg) (g : Rng D) (cap bits : Nat) (a : Tbl) (e : Nat) : M D (Tbl × Nat) := do
  let (hadZero, a1) := RH.premove bits a 0
  let r ← drawM c g cap bits
  match scanUp c a1.toList e (a1.size + c.W + 3) r with
  | none => fail .scan
  | some i =>
    if hadZero then do
      let a2 ← placeRaw i a1
      pure (a2, i)
    else pure (a1, i)

/-- the second half of `insertPlain` -/
def plainTail (c : Cfg) (g : Rng D) (sz cap e : Nat) : Tbl × Nat → M D (Rp × Bool)
  | (a, bits) =>
    let e' := if e = 0 then bits else e
    match RH.lookfor e' a 0 with
    | .found _ => pure (.heap sz cap bits a, false)
    | _ =>
      match tablePlace c e' e' 0 a with
      | some a' => pure (.heap (sz + 1) cap bits a', true)
      | none => do
        let r ← drawM c g cap bits
        let newcap := cap + 1 + c.growExtra cap + (r % c.bigMod cap)
        let na : Tbl := Array.replicate newcap 0
        let na ← (a.toList.filter (· ≠ 0)).foldlM (fun t v => placeRaw v t) na
        let na ← placeRaw e' na
        pure (.heap (sz + 1) newcap bits na, true)

theorem insertPlain_eq (g : Rng D) (sz cap bits : Nat) (a : Tbl) (e : Nat) :
    insertPlain c g sz cap bits a e =
      (if e = bits then repick c g cap bits a e else pure (a, bits)) >>= plainTail c g sz cap e := rfl

theorem insertPlain_of_ne (g : Rng D) {sz cap bits : Nat} {a : Tbl} {e : Nat} (hne : e ≠ bits) (d : D) :
    insertPlain c g sz cap bits a e d = plainTail c g sz cap e (a, bits) d := by
  rw [insertPlain_eq, if_neg hne]; rfl

theorem insertPlain_of_repick (g : Rng D) {sz cap bits : Nat} {a a2 : Tbl} {i : Nat} {d d1 : D}
    (h : repick c g cap bits a bits d = .ok ((a2, i), d1)) :
    insertPlain c g sz cap bits a bits d = plainTail c g sz cap bits (a2, i) d1 := by
  rw [insertPlain_eq, if_pos rfl]; exact bind_run h

theorem scanUp_lt (a : List Nat) (e : Nat) : ∀ (f i r : Nat), i < 2 ^ c.W → scanUp c a e f i = some r →
    r < 2 ^ c.W := by
  intro f
  induction f with
  | zero => intro i r _ h; cases h
  | succ f ih =>
    intro i r hi h
    unfold scanUp at h
    by_cases hb : i ≤ c.W ∨ i = e ∨ a.contains i = true
    · rw [if_pos hb] at h; exact ih _ _ (Nat.mod_lt _ (Nat.two_pow_pos _)) h
    · rw [if_neg hb] at h; cases h; exact hi

theorem repick_none (g : Rng D) {cap bits : Nat} {a : Tbl} {e : Nat} (d : D)
    (hscan : scanUp c (premove bits a 0).2.toList e ((premove bits a 0).2.size + c.W + 3)
      (modW c (g.draw d cap bits).1) = none) :
    repick c g cap bits a e d = .error .scan := by
  unfold repick
  dsimp only
  rw [bind_run (drawM_run g cap bits d), hscan]
  rfl

theorem repick_spec (g : Rng D) {sz cap bits : Nat} {a : Tbl} (pw : PlainWF bits sz a)
    (hwords : ∀ x ∈ nz a, x < 2 ^ c.W) (d : D) {i : Nat}
    (hscan : scanUp c (premove bits a 0).2.toList bits ((premove bits a 0).2.size + c.W + 3)
      (modW c (g.draw d cap bits).1) = some i) :
    ∃ a2, repick c g cap bits a bits d = .ok ((a2, i), (g.draw d cap bits).2) ∧ PlainWF i sz a2 ∧
      a2.size = a.size ∧ c.W < i ∧ i < 2 ^ c.W ∧ i ≠ bits ∧ (∀ x ∈ nz a2, x < 2 ^ c.W) ∧
      (plainElems i a2).Perm (plainElems bits a) := by
  obtain ⟨hWi, hie, hia⟩ := scanUp_some_good c _ _ _ _ _ hscan
  have hilt := scanUp_lt _ _ _ _ _ (modW_lt _) hscan
  have hi0 : i ≠ 0 := by omega
  by_cases hm : bits ∈ nz a
  · obtain ⟨h0, i0, hi0', hg⟩ := mem_nz.1 hm
    obtain ⟨b, hb, hlin⟩ := pw.cut
    obtain ⟨a1, hrm, inv1, hperm, hsz, z, hz, hz0⟩ :=
      premove_present (k := bits) pw.inv hb hlin hi0' (by rw [hg]; exact h0) (by rw [K0]; exact hg)
    rw [hg] at hperm
    rw [hrm] at hscan hia
    dsimp only at hscan hia
    have hia' : i ∉ nz a1 := fun h => hia (List.mem_filter.1 h).1
    obtain ⟨a2, h2, s2, inv2, p2, cut2⟩ := placeRaw_spec_z (D := D) (v := i) inv1 (by rw [hsz]; exact hz) hz0
      hi0 hia' (g.draw d cap bits).2
    have hnd : (bits :: nz a1).Nodup := (hperm.nodup_iff).2 (nz_nodup pw.inv)
    have hlen : (nz a2).length = (nz a).length := by
      rw [p2.length_eq, ← hperm.length_eq]; simp
    refine ⟨a2, ?_, ⟨by rw [s2, hsz]; exact pw.npos, inv2, cut2, by rw [hlen]; exact pw.szc, hi0⟩,
      by rw [s2, hsz], hWi, hilt, hie, ?_, ?_⟩
    · unfold repick
      rw [hrm]
      dsimp only
      rw [bind_run (drawM_run g cap bits d), hscan]
      dsimp only
      rw [if_pos rfl, bind_run h2]
      rfl
    · intro x hx
      rcases List.mem_cons.1 ((p2.mem_iff).1 hx) with h | h
      · rw [h]; exact hilt
      · exact hwords x ((hperm.mem_iff).1 (List.mem_cons_of_mem _ h))
    · unfold plainElems
      have q1 := p2.map (dec i)
      have q2 := hperm.map (dec bits)
      rw [List.map_cons, map_dec_of_not_mem hia'] at q1
      rw [List.map_cons, map_dec_of_not_mem (List.nodup_cons.1 hnd).1] at q2
      have e1 : dec i i = 0 := by simp [dec]
      have e2 : dec bits bits = 0 := by simp [dec]
      rw [e1] at q1
      rw [e2] at q2
      exact q1.trans q2
  · have hrm : premove bits a 0 = (false, a) := premove_absent (fresh_of_not_mem hm)
    rw [hrm] at hscan hia
    dsimp only at hscan hia
    have hia' : i ∉ nz a := fun h => hia (List.mem_filter.1 h).1
    refine ⟨a, ?_, ⟨pw.npos, pw.inv, pw.cut, pw.szc, hi0⟩, rfl, hWi, hilt, hie, hwords, ?_⟩
    · unfold repick
      rw [hrm]
      dsimp only
      rw [bind_run (drawM_run g cap bits d), hscan]
      rfl
    · unfold plainElems
      rw [map_dec_of_not_mem hia', map_dec_of_not_mem hm]

end Plain2
open Plain2

/-! ### `insertPlain`, all branches -/

/-- the scan that `insertPlain … e` performs when `e` is the placeholder (start value: the reduced draw) -/
def repickScan (c : Cfg) (g : Rng D) (cap bits : Nat) (a : Tbl) (d : D) : Option Nat :=
  scanUp c (premove bits a 0).2.toList bits ((premove bits a 0).2.size + c.W + 3) (modW c (g.draw d cap bits).1)

/-- `insertPlain` succeeds with a correct result as soon as the placeholder scan (if any) succeeds -/
theorem insertPlain_spec (g : Rng D) {sz cap bits : Nat} {a : Tbl} (pw : PlainWF bits sz a)
    (hcap : cap = a.size) (hW : c.W < bits) (hb : bits < 2 ^ c.W) (hwords : ∀ x ∈ nz a, x < 2 ^ c.W)
    (e : Nat) (he : e < 2 ^ c.W) (d : D)
    (hscan : e = bits → ∃ i, repickScan c g cap bits a d = some i) :
    ∃ sz' cap' bits' a' b d', insertPlain c g sz cap bits a e d = .ok ((.heap sz' cap' bits' a', b), d') ∧
      InsOK c (.heap sz cap bits a) e (.heap sz' cap' bits' a') b ∧ c.W < bits' ∧ bits' < 2 ^ c.W := by
  by_cases hne : e = bits
  · subst hne
    obtain ⟨i, hs⟩ := hscan rfl
    obtain ⟨a2, hr, pw2, s2, hWi, hilt, hie, hw2, hperm⟩ := repick_spec g pw hwords d hs
    obtain ⟨sz', cap', a', b, d', hins, ok⟩ :=
      insertPlain_ne_spec g pw2 (hcap.trans s2.symm) hWi hilt hw2 e he (Ne.symm hie) (g.draw d cap e).2
    refine ⟨sz', cap', i, a', b, d', ?_, ⟨ok.wf, ?_, ?_⟩, hWi, hilt⟩
    · rw [insertPlain_of_repick g hr, ← insertPlain_of_ne g (Ne.symm hie)]; exact hins
    · rw [ok.ret, elems_plain (isPlain_of_gt hWi) (isDense_of_gt hWi),
        elems_plain (isPlain_of_gt hW) (isDense_of_gt hW), hperm.mem_iff]
    · intro x
      rw [ok.mem x, elems_plain (isPlain_of_gt hWi) (isDense_of_gt hWi),
        elems_plain (isPlain_of_gt hW) (isDense_of_gt hW), hperm.mem_iff]
  · obtain ⟨sz', cap', a', b, d', hins, ok⟩ := insertPlain_ne_spec g pw hcap hW hb hwords e he hne d
    exact ⟨sz', cap', bits, a', b, d', hins, ok, hW, hb⟩

/-- a successful `insertPlain` means the placeholder scan (if any) succeeded -/
theorem Plain2.scan_of_ok (g : Rng D) {sz cap bits : Nat} {a : Tbl} {e : Nat} {d d' : D} {r' : Rp} {b : Bool}
    (h : insertPlain c g sz cap bits a e d = .ok ((r', b), d')) :
    e = bits → ∃ i, repickScan c g cap bits a d = some i := by
  intro heq
  subst heq
  cases hsc : repickScan c g cap e a d with
  | some i => exact ⟨i, rfl⟩
  | none =>
    exfalso
    have hn := repick_none g d hsc
    rw [insertPlain_eq, if_pos rfl] at h
    obtain ⟨x, d1, h1, _⟩ := bind_ok h
    rw [hn] at h1
    cases h1

theorem Plain2.plain_unfold {sz cap bits : Nat} {a : Tbl} (wf : WF c (.heap sz cap bits a))
    (hpl : isPlain c bits = true) (hnd : isDense c bits = false) :
    PlainWF bits sz a ∧ cap = a.size ∧ c.W < bits ∧ (∀ x ∈ nz a, x < 2 ^ c.W) ∧ bits < 2 ^ c.W := by
  obtain ⟨pw, hcap, hW, hw, hb⟩ := (wf_plain_iff hpl hnd).1 wf
  exact ⟨pw, hcap, hW, (words_iff (Nat.two_pow_pos _)).1 hw, hb⟩

/-- `insertPlain` is correct whenever it returns (all branches: placeholder re-pick, found, placed, growth). -/
theorem insertPlain_ok (_ok : CfgOK c) (g : Rng D) {sz cap bits : Nat} {a : Tbl} (wf : WF c (.heap sz cap bits a))
    (hpl : isPlain c bits = true) (hnd : isDense c bits = false)
    (e : Nat) (he : e < 2 ^ c.W) (d d' : D) (r' : Rp) (b : Bool)
    (h : insertPlain c g sz cap bits a e d = .ok ((r', b), d')) : InsOK c (.heap sz cap bits a) e r' b := by
  obtain ⟨pw, hcap, hW, hw, hbits⟩ := plain_unfold wf hpl hnd
  obtain ⟨sz', cap', bits', a', b0, d0, hins, ok, _, _⟩ :=
    insertPlain_spec g pw hcap hW hbits hw e he d (scan_of_ok g h)
  rw [hins] at h
  cases h
  exact ok

/-- the result is again a plain table whose placeholder is in `(W, 2^W)` -/
theorem insertPlain_shape (_ok : CfgOK c) (g : Rng D) {sz cap bits : Nat} {a : Tbl} (wf : WF c (.heap sz cap bits a))
    (hpl : isPlain c bits = true) (hnd : isDense c bits = false)
    (e : Nat) (he : e < 2 ^ c.W) (d d' : D) (r' : Rp) (b : Bool)
    (h : insertPlain c g sz cap bits a e d = .ok ((r', b), d')) :
    ∃ sz' cap' bits' a', r' = .heap sz' cap' bits' a' ∧ c.W < bits' ∧ bits' < 2 ^ c.W := by
  obtain ⟨pw, hcap, hW, hw, hbits⟩ := plain_unfold wf hpl hnd
  obtain ⟨sz', cap', bits', a', b0, d0, hins, _, h1, h2⟩ :=
    insertPlain_spec g pw hcap hW hbits hw e he d (scan_of_ok g h)
  rw [hins] at h
  cases h
  exact ⟨sz', cap', bits', a', rfl, h1, h2⟩

/-- totality: `insertPlain` never fails when the scan fuel suffices -/
theorem insertPlain_total (_ok : CfgOK c) (g : Rng D) {sz cap bits : Nat} {a : Tbl} (wf : WF c (.heap sz cap bits a))
    (hpl : isPlain c bits = true) (hnd : isDense c bits = false)
    (e : Nat) (he : e < 2 ^ c.W) (d : D) (hsmall : a.size + c.W + 3 ≤ 2 ^ c.W) :
    ∃ r' b d', insertPlain c g sz cap bits a e d = .ok ((r', b), d') := by
  obtain ⟨pw, hcap, hW, hw, hbits⟩ := plain_unfold wf hpl hnd
  have hs : e = bits → ∃ i, repickScan c g cap bits a d = some i := by
    intro _
    have hl : (premove bits a 0).2.toList.length = (premove bits a 0).2.size := Array.length_toList
    obtain ⟨i, hi, _⟩ := scanUp_terminates c (premove bits a 0).2.toList bits (modW c (g.draw d cap bits).1)
      (modW_lt _) (by rw [hl, premove_size]; exact hsmall)
    rw [hl] at hi
    exact ⟨i, hi⟩
  obtain ⟨sz', cap', bits', a', b0, d0, hins, _⟩ := insertPlain_spec g pw hcap hW hbits hw e he d hs
  exact ⟨_, _, _, hins⟩

/-! ### `contains` and `remove` against `WF` -/

theorem contains_plain_wf (c : Cfg) {sz cap bits : Nat} {a : Tbl} (wf : WF c (.heap sz cap bits a))
    (hpl : isPlain c bits = true) (hnd : isDense c bits = false) (e : Nat) :
    contains c (.heap sz cap bits a) e = true ↔ e ∈ elems c (.heap sz cap bits a) := by
  rw [elems_plain hpl hnd]
  exact contains_plain c (plain_unfold wf hpl hnd).1 hpl hnd e

theorem Plain2.remove_plain_size (g : Rng D) (fuel : Nat) {sz cap bits : Nat} {a : Tbl}
    (hpl : isPlain c bits = true) (hnd : isDense c bits = false) {e : Nat} {d d' : D} {sz' : Nat} {a' : Tbl} {b : Bool}
    (h : remove c g fuel (.heap sz cap bits a) e d = .ok ((.heap sz' cap bits a', b), d')) : a'.size = a.size := by
  unfold remove at h
  simp only [hnd, hpl, if_true, Bool.false_eq_true, if_false] at h
  by_cases he : e = bits
  · simp only [he, if_true, pure_run] at h
    cases h
    rfl
  · simp only [he, if_false] at h
    have hs := premove_size (if e = 0 then bits else e) a 0
    generalize premove (if e = 0 then bits else e) a 0 = p at h hs
    obtain ⟨had, a1⟩ := p
    simp only [pure_run] at h
    cases h
    exact hs

theorem remove_plain_wf (c : Cfg) (g : Rng D) (fuel : Nat) {sz cap bits : Nat} {a : Tbl}
    (wf : WF c (.heap sz cap bits a)) (hpl : isPlain c bits = true) (hnd : isDense c bits = false)
    (e : Nat) (d : D) :
    ∃ r' b, remove c g fuel (.heap sz cap bits a) e d = .ok ((r', b), d) ∧
      RemOK c (.heap sz cap bits a) e r' b := by
  obtain ⟨pw, hcap, hW, hw, hbits⟩ := plain_unfold wf hpl hnd
  obtain ⟨sz', a', b, hrm, pw', hret, hmem⟩ := remove_plain c g fuel pw hpl hnd e d
  have hsz := remove_plain_size g fuel hpl hnd hrm
  refine ⟨_, b, hrm, mkWF_plain pw' (by rw [hsz]; exact hcap) hW hbits ?_, ?_, ?_⟩
  · intro w hw'
    have h0 : w ≠ 0 := (mem_nz.1 hw').1
    have h1 : dec bits w ∈ plainElems bits a' := List.mem_map.2 ⟨w, hw', rfl⟩
    obtain ⟨w2, hw2, hd⟩ := List.mem_map.1 ((hmem _).1 h1).1
    have : w2 = w := dec_inj (mem_nz.1 hw2).1 h0 hd
    rw [← this]; exact hw w2 hw2
  · rw [elems_plain hpl hnd]; exact hret
  · intro x
    rw [elems_plain hpl hnd, elems_plain hpl hnd]; exact hmem x

#print axioms elems_plain
#print axioms contains_plain_wf
#print axioms remove_plain_wf
#print axioms insertPlain_spec
#print axioms insertPlain_ok
#print axioms insertPlain_shape
#print axioms insertPlain_total
end SC
