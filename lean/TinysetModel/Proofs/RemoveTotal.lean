import TinysetModel.Proofs.Refine
/-! `remove` on a heap set never fails and never draws (total correctness of the three heap layouts). -/
namespace SC
open RH
variable {c : Cfg} {D : Type}

theorem remove_heap_total (ok : CfgOK c) (g : Rng D) (fuel : Nat) {sz cap bits : Nat} {a : Tbl}
    (wf : WF c (.heap sz cap bits a)) (e : Nat) (he : e < 2 ^ c.W) (d : D) :
    ∃ r' b, remove c g fuel (.heap sz cap bits a) e d = .ok ((r', b), d) ∧ RemOK c (.heap sz cap bits a) e r' b := by
  rcases WF_heap_cases wf with ⟨hW, dw⟩ | ⟨hd, hp⟩ | ⟨hd, hp, bw⟩
  · subst hW
    exact remove_dense ok g fuel dw e d
  · exact remove_plain_wf c g fuel wf hp hd e d
  · exact remove_bitmap hd hp ok g fuel bw e he d

#print axioms remove_heap_total
end SC
