import TinysetModel.Proofs.DenseRange
import TinysetModel.Proofs.InlineSpec
import TinysetModel.Proofs.Refine
/-! C12(a), ascending half — inserting `0, 1, …, n-1` one at a time into the empty set: the first `maxN`
values stay inline, the next one converts to the dense layout (`denseCap maxN` words), and from then on every
insert either sets a bit in place or grows the bitset to `denseGrow e` words.  No branch draws from the RNG.
The capacity is therefore bounded by `denseGrow` of the last growth point, which gives at most
`n/4 + 64` bytes of heap for `n ≥ 64`. -/
namespace SC
open RH

variable {c : Cfg} {D : Type}

/-! ### 1. one dense insert that cannot fall back to the sparse layout -/

/-- shape of the growth branch of `insertDense`: the word of `e` is outside the block and `e >>> capShift ≤ sz`;
the result is a dense block of `denseGrow e` words with one more member, and nothing is drawn -/
theorem insertDense_grow_shape (g : Rng D) (rec : Ins D) {sz cap : Nat} {a : Tbl} {e : Nat}
    (hk : ¬ e >>> c.dShift < cap) (hsp : ¬ e >>> c.capShift > sz) (d : D) :
    ∃ a', insertDense c g rec sz cap a e d = .ok ((.heap (sz + 1) (c.denseGrow e) c.W a', true), d) := by
  unfold insertDense
  dsimp only
  rw [if_neg hk, if_neg hsp]
  exact ⟨_, rfl⟩

/-- a dense insert of a value with `e >>> capShift ≤ sz`: the result is dense again, correct, nothing is drawn,
and the capacity is either unchanged or (when the word of `e` was outside) `denseGrow e` -/
theorem insert_dense_nodraw (ok : CfgOK c) (g : Rng D) (fuel : Nat) {sz cap : Nat} {a : Tbl}
    (wf : DenseWF c sz cap a) {e : Nat} (he : e < 2 ^ c.W) (hsz : e >>> c.capShift ≤ sz) (d : D) :
    ∃ sz' cap' a' b, insert c g (fuel + 1) (.heap sz cap c.W a) e d = .ok ((.heap sz' cap' c.W a', b), d) ∧
      InsOK c (.heap sz cap c.W a) e (.heap sz' cap' c.W a') b ∧
      (cap' = cap ∨ (cap ≤ e >>> c.dShift ∧ cap' = c.denseGrow e)) := by
  by_cases hk : e >>> c.dShift < cap
  · obtain ⟨sz', a', b, h, s⟩ := insert_dense_inrange ok g fuel wf he hk d
    exact ⟨sz', cap, a', b, h, s, Or.inl rfl⟩
  · obtain ⟨a', h⟩ := insertDense_grow_shape g (insert c g fuel) (sz := sz) (a := a) hk (by omega) d
    have h2 := insertDense_ok ok g _ (insert_refines ok g fuel) wf e he d d _ _ h
    refine ⟨sz + 1, c.denseGrow e, a', true, ?_, h2, Or.inr ⟨by omega, rfl⟩⟩
    rw [insert, insertStep, if_pos (isDense_W c)]
    exact h

/-- the member count of a dense set holding exactly `0..k` -/
theorem dense_sz_of_mem (ok : CfgOK c) {sz cap : Nat} {a : Tbl} (wf : DenseWF c sz cap a) {k : Nat}
    (h : ∀ x, x ∈ elems c (.heap sz cap c.W a) ↔ x < k) : sz = k := by
  have hp : (elems c (.heap sz cap c.W a)).Perm (List.range k) := by
    rw [List.perm_ext_iff_of_nodup (elems_dense_nodup ok) List.nodup_range]
    intro x
    rw [h, List.mem_range]
  have := wf.szc
  rw [hp.length_eq, List.length_range] at this
  exact this

/-! ### 2. the invariant of the dense phase -/

/-- after inserting `0, …, m` (the last one being `m`): dense, `m + 1` members, exactly the values `≤ m`,
capacity at most `B m` -/
structure AscInv (c : Cfg) (B : Nat → Nat) (m : Nat) (r : Rp) : Prop where
  shape : ∃ cap a, r = .heap (m + 1) cap c.W a ∧ DenseWF c (m + 1) cap a ∧ cap ≤ B m
  mem : ∀ x, x ∈ elems c r ↔ x ≤ m

theorem asc_step (ok : CfgOK c) (g : Rng D) (fuel : Nat) {B : Nat → Nat} (hmono : ∀ i, B i ≤ B (i + 1))
    (hgrow : ∀ e, c.denseGrow e ≤ B e) {m : Nat} {r : Rp} (inv : AscInv c B m r) (hm : m + 1 < 2 ^ c.W) (d : D) :
    ∃ r', insert c g (fuel + 1) r (m + 1) d = .ok ((r', true), d) ∧ AscInv c B (m + 1) r' := by
  obtain ⟨cap, a, rfl, wf, hcap⟩ := inv.shape
  have hsh : (m + 1) >>> c.capShift ≤ m + 1 := Nat.shiftRight_le _ _
  obtain ⟨sz', cap', a', b, h, s, hc⟩ := insert_dense_nodraw ok g fuel wf hm hsh d
  have hb : b = true := s.ret.2 (by rw [inv.mem]; omega)
  subst hb
  have hmem : ∀ x, x ∈ elems c (.heap sz' cap' c.W a') ↔ x ≤ m + 1 := by
    intro x
    rw [s.mem, inv.mem]
    omega
  have wf' : DenseWF c sz' cap' a' := by have := s.wf; rw [WF_dense] at this; exact this
  have hsz : sz' = m + 1 + 1 := dense_sz_of_mem ok wf' (k := m + 1 + 1) (fun x => by rw [hmem]; omega)
  subst hsz
  refine ⟨_, h, ⟨cap', a', rfl, wf', ?_⟩, hmem⟩
  rcases hc with hc | ⟨_, hc⟩
  · rw [hc]; exact Nat.le_trans hcap (hmono m)
  · rw [hc]; exact hgrow (m + 1)

theorem insertAll_cons_run (rec : Ins D) (r : Rp) (x : Nat) (xs : List Nat) (d d1 : D) (r1 : Rp) (b : Bool)
    (h1 : rec r x d = .ok ((r1, b), d1)) : insertAll rec r (x :: xs) d = insertAll rec r1 xs d1 := by
  simp only [insertAll, List.foldlM_cons]
  rw [Plain2.bind_run (x := r1) (d1 := d1)]
  rw [Plain2.bind_run h1]
  rfl

/-- the dense phase: `k` further ascending inserts -/
theorem asc_run (ok : CfgOK c) (g : Rng D) (fuel : Nat) {B : Nat → Nat} (hmono : ∀ i, B i ≤ B (i + 1))
    (hgrow : ∀ e, c.denseGrow e ≤ B e) (d : D) :
    ∀ (k m : Nat) (r : Rp), AscInv c B m r → m + k < 2 ^ c.W →
      ∃ r', insertAll (insert c g (fuel + 1)) r (List.range' (m + 1) k) d = .ok (r', d) ∧ AscInv c B (m + k) r'
  | 0, m, r, inv, _ => ⟨r, rfl, inv⟩
  | k + 1, m, r, inv, hk => by
    obtain ⟨r1, h1, inv1⟩ := asc_step ok g fuel hmono hgrow inv (by omega) d
    obtain ⟨r', h2, inv'⟩ := asc_run ok g fuel hmono hgrow d k (m + 1) r1 inv1 (by omega)
    refine ⟨r', ?_, ?_⟩
    · rw [List.range'_succ, insertAll_cons_run _ _ _ _ d d r1 true h1]
      exact h2
    · have : m + (k + 1) = m + 1 + k := by omega
      rw [this]; exact inv'

/-! ### 3. the conversion: the value `maxN` arrives at a full inline set holding `0..maxN` -/

theorem getLast?_getD_range (n : Nat) : (List.range n).getLast?.getD 0 = n - 1 := by
  cases n with
  | zero => rfl
  | succ n => rw [getLast?_range_succ]; rfl

theorem asc_convert (ok : CfgOK c) (hden : ∀ mx e, e ≤ mx → e >>> c.dShift < c.denseCap mx)
    (g : Rng D) (fuel : Nat) {B : Nat → Nat} (hB : c.denseCap c.codec.maxN ≤ B c.codec.maxN)
    (hW : c.codec.maxN < 2 ^ c.W) {t : TinyC.T} (hsz : t.sz = c.codec.maxN)
    (hm : t.members c.codec = List.range c.codec.maxN) (d : D) :
    ∃ r', insert c g (fuel + 2) (.stack t) c.codec.maxN d = .ok ((r', true), d) ∧ AscInv c B c.codec.maxN r' := by
  generalize hN : c.codec.maxN = N at *
  have hnone : TinyC.insert c.codec t N = none := by
    unfold TinyC.insert
    have h1 : ¬ t.sz + 1 ≤ c.codec.maxN := by omega
    have h2 : ¬ ((t.members c.codec).contains N = true) := by
      rw [hm]; simp
    rw [if_neg h1, if_neg h2]
  have wf0 : DenseWF c 0 (c.denseCap N) (Array.replicate (c.denseCap N) 0) := by
    have := Cap.denseWithMax_wf ok N
    unfold denseWithMax at this
    rw [WF_dense] at this; exact this
  -- refill
  obtain ⟨sz1, a1, h1, wf1, hm1⟩ := insertAll_dense_inrange ok g fuel (List.range N) wf0
    (fun x hx => by have := List.mem_range.1 hx; omega)
    (fun x hx => hden N x (by have := List.mem_range.1 hx; omega)) d
  -- the new value
  obtain ⟨sz2, a2, b, h2, s2⟩ := insert_dense_inrange ok g fuel wf1 hW (hden N N (Nat.le_refl _)) d
  have wf2 : DenseWF c sz2 (c.denseCap N) a2 := by have := s2.wf; rw [WF_dense] at this; exact this
  have hmem : ∀ x, x ∈ elems c (.heap sz2 (c.denseCap N) c.W a2) ↔ x ≤ N := by
    intro x
    rw [s2.mem, hm1, elems_zero c (fun w hw => replicate_zero_mem hw), List.mem_range]
    simp only [List.not_mem_nil, false_or]
    omega
  have hsz2 : sz2 = N + 1 := dense_sz_of_mem ok wf2 (k := N + 1) (fun x => by rw [hmem]; omega)
  subst hsz2
  refine ⟨.heap (N + 1) (c.denseCap N) c.W a2, ?_, ⟨_, _, rfl, wf2, hB⟩, hmem⟩
  rw [insert, insertStep]
  simp only [hnone]
  rw [hm, getLast?_getD_range]
  have hmx : (if N > N - 1 then N else N - 1) = N := by split <;> omega
  rw [hmx]
  have hcs : t.sz + 1 > N >>> c.capShift := by
    have := Nat.shiftRight_le N c.capShift
    omega
  unfold withCapMax
  rw [if_pos hcs]
  rw [Plain2.bind_run (x := denseWithMax c N) (d1 := d) rfl]
  unfold rebuild
  rw [elems_stack, hm]
  unfold denseWithMax
  rw [Plain2.bind_run h1, Plain2.bind_run h2]
  rfl

/-! ### 4. the whole run -/

theorem range_split (N k : Nat) : List.range (N + 1 + k) = List.range N ++ N :: List.range' (N + 1) k := by
  rw [List.range_eq_range', List.range_eq_range']
  have h1 : N + 1 + k = N + (1 + k) := by omega
  rw [h1, ← List.range'_append_1, Nat.zero_add, Nat.add_comm 1 k, List.range'_succ]

/-- C12(a), ascending insertion, for any configuration: `maxN < n ≤ 2 ^ W`; the result is a dense set of `n`
members `0..n` whose capacity is at most `B (n - 1)`, and the generator state is returned unchanged -/
theorem ascending_range_dense (ok : CfgOK c) (anti : TinyC.WidthsAntitone c.codec)
    (hbud : TinyC.InBudget c.codec (List.range c.codec.maxN))
    (hden : ∀ mx e, e ≤ mx → e >>> c.dShift < c.denseCap mx)
    {B : Nat → Nat} (hmono : ∀ i, B i ≤ B (i + 1)) (hgrow : ∀ e, c.denseGrow e ≤ B e)
    (hB : c.denseCap c.codec.maxN ≤ B c.codec.maxN)
    (g : Rng D) (fuel : Nat) (n : Nat) (hn : c.codec.maxN < n) (hnW : n ≤ 2 ^ c.W) (d : D) :
    ∃ cap a, insertAll (insert c g (fuel + 2)) .empty (List.range n) d = .ok (.heap n cap c.W a, d) ∧
      DenseWF c n cap a ∧ (∀ x, x ∈ elems c (.heap n cap c.W a) ↔ x < n) ∧ cap ≤ B (n - 1) := by
  obtain ⟨k, rfl⟩ : ∃ k, n = c.codec.maxN + 1 + k := ⟨n - (c.codec.maxN + 1), by omega⟩
  -- inline phase
  obtain ⟨t, h1, hsz, hm, _⟩ := ascending_inline_all ok anti g (fuel + 1) _ hbud d
  rw [List.length_range] at hsz
  -- conversion
  obtain ⟨r1, h2, inv1⟩ := asc_convert ok hden g fuel hB (by omega) hsz hm d
  -- dense phase
  obtain ⟨r2, h3, inv2⟩ := asc_run ok g (fuel + 1) hmono hgrow d k c.codec.maxN r1 inv1 (by omega)
  obtain ⟨cap, a, rfl, wf, hcap⟩ := inv2.shape
  have e1 : c.codec.maxN + k + 1 = c.codec.maxN + 1 + k := by omega
  rw [e1] at wf h3
  refine ⟨cap, a, ?_, wf, fun x => ?_, ?_⟩
  · rw [range_split, insertAll_append, Plain2.bind_run h1, insertAll_cons_run _ _ _ _ d d r1 true h2]
    exact h3
  · have := inv2.mem x
    rw [e1] at this
    rw [this]; omega
  · have : c.codec.maxN + 1 + k - 1 = c.codec.maxN + k := by omega
    rw [this]; exact hcap

/-! ### 5. the two instances -/

theorem inBudget_range64 : TinyC.InBudget TinyC.codec64 (List.range 7) :=
  ⟨by decide, by decide, (inc_zero_iff _).2 List.pairwise_lt_range, by decide⟩

theorem inBudget_range32 : TinyC.InBudget TinyC.codec32 (List.range 6) :=
  ⟨by decide, by decide, (inc_zero_iff _).2 List.pairwise_lt_range, by decide⟩

/-- capacity bound of the ascending run (both widths): `denseGrow` of the last value -/
def ascB64 (e : Nat) : Nat := 1 + e / 64 + e / 64 / 4
def ascB32 (e : Nat) : Nat := 1 + e / 32 + e / 128

theorem ascending_range_dense64 (g : Rng D) (fuel : Nat) (n : Nat) (hn : 8 ≤ n) (hn' : n ≤ 2 ^ 64) (d : D) :
    ∃ cap a, insertAll (insert cfg64 g (fuel + 2)) .empty (List.range n) d = .ok (.heap n cap 64 a, d) ∧
      DenseWF cfg64 n cap a ∧ (∀ x, x ∈ elems cfg64 (.heap n cap 64 a) ↔ x < n) ∧
      cap ≤ 1 + (n - 1) / 64 + (n - 1) / 64 / 4 :=
  ascending_range_dense (c := cfg64) (B := ascB64) cfg64_ok TinyC.widthsAntitone64 inBudget_range64
    cfg64_dense_covers (fun i => by unfold ascB64; omega)
    (fun e => by
      show 1 + (e >>> 6) + (e >>> 6) / 4 ≤ 1 + e / 64 + e / 64 / 4
      rw [Nat.shiftRight_eq_div_pow]
      exact Nat.le_refl _)
    (by decide) g fuel n hn hn' d

theorem ascending_range_dense32 (g : Rng D) (fuel : Nat) (n : Nat) (hn : 7 ≤ n) (hn' : n ≤ 2 ^ 32) (d : D) :
    ∃ cap a, insertAll (insert cfg32 g (fuel + 2)) .empty (List.range n) d = .ok (.heap n cap 32 a, d) ∧
      DenseWF cfg32 n cap a ∧ (∀ x, x ∈ elems cfg32 (.heap n cap 32 a) ↔ x < n) ∧
      cap ≤ 1 + (n - 1) / 32 + (n - 1) / 128 :=
  ascending_range_dense (c := cfg32) (B := ascB32) cfg32_ok TinyC.widthsAntitone32 inBudget_range32
    cfg32_dense_covers (fun i => by unfold ascB32; omega) (fun e => Nat.le_refl _)
    (by decide) g fuel n hn hn' d

/-- C12(a) for `SetU64`, ascending insertion: the set `0..n` built by `insert(0), insert(1), …` owns at most
`n/4 + 64` bytes of heap (in fact `≤ 10·((n-1)/64) + 32`); no random draw is consumed -/
theorem ascending_range_bytes64 (g : Rng D) (fuel : Nat) (n : Nat) (hn : 64 ≤ n) (hn' : n ≤ 2 ^ 31) (d : D) :
    ∃ r, insertAll (insert cfg64 g (fuel + 2)) .empty (List.range n) d = .ok (r, d) ∧ len r = n ∧
      (∀ x, x ∈ elems cfg64 r ↔ x < n) ∧ blockBytes cfg64 r ≤ n / 4 + 64 := by
  obtain ⟨cap, a, h, _, hm, hcap⟩ := ascending_range_dense64 g fuel n (by omega)
    (Nat.le_trans hn' (Nat.pow_le_pow_right (by omega) (by omega))) d
  refine ⟨_, h, rfl, hm, ?_⟩
  show cap * (64 / 8) + 24 ≤ _
  omega

theorem ascending_range_bytes32 (g : Rng D) (fuel : Nat) (n : Nat) (hn : 64 ≤ n) (hn' : n ≤ 2 ^ 31) (d : D) :
    ∃ r, insertAll (insert cfg32 g (fuel + 2)) .empty (List.range n) d = .ok (r, d) ∧ len r = n ∧
      (∀ x, x ∈ elems cfg32 r ↔ x < n) ∧ blockBytes cfg32 r ≤ n / 4 + 64 := by
  obtain ⟨cap, a, h, _, hm, hcap⟩ := ascending_range_dense32 g fuel n (by omega)
    (Nat.le_trans hn' (Nat.pow_le_pow_right (by omega) (by omega))) d
  refine ⟨_, h, rfl, hm, ?_⟩
  show cap * (32 / 8) + 12 ≤ _
  omega

#print axioms insertDense_grow_shape
#print axioms insert_dense_nodraw
#print axioms ascending_range_dense
#print axioms ascending_range_dense64
#print axioms ascending_range_dense32
#print axioms ascending_range_bytes64
#print axioms ascending_range_bytes32
end SC
