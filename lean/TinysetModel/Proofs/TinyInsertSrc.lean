import TinysetModel.Proofs.TinyNextSrc
/-! `Tiny::insert` of the current source — the in-place re-packing of the inline word with one more member, written
with two explicit iterators over the old and the new row of widths, three loops and `unwrap`s — translated on every run
(`Generated/Loops.lean`); here: it never panics and returns exactly what the model's `TinyC.insert` returns. -/
namespace SC
open TinyC

/-! ### the model's accumulator can be factored out -/

def _root_.TinyC.Res.pre (acc : List Nat) : Res → Res
  | .same => .same
  | .none => .none
  | .new r => .new (acc ++ r)

theorem shiftRest_acc : ∀ (nw fs acc : List Nat), shiftRest nw fs acc = (shiftRest nw fs []).map (acc ++ ·) := by
  intro nw
  induction nw with
  | nil =>
    intro fs acc
    cases fs <;> simp [shiftRest]
  | cons newb nw ih =>
    intro fs acc
    cases fs with
    | nil => simp [shiftRest]
    | cons n fs =>
      simp only [shiftRest]
      split
      · rfl
      · rw [ih fs (acc ++ [n]), ih fs ([] ++ [n])]
        simp [Option.map_map, Function.comp_def, List.append_assoc]

theorem go_cons (newb : Nat) (nw : List Nat) (n : Nat) (fs : List Nat) (e : Nat) (acc : List Nat) :
    go (newb :: nw) (n :: fs) e acc =
      (if e = n then .same
       else if TinyC.log2 n > newb then
         (if e < n then .none else if searchRest fs (e - (n + 1)) then .same else .none)
       else if e < n then
         match nw with
         | newb2 :: nw' =>
           if TinyC.log2 (n - e - 1) > newb2 then .none
           else match shiftRest nw' fs (acc ++ [e, n - e - 1]) with
             | some r => .new r
             | none => .none
         | [] => .none
       else go nw fs (e - (n + 1)) (acc ++ [n])) := by
  cases nw with
  | nil => simp [go]
  | cons a b => first | rfl | (rw [go]) | (simp only [go])

theorem go_acc : ∀ (nw fs : List Nat) (e : Nat) (acc : List Nat), go nw fs e acc = (go nw fs e []).pre acc := by
  intro nw
  induction nw with
  | nil =>
    intro fs e acc
    cases fs <;> simp [go, Res.pre]
  | cons newb nw ih =>
    intro fs e acc
    cases fs with
    | nil =>
      cases nw with
      | nil =>
        simp only [go]
        split <;> simp [Res.pre]
      | cons _ _ => simp [go, Res.pre]
    | cons n fs =>
      rw [go_cons, go_cons]
      by_cases h1 : e = n
      · simp [h1, Res.pre]
      · simp only [h1, if_false]
        by_cases h2 : TinyC.log2 n > newb
        · simp only [h2, if_true]
          split
          · simp [Res.pre]
          · split <;> simp [Res.pre]
        · simp only [h2, if_false]
          by_cases h3 : e < n
          · simp only [h3, if_true]
            cases nw with
            | nil => simp [Res.pre]
            | cons newb2 nw' =>
              simp only []
              split
              · simp [Res.pre]
              · rw [shiftRest_acc nw' fs (acc ++ [e, n - e - 1]), shiftRest_acc nw' fs ([] ++ [e, n - e - 1])]
                cases shiftRest nw' fs [] <;> simp [Res.pre, List.append_assoc]
          · simp only [h3, if_false]
            rw [ih fs (e - (n + 1)) (acc ++ [n]), ih fs (e - (n + 1)) ([] ++ [n])]
            cases go nw fs (e - (n + 1)) [] <;> simp [Res.pre, List.append_assoc]

/-! ### the three loops -/

theorem and_mask_64 (bits w : Nat) : bits &&& Gen.mask_64 w = bits % 2 ^ w := by
  rw [mask_64_eq, Nat.and_two_pow_sub_one_eq_mod]

theorem add_pack_step (nb off n w P : Nat) : nb + 2 ^ off * (n + 2 ^ w * P) = nb + 2 ^ off * n + 2 ^ (off + w) * P := by
  rw [Nat.pow_add, Nat.mul_add, Nat.mul_assoc, Nat.add_assoc]

theorem bound_step {nb off n w : Nat} (hb : nb < 2 ^ off) (hn : n < 2 ^ w) : nb + 2 ^ off * n < 2 ^ (off + w) := by
  rw [Nat.pow_add]
  have h1 : 2 ^ off * n ≤ 2 ^ off * (2 ^ w - 1) := Nat.mul_le_mul_left _ (by omega)
  have h2 : 2 ^ off * (2 ^ w - 1) = 2 ^ off * 2 ^ w - 2 ^ off := by rw [Nat.mul_sub_one]
  have h3 : 2 ^ off ≤ 2 ^ off * 2 ^ w := Nat.le_mul_of_pos_right _ (Nat.two_pow_pos w)
  omega

theorem mod_lt_64 (bits w : Nat) (hw : w ≤ 64) : bits % 2 ^ w < 2 ^ 64 :=
  Nat.lt_of_lt_of_le (Nat.mod_lt _ (Nat.two_pow_pos w)) (Nat.pow_le_pow_right (by omega) hw)

/-- the search through the rest of the old word (`for oldb in old_iter`) -/
theorem insert_loop3_64 (sz nbs nsz bk off : Nat) (ob nb ni : List Nat) : ∀ (old_iter : List Nat) (x y z bits e : Nat),
    Gen.tiny_insert_64_loop3 sz ob nb nbs nsz bk off ni x y z old_iter bits e =
      .ok (if searchRest (unpack old_iter bits) e then some (sz, bk) else none) := by
  intro old_iter
  induction old_iter with
  | nil => intro x y z bits e; simp [Gen.tiny_insert_64_loop3, unpack, searchRest]
  | cons oldb old ih =>
    intro x y z bits e
    simp only [Gen.tiny_insert_64_loop3, unpack, searchRest, and_mask_64, Nat.shiftRight_eq_div_pow]
    by_cases h1 : bits % 2 ^ oldb = e
    · simp [h1]
    · simp only [h1, if_false]
      by_cases h2 : e < bits % 2 ^ oldb
      · simp [h2]
      · simp only [h2, if_false]
        exact ih _ _ _ _ _

/-- copying the rest of the old word into the new one (`for newb in new_iter`, `old_iter.next().unwrap()`) -/
theorem insert_loop2_64 (sz e nsz bk : Nat) (ob nb : List Nat) : ∀ (new_iter old_iter : List Nat) (x y z bits nbits off : Nat),
    new_iter.length = old_iter.length → (∀ w ∈ old_iter, w ≤ 64) → nbits < 2 ^ off →
    Gen.tiny_insert_64_loop2 sz e ob nb nsz bk x y z new_iter bits nbits off old_iter =
      .ok ((shiftRest new_iter (unpack old_iter bits) []).map (fun r => (nsz, nbits + 2 ^ off * pack new_iter r))) := by
  intro new_iter
  induction new_iter with
  | nil =>
    intro old_iter x y z bits nbits off hl _ _
    cases old_iter with
    | nil => simp [Gen.tiny_insert_64_loop2, unpack, shiftRest, pack]
    | cons _ _ => simp at hl
  | cons newb nw ih =>
    intro old_iter x y z bits nbits off hl hw hb
    cases old_iter with
    | nil => simp at hl
    | cons oldb old =>
      have hn64 := mod_lt_64 bits oldb (hw oldb (by simp))
      simp only [Gen.tiny_insert_64_loop2, unpack, shiftRest, and_mask_64, Nat.shiftRight_eq_div_pow, log_2_64_eq _ hn64]
      by_cases hfit : TinyC.log2 (bits % 2 ^ oldb) > newb
      · simp [hfit]
      · have hlt : bits % 2 ^ oldb < 2 ^ newb := lt_of_log2_le (e := _) (show SC.log2 (bits % 2 ^ oldb) ≤ newb from Nat.le_of_not_gt hfit)
        simp only [hfit, if_false, or_shift_eq_add nbits _ off hb]
        rw [ih old _ _ _ _ _ _ (by simpa using hl) (fun w h => hw w (by simp [h])) (bound_step hb hlt),
          shiftRest_acc nw _ ([] ++ [bits % 2 ^ oldb])]
        cases shiftRest nw (unpack old (bits / 2 ^ oldb)) [] with
        | none => rfl
        | some r => simp [pack, add_pack_step]

/-- what the main loop returns, read off the model's `go` -/
def goOut (sz bk nsz nbits off : Nat) (nw : List Nat) : Res → Option (Nat × Nat)
  | .same => some (sz, bk)
  | .none => none
  | .new r => some (nsz, nbits + 2 ^ off * pack nw r)

theorem goOut_pre (sz bk nsz nbits off newb n : Nat) (nw : List Nat) (hb : nbits < 2 ^ off) (R : Res) :
    goOut sz bk nsz nbits off (newb :: nw) (R.pre ([] ++ [n])) = goOut sz bk nsz (nbits + 2 ^ off * n) (off + newb) nw R := by
  cases R <;> simp [Res.pre, goOut, pack, add_pack_step]

/-- the main loop (`while let Some(newb) = new_iter.next()`, with the old row's iterator alongside) -/
theorem insert_loop1_64 (sz nsz bk : Nat) (ob nb : List Nat) : ∀ (new_iter old_iter : List Nat) (bits e nbits off : Nat),
    new_iter.length = old_iter.length + 1 → (∀ w ∈ old_iter, w ≤ 64) → nbits < 2 ^ off → e < 2 ^ 64 →
    Gen.tiny_insert_64_loop1 sz ob nb nsz bk new_iter bits e nbits off old_iter =
      .ok (goOut sz bk nsz nbits off new_iter (go new_iter (unpack old_iter bits) e [])) := by
  intro new_iter
  induction new_iter with
  | nil => intro old_iter bits e nbits off hl; simp at hl
  | cons newb nw ih =>
    intro old_iter bits e nbits off hl hw hb he
    cases old_iter with
    | nil =>
      have hnw : nw = [] := by cases nw with | nil => rfl | cons _ _ => simp at hl
      subst hnw
      simp only [Gen.tiny_insert_64_loop1, unpack, go, log_2_64_eq e he]
      by_cases hfit : TinyC.log2 e > newb
      · simp [hfit, goOut]
      · have hlt : e < 2 ^ newb := lt_of_log2_le (e := _) (show SC.log2 e ≤ newb from Nat.le_of_not_gt hfit)
        simp [hfit, goOut, pack, or_shift_eq_add nbits _ off hb]
    | cons oldb old =>
      have hn64 := mod_lt_64 bits oldb (hw oldb (by simp))
      have hl' : nw.length = old.length + 1 := by simpa using hl
      have hw' : ∀ w ∈ old, w ≤ 64 := fun w h => hw w (by simp [h])
      simp only [Gen.tiny_insert_64_loop1, unpack, and_mask_64, Nat.shiftRight_eq_div_pow, log_2_64_eq _ hn64]
      rw [go_cons]
      generalize hn : bits % 2 ^ oldb = n at hn64 ⊢
      by_cases h1 : e = n
      · simp [h1, goOut]
      · simp only [h1, if_false]
        by_cases h2 : TinyC.log2 n > newb
        · simp only [h2, if_true]
          by_cases h3 : e < n
          · simp [h3, goOut]
          · simp only [h3, if_false, insert_loop3_64]
            cases searchRest (unpack old (bits / 2 ^ oldb)) (e - (n + 1)) <;> simp [goOut]
        · have hnlt : n < 2 ^ newb := lt_of_log2_le (e := _) (show SC.log2 n ≤ newb from Nat.le_of_not_gt h2)
          simp only [h2, if_false]
          by_cases h3 : e < n
          · simp only [h3, if_true]
            cases nw with
            | nil => simp at hl'
            | cons newb2 nw' =>
              have hx64 : n - e - 1 < 2 ^ 64 := by omega
              simp only [log_2_64_eq _ hx64]
              by_cases h4 : TinyC.log2 (n - e - 1) > newb2
              · simp [h4, goOut]
              · have hxlt : n - e - 1 < 2 ^ newb2 :=
                  lt_of_log2_le (e := _) (show SC.log2 (n - e - 1) ≤ newb2 from Nat.le_of_not_gt h4)
                have helt : e < 2 ^ newb := by omega
                have hb1 := bound_step hb helt
                have hb2 := bound_step hb1 hxlt
                simp only [h4, if_false, or_shift_eq_add nbits _ off hb, or_shift_eq_add _ _ (off + newb) hb1]
                rw [insert_loop2_64 sz e nsz bk ob nb nw' old _ _ _ _ _ _ (by simpa using hl') hw' hb2,
                  shiftRest_acc nw' _ ([] ++ [e, n - e - 1])]
                cases shiftRest nw' (unpack old (bits / 2 ^ oldb)) [] with
                | none => simp [goOut]
                | some r =>
                  simp only [Option.map_some, goOut, List.nil_append, List.cons_append, pack]
                  rw [add_pack_step, add_pack_step]
          · simp only [h3, if_false, or_shift_eq_add nbits _ off hb]
            rw [ih old _ _ _ _ hl' hw' (bound_step hb hnlt) (by omega), go_acc nw _ _ ([] ++ [n]),
              goOut_pre sz bk nsz nbits off newb n nw hb]

theorem widths_le_64 : ∀ n, n ≤ 7 → ∀ w ∈ widths codec64 n, w ≤ 64 := by
  intro n h
  have : n = 0 ∨ n = 1 ∨ n = 2 ∨ n = 3 ∨ n = 4 ∨ n = 5 ∨ n = 6 ∨ n = 7 := by omega
  rcases this with h | h | h | h | h | h | h | h <;> subst h <;> decide

/-- **`Tiny::insert` of `setu64.rs` is the model's inline `insert`**: on the word of any well-formed inline set and for
every `u64` element it never panics (no `unwrap` on `None`) and returns — "already there", "does not fit", or the
re-packed word — exactly what `TinyC.insert` returns -/
theorem tiny_insert_64_eq (t : T) (wf : WF cfg64 (.stack t)) (e : Nat) (he : e < 2 ^ 64) :
    Gen.tiny_insert_64 t.sz t.bits e = .ok ((TinyC.insert codec64 t e).map (fun t => (t.sz, t.bits))) := by
  have hsz : t.sz ≤ 7 := (show StackWF cfg64 t from wf).sz_le
  have hgt : ¬ e > 18446744073709551615 := by omega
  have hlen : Gen.bitsplits64.length = 8 := by decide
  simp only [Gen.tiny_insert_64, hgt, if_false, hlen, TinyC.insert, show codec64.maxN = 7 from rfl]
  by_cases hroom : t.sz + 1 < 8
  · have hroom' : t.sz + 1 ≤ 7 := by omega
    have hwo : List.getD Gen.bitsplits64 t.sz [] = widths codec64 t.sz := by simp only [widths, bitsplits64_match]
    have hwn : List.getD Gen.bitsplits64 (t.sz + 1) [] = widths codec64 (t.sz + 1) := by simp only [widths, bitsplits64_match]
    simp only [hroom, hroom', if_true, hwo, hwn]
    rw [insert_loop1_64 t.sz (t.sz + 1) t.bits _ _ _ _ _ _ _ _
      (by rw [widths_len_64 _ hroom', widths_len_64 _ hsz]) (widths_le_64 _ hsz) (by simp) he]
    simp only [T.fields]
    cases go (widths codec64 (t.sz + 1)) (unpack (widths codec64 t.sz) t.bits) e [] <;> simp [goOut]
  · have hroom' : ¬ t.sz + 1 ≤ 7 := by omega
    simp only [hroom, hroom', if_false, Gen.tiny_any_64, tinyDrain64_eq_members t wf]
    cases (t.members codec64).contains e <;> simp

/-! ### `setu32.rs` -/

theorem and_mask_32 (bits w : Nat) : bits &&& Gen.mask_32 w = bits % 2 ^ w := by
  rw [mask_32_eq, Nat.and_two_pow_sub_one_eq_mod]

theorem mod_lt_32 (bits w : Nat) (hw : w ≤ 32) : bits % 2 ^ w < 2 ^ 32 :=
  Nat.lt_of_lt_of_le (Nat.mod_lt _ (Nat.two_pow_pos w)) (Nat.pow_le_pow_right (by omega) hw)

/-- the search through the rest of the old word (`for oldb in old_iter`) -/
theorem insert_loop3_32 (sz nbs nsz bk off : Nat) (ob nb ni : List Nat) : ∀ (old_iter : List Nat) (x y z bits e : Nat),
    Gen.tiny_insert_32_loop3 sz ob nb nbs nsz bk off ni x y z old_iter bits e =
      .ok (if searchRest (unpack old_iter bits) e then some (sz, bk) else none) := by
  intro old_iter
  induction old_iter with
  | nil => intro x y z bits e; simp [Gen.tiny_insert_32_loop3, unpack, searchRest]
  | cons oldb old ih =>
    intro x y z bits e
    simp only [Gen.tiny_insert_32_loop3, unpack, searchRest, and_mask_32, Nat.shiftRight_eq_div_pow]
    by_cases h1 : bits % 2 ^ oldb = e
    · simp [h1]
    · simp only [h1, if_false]
      by_cases h2 : e < bits % 2 ^ oldb
      · simp [h2]
      · simp only [h2, if_false]
        exact ih _ _ _ _ _

/-- copying the rest of the old word into the new one (`for newb in new_iter`, `old_iter.next().unwrap()`) -/
theorem insert_loop2_32 (sz e nsz bk : Nat) (ob nb : List Nat) : ∀ (new_iter old_iter : List Nat) (x y z bits nbits off : Nat),
    new_iter.length = old_iter.length → (∀ w ∈ old_iter, w ≤ 32) → nbits < 2 ^ off →
    Gen.tiny_insert_32_loop2 sz e ob nb nsz bk x y z new_iter bits nbits off old_iter =
      .ok ((shiftRest new_iter (unpack old_iter bits) []).map (fun r => (nsz, nbits + 2 ^ off * pack new_iter r))) := by
  intro new_iter
  induction new_iter with
  | nil =>
    intro old_iter x y z bits nbits off hl _ _
    cases old_iter with
    | nil => simp [Gen.tiny_insert_32_loop2, unpack, shiftRest, pack]
    | cons _ _ => simp at hl
  | cons newb nw ih =>
    intro old_iter x y z bits nbits off hl hw hb
    cases old_iter with
    | nil => simp at hl
    | cons oldb old =>
      have hn32 := mod_lt_32 bits oldb (hw oldb (by simp))
      have hm : bits % 2 ^ oldb % 4294967296 = bits % 2 ^ oldb := Nat.mod_eq_of_lt hn32
      simp only [Gen.tiny_insert_32_loop2, unpack, shiftRest, and_mask_32, Nat.shiftRight_eq_div_pow, hm, log_2_32_eq _ hn32]
      by_cases hfit : TinyC.log2 (bits % 2 ^ oldb) > newb
      · simp [hfit]
      · have hlt : bits % 2 ^ oldb < 2 ^ newb := lt_of_log2_le (e := _) (show SC.log2 (bits % 2 ^ oldb) ≤ newb from Nat.le_of_not_gt hfit)
        simp only [hfit, if_false, or_shift_eq_add nbits _ off hb]
        rw [ih old _ _ _ _ _ _ (by simpa using hl) (fun w h => hw w (by simp [h])) (bound_step hb hlt),
          shiftRest_acc nw _ ([] ++ [bits % 2 ^ oldb])]
        cases shiftRest nw (unpack old (bits / 2 ^ oldb)) [] with
        | none => rfl
        | some r => simp [pack, add_pack_step]

/-- the main loop (`while let Some(newb) = new_iter.next()`, with the old row's iterator alongside) -/
theorem insert_loop1_32 (sz nsz bk : Nat) (ob nb : List Nat) : ∀ (new_iter old_iter : List Nat) (bits e nbits off : Nat),
    new_iter.length = old_iter.length + 1 → (∀ w ∈ old_iter, w ≤ 32) → nbits < 2 ^ off → e < 2 ^ 32 →
    Gen.tiny_insert_32_loop1 sz ob nb nsz bk new_iter bits e nbits off old_iter =
      .ok (goOut sz bk nsz nbits off new_iter (go new_iter (unpack old_iter bits) e [])) := by
  intro new_iter
  induction new_iter with
  | nil => intro old_iter bits e nbits off hl; simp at hl
  | cons newb nw ih =>
    intro old_iter bits e nbits off hl hw hb he
    cases old_iter with
    | nil =>
      have hnw : nw = [] := by cases nw with | nil => rfl | cons _ _ => simp at hl
      subst hnw
      have hme : e % 4294967296 = e := Nat.mod_eq_of_lt he
      simp only [Gen.tiny_insert_32_loop1, unpack, go, hme, log_2_32_eq e he]
      by_cases hfit : TinyC.log2 e > newb
      · simp [hfit, goOut]
      · have hlt : e < 2 ^ newb := lt_of_log2_le (e := _) (show SC.log2 e ≤ newb from Nat.le_of_not_gt hfit)
        simp [hfit, goOut, pack, or_shift_eq_add nbits _ off hb]
    | cons oldb old =>
      have hn32 := mod_lt_32 bits oldb (hw oldb (by simp))
      have hl' : nw.length = old.length + 1 := by simpa using hl
      have hw' : ∀ w ∈ old, w ≤ 32 := fun w h => hw w (by simp [h])
      have hm : bits % 2 ^ oldb % 4294967296 = bits % 2 ^ oldb := Nat.mod_eq_of_lt hn32
      simp only [Gen.tiny_insert_32_loop1, unpack, and_mask_32, Nat.shiftRight_eq_div_pow, hm, log_2_32_eq _ hn32]
      rw [go_cons]
      generalize hn : bits % 2 ^ oldb = n at hn32 ⊢
      by_cases h1 : e = n
      · simp [h1, goOut]
      · simp only [h1, if_false]
        by_cases h2 : TinyC.log2 n > newb
        · simp only [h2, if_true]
          by_cases h3 : e < n
          · simp [h3, goOut]
          · simp only [h3, if_false, insert_loop3_32]
            cases searchRest (unpack old (bits / 2 ^ oldb)) (e - (n + 1)) <;> simp [goOut]
        · have hnlt : n < 2 ^ newb := lt_of_log2_le (e := _) (show SC.log2 n ≤ newb from Nat.le_of_not_gt h2)
          simp only [h2, if_false]
          by_cases h3 : e < n
          · simp only [h3, if_true]
            cases nw with
            | nil => simp at hl'
            | cons newb2 nw' =>
              have hx32 : n - e - 1 < 2 ^ 32 := by omega
              have hmx : (n - e - 1) % 4294967296 = n - e - 1 := Nat.mod_eq_of_lt hx32
              simp only [hmx, log_2_32_eq _ hx32]
              by_cases h4 : TinyC.log2 (n - e - 1) > newb2
              · simp [h4, goOut]
              · have hxlt : n - e - 1 < 2 ^ newb2 :=
                  lt_of_log2_le (e := _) (show SC.log2 (n - e - 1) ≤ newb2 from Nat.le_of_not_gt h4)
                have helt : e < 2 ^ newb := by omega
                have hb1 := bound_step hb helt
                have hb2 := bound_step hb1 hxlt
                simp only [h4, if_false, or_shift_eq_add nbits _ off hb, or_shift_eq_add _ _ (off + newb) hb1]
                rw [insert_loop2_32 sz e nsz bk ob nb nw' old _ _ _ _ _ _ (by simpa using hl') hw' hb2,
                  shiftRest_acc nw' _ ([] ++ [e, n - e - 1])]
                cases shiftRest nw' (unpack old (bits / 2 ^ oldb)) [] with
                | none => simp [goOut]
                | some r =>
                  simp only [Option.map_some, goOut, List.nil_append, List.cons_append, pack]
                  rw [add_pack_step, add_pack_step]
          · simp only [h3, if_false, or_shift_eq_add nbits _ off hb]
            rw [ih old _ _ _ _ hl' hw' (bound_step hb hnlt) (by omega), go_acc nw _ _ ([] ++ [n]),
              goOut_pre sz bk nsz nbits off newb n nw hb]

theorem widths_le_32 : ∀ n, n ≤ 6 → ∀ w ∈ widths codec32 n, w ≤ 32 := by
  intro n h
  have : n = 0 ∨ n = 1 ∨ n = 2 ∨ n = 3 ∨ n = 4 ∨ n = 5 ∨ n = 6 := by omega
  rcases this with h | h | h | h | h | h | h <;> subst h <;> decide

/-- **`Tiny::insert` of `setu32.rs` is the model's inline `insert`**: on the word of any well-formed inline set and for
every `u32` element it never panics (no `unwrap` on `None`) and returns — "already there", "does not fit", or the
re-packed word — exactly what `TinyC.insert` returns -/
theorem tiny_insert_32_eq (t : T) (wf : WF cfg32 (.stack t)) (e : Nat) (he : e < 2 ^ 32) :
    Gen.tiny_insert_32 t.sz t.bits e = .ok ((TinyC.insert codec32 t e).map (fun t => (t.sz, t.bits))) := by
  have hsz : t.sz ≤ 6 := (show StackWF cfg32 t from wf).sz_le
  have hlen : Gen.bitsplits32.length = 7 := by decide
  simp only [Gen.tiny_insert_32, hlen, TinyC.insert, show codec32.maxN = 6 from rfl]
  by_cases hroom : t.sz + 1 < 7
  · have hroom' : t.sz + 1 ≤ 6 := by omega
    have hwo : List.getD Gen.bitsplits32 t.sz [] = widths codec32 t.sz := by simp only [widths, bitsplits32_match]
    have hwn : List.getD Gen.bitsplits32 (t.sz + 1) [] = widths codec32 (t.sz + 1) := by simp only [widths, bitsplits32_match]
    simp only [hroom, hroom', if_true, hwo, hwn]
    rw [insert_loop1_32 t.sz (t.sz + 1) t.bits _ _ _ _ _ _ _ _
      (by rw [widths_len_32 _ hroom', widths_len_32 _ hsz]) (widths_le_32 _ hsz) (by simp) he]
    simp only [T.fields]
    cases go (widths codec32 (t.sz + 1)) (unpack (widths codec32 t.sz) t.bits) e [] <;> simp [goOut]
  · have hroom' : ¬ t.sz + 1 ≤ 6 := by omega
    simp only [hroom, hroom', if_false, Gen.tiny_any_32, tinyDrain32_eq_members t wf]
    cases (t.members codec32).contains e <;> simp

/-! ### the `Empty` and `Stack` arms of `insert`, up to the point where the set has to leave the word -/

theorem insert_sz (c : Codec) (t t' : T) (e : Nat) (h : TinyC.insert c t e = some t') : t'.sz = t.sz ∨ t'.sz = t.sz + 1 := by
  simp only [TinyC.insert] at h
  split at h
  · split at h
    · cases h; exact Or.inl rfl
    · cases h
    · cases h; exact Or.inr rfl
  · split at h
    · cases h; exact Or.inl rfl
    · cases h

theorem insert_stack_64_eq {D : Type} (g : Rng D) (fuel : Nat) (t : T) (wf : WF cfg64 (.stack t)) (e : Nat) (he : e < 2 ^ 64)
    (d : D) (w : Nat) (b : Bool) (h : Gen.insert_stack_64 t.sz t.bits e = .ok (some (w, b))) :
    ∃ t', insert cfg64 g (fuel + 1) (.stack t) e d = .ok ((.stack t', b), d) ∧ toWord codec64 t' = w := by
  simp only [Gen.insert_stack_64, tiny_insert_64_eq t wf e he, Except.map] at h
  cases hti : TinyC.insert codec64 t e with
  | none => simp [hti] at h
  | some t' =>
    simp only [hti, Option.map_some, Except.ok.injEq, Option.some.injEq, Prod.mk.injEq] at h
    refine ⟨t', ?_, ?_⟩
    · simp only [insert, insertStep, show cfg64.codec = codec64 from rfl, hti]
      rw [← h.2]
      simp only [pure, StateT.pure, Except.pure]
      by_cases hq : t'.sz = t.sz <;> simp [hq]
    · rw [← h.1]; rfl

theorem insert_stack_32_eq {D : Type} (g : Rng D) (fuel : Nat) (t : T) (wf : WF cfg32 (.stack t)) (e : Nat) (he : e < 2 ^ 32)
    (d : D) (w : Nat) (b : Bool) (h : Gen.insert_stack_32 t.sz t.bits e = .ok (some (w, b))) :
    ∃ t', insert cfg32 g (fuel + 1) (.stack t) e d = .ok ((.stack t', b), d) ∧ toWord codec32 t' = w := by
  simp only [Gen.insert_stack_32, tiny_insert_32_eq t wf e he, Except.map] at h
  cases hti : TinyC.insert codec32 t e with
  | none => simp [hti] at h
  | some t' =>
    simp only [hti, Option.map_some, Except.ok.injEq, Option.some.injEq, Prod.mk.injEq] at h
    have hsz : t.sz ≤ 6 := (show StackWF cfg32 t from wf).sz_le
    have := insert_sz codec32 t t' e hti
    refine ⟨t', ?_, ?_⟩
    · simp only [insert, insertStep, show cfg32.codec = codec32 from rfl, hti]
      rw [← h.2]
      simp only [pure, StateT.pure, Except.pure]
      by_cases hq : t'.sz = t.sz <;> simp [hq]
    · rw [← h.1]; exact (tiny_to_usize_32_eq t' (by omega)).symm

theorem insert_empty_64_eq {D : Type} (g : Rng D) (fuel : Nat) (e : Nat) (he : e < 2 ^ 64) (d : D) (w : Nat) (b : Bool)
    (h : Gen.insert_empty_64 e = some (w, b)) :
    ∃ t', insert cfg64 g (fuel + 1) .empty e d = .ok ((.stack t', b), d) ∧ toWord codec64 t' = w := by
  simp only [Gen.insert_empty_64, tiny_from_singleton_64_eq e he] at h
  cases hn : newSortedDeduped codec64 [e] with
  | none => simp [hn] at h
  | some t' =>
    simp only [hn, Option.map_some, Option.some.injEq, Prod.mk.injEq] at h
    refine ⟨t', ?_, ?_⟩
    · simp only [insert, insertStep, show cfg64.codec = codec64 from rfl, hn]
      rw [← h.2]; rfl
    · rw [← h.1]; rfl

theorem insert_empty_32_eq {D : Type} (g : Rng D) (fuel : Nat) (e : Nat) (he : e < 2 ^ 32) (d : D) (w : Nat) (b : Bool)
    (h : Gen.insert_empty_32 e = some (w, b)) :
    ∃ t', insert cfg32 g (fuel + 1) .empty e d = .ok ((.stack t', b), d) ∧ toWord codec32 t' = w := by
  simp only [Gen.insert_empty_32, tiny_from_singleton_32_eq e he] at h
  cases hn : newSortedDeduped codec32 [e] with
  | none => simp [hn] at h
  | some t' =>
    simp only [hn, Option.map_some, Option.some.injEq, Prod.mk.injEq] at h
    have hsz : t'.sz = 1 := by
      simp only [newSortedDeduped] at hn
      split at hn
      · cases hn
      · split at hn
        · cases hn; rfl
        · cases hn
    refine ⟨t', ?_, ?_⟩
    · simp only [insert, insertStep, show cfg32.codec = codec32 from rfl, hn]
      rw [← h.2]; rfl
    · rw [← h.1]; exact (tiny_to_usize_32_eq t' (by omega)).symm


/-! ### the `Stack` arm of `remove` -/

theorem remove_stack_64_eq {D : Type} (g : Rng D) (fuel : Nat) (t : T) (wf : WF cfg64 (.stack t)) (e : Nat) (d : D) :
    remove cfg64 g fuel (.stack t) e d =
      (match Gen.remove_stack_64 t.sz t.bits e with
       | none => .ok ((.stack t, false), d)
       | some none => .ok ((.empty, true), d)
       | some (some v) => (do let r ← fromIterSorted cfg64 g fuel v; pure (r, true) : M D (Rp × Bool)) d) := by
  simp only [remove, Gen.remove_stack_64, Gen.tiny_any_64, tinyDrain64_eq_members t wf, show cfg64.codec = codec64 from rfl]
  by_cases hc : (t.members codec64).contains e = true
  · simp only [hc, if_true]
    by_cases h0 : t.sz - 1 = 0
    · simp only [h0, if_true]; rfl
    · simp only [h0, if_false]
  · simp only [hc, if_false, Bool.false_eq_true]
    rfl

theorem remove_stack_32_eq {D : Type} (g : Rng D) (fuel : Nat) (t : T) (wf : WF cfg32 (.stack t)) (e : Nat) (d : D) :
    remove cfg32 g fuel (.stack t) e d =
      (match Gen.remove_stack_32 t.sz t.bits e with
       | none => .ok ((.stack t, false), d)
       | some none => .ok ((.empty, true), d)
       | some (some v) => (do let r ← fromIterSorted cfg32 g fuel v; pure (r, true) : M D (Rp × Bool)) d) := by
  simp only [remove, Gen.remove_stack_32, Gen.tiny_any_32, tinyDrain32_eq_members t wf, show cfg32.codec = codec32 from rfl]
  by_cases hc : (t.members codec32).contains e = true
  · simp only [hc, if_true]
    by_cases h0 : t.sz - 1 = 0
    · simp only [h0, if_true]; rfl
    · simp only [h0, if_false]
  · simp only [hc, if_false, Bool.false_eq_true]
    rfl


end SC
#print axioms SC.tiny_insert_64_eq
#print axioms SC.tiny_insert_32_eq
#print axioms SC.insert_stack_64_eq
#print axioms SC.insert_empty_32_eq
#print axioms SC.remove_stack_64_eq
#print axioms SC.remove_stack_32_eq
