import TinysetModel.Proofs.TinySrc
/-! The `Heap` and `Dense` arms of `Inner::next` ARE the current source: `Generated/Loops.lean` holds the two arms of
`setu64/iter.rs` and `setu32/iter.rs` translated on every run — a `while let Some(&x) = a.get(self.index)` walk over
buckets (words) around a `while self.whichbit < ..` scan over bits that `return`s from inside (the inner loop is a
function into `Except value state`) —; here: whenever the model's `next` (`nextHeap` / `nextDense`, written with
`findBit`) returns, the translated source returns the same member and leaves the same cursor. -/
namespace SC

theorem and_bit_eq_zero {w off : Nat} (h : w.testBit off = false) : (w &&& (1 <<< off)) = 0 := by
  have := and_bit_ne_zero w off
  rw [h] at this
  simpa using this
theorem and_bit_ne_zero' {w off : Nat} (h : w.testBit off = true) : (w &&& (1 <<< off)) ≠ 0 := by
  have := and_bit_ne_zero w off
  rw [h] at this
  exact of_decide_eq_true this

/-! ### `setu64/iter.rs` -/

theorem heap_inner_64 (a : RH.Tbl) (bits index fuel1 x : Nat) : ∀ (fuel wb szl : Nat),
    (∀ b, findBit x bits fuel wb = some b →
      Gen.iter_next_heap_64_loop2 a bits index fuel1 x fuel wb szl =
        .error (some (Gen.unsplit_64 (x >>> bits) b bits), index, b + 1, szl - 1)) ∧
    (findBit x bits fuel wb = none →
      ∃ w', Gen.iter_next_heap_64_loop2 a bits index fuel1 x fuel wb szl = .ok (w', szl)) := by
  intro fuel
  induction fuel with
  | zero =>
    intro wb szl
    exact ⟨fun b h => (by simp [findBit] at h), fun _ => ⟨wb, rfl⟩⟩
  | succ f ih =>
    intro wb szl
    simp only [findBit, Gen.iter_next_heap_64_loop2]
    by_cases hlt : wb < bits
    · simp only [hlt, if_true]
      by_cases ht : x.testBit wb = true
      · simp only [ht, if_true, and_bit_ne_zero' ht, ne_eq, not_false_eq_true]
        exact ⟨fun b h => (by cases h; rfl), fun h => (by cases h)⟩
      · have hf : x.testBit wb = false := by simpa using ht
        simp only [hf, Bool.false_eq_true, if_false, and_bit_eq_zero hf, ne_eq, not_true_eq_false]
        exact ih (wb + 1) szl
    · simp only [hlt, if_false]
      exact ⟨fun b h => (by cases h), fun _ => ⟨wb, rfl⟩⟩

theorem heap_outer_64 (a : RH.Tbl) : ∀ (fuel : Nat) (k : Cursor) (out : Option Nat) (k' : Cursor), 0 < k.bits →
    nextHeap a fuel k = .ok (out, k') →
    Gen.iter_next_heap_64_loop1 a k.bits fuel k.index k.whichbit k.szLeft = (out, k'.index, k'.whichbit, k'.szLeft) ∧
      k' = { k with index := k'.index, whichbit := k'.whichbit, szLeft := k'.szLeft } := by
  intro fuel
  induction fuel with
  | zero =>
    intro k out k' _ h
    simp only [nextHeap, Except.ok.injEq, Prod.mk.injEq] at h
    obtain ⟨rfl, rfl⟩ := h
    exact ⟨rfl, rfl⟩
  | succ f ih =>
    intro k out k' hb h
    simp only [nextHeap] at h
    simp only [Gen.iter_next_heap_64_loop1, Gen.RI.idx, ← RH.get.eq_1]
    by_cases hi : k.index < a.size
    · simp only [hi, if_true] at h ⊢
      have hin := heap_inner_64 a k.bits k.index f (RH.get a k.index) (k.bits - k.whichbit) k.whichbit k.szLeft
      cases hfb : findBit (RH.get a k.index) k.bits (k.bits - k.whichbit) k.whichbit with
      | some b =>
        rw [hfb] at h
        rw [hin.1 b hfb]
        simp only [decLeft, bind, Except.bind] at h
        by_cases hz : k.szLeft = 0
        · simp [hz] at h
        · simp only [hz, if_false, pure, Except.pure, Except.ok.injEq, Prod.mk.injEq] at h
          obtain ⟨rfl, rfl⟩ := h
          have hu : Gen.unsplit_64 (RH.get a k.index >>> k.bits) b k.bits = (RH.get a k.index >>> k.bits) * k.bits + b := by
            simp [Gen.unsplit_64, hb]
          rw [hu]
          exact ⟨rfl, rfl⟩
      | none =>
        rw [hfb] at h
        obtain ⟨w', hw'⟩ := hin.2 hfb
        rw [hw']
        have := ih { k with index := k.index + 1, whichbit := 0 } out k' hb h
        simp only at this
        refine ⟨this.1, ?_⟩
        rw [this.2]
    · simp only [hi, if_false] at h ⊢
      simp only [Except.ok.injEq, Prod.mk.injEq] at h
      obtain ⟨rfl, rfl⟩ := h
      exact ⟨rfl, rfl⟩

/-- bitmap table: whenever the model's `next` returns (it always does on a well-formed set: C04), the translated
`Heap` arm returns the same member and leaves the same cursor -/
theorem iter_next_heap_64_eq (sz cap bits : Nat) (a : RH.Tbl) (hb : 0 < bits ∧ bits < 64) (k : Cursor) (out : Option Nat)
    (k' : Cursor) (h : next cfg64 (.heap sz cap bits a) k = .ok (out, k')) :
    Gen.iter_next_heap_64 a k.bits k.index k.whichbit k.szLeft = (out, k'.index, k'.whichbit, k'.szLeft) ∧
      k' = { k with index := k'.index, whichbit := k'.whichbit, szLeft := k'.szLeft } := by
  have h1 : isDense cfg64 bits = false := by simp [isDense, cfg64]; omega
  have h2 : isPlain cfg64 bits = false := by simp [isPlain, cfg64]; omega
  simp only [next, h1, h2, Bool.false_eq_true, if_false] at h
  simp only [Gen.iter_next_heap_64]
  by_cases hk : k.bits > 0
  · simp only [hk, if_true] at h ⊢
    exact heap_outer_64 a _ k out k' hk h
  · simp only [hk, if_false, Gen.RI.idx, ← RH.get.eq_1] at h ⊢
    by_cases hi : k.index < a.size
    · simp only [hi, if_true, decLeft, bind, Except.bind] at h ⊢
      by_cases hz : k.szLeft = 0
      · simp [hz] at h
      · simp only [hz, if_false, pure, Except.pure, Except.ok.injEq, Prod.mk.injEq] at h
        obtain ⟨rfl, rfl⟩ := h
        exact ⟨rfl, rfl⟩
    · simp only [hi, if_false] at h ⊢
      simp only [Except.ok.injEq, Prod.mk.injEq] at h
      obtain ⟨rfl, rfl⟩ := h
      exact ⟨rfl, rfl⟩

theorem dense_inner_64 (a : RH.Tbl) (bits index fuel1 x : Nat) : ∀ (fuel wb szl : Nat),
    (∀ b, findBit x 64 fuel wb = some b →
      Gen.iter_next_dense_64_loop2 a bits index fuel1 x fuel wb szl =
        .error (some ((index <<< 6) + b), index, 1 + b, szl - 1)) ∧
    (findBit x 64 fuel wb = none →
      ∃ w', Gen.iter_next_dense_64_loop2 a bits index fuel1 x fuel wb szl = .ok (w', szl)) := by
  intro fuel
  induction fuel with
  | zero =>
    intro wb szl
    exact ⟨fun b h => (by simp [findBit] at h), fun _ => ⟨wb, rfl⟩⟩
  | succ f ih =>
    intro wb szl
    simp only [findBit, Gen.iter_next_dense_64_loop2]
    by_cases hlt : wb < 64
    · simp only [hlt, if_true]
      by_cases ht : x.testBit wb = true
      · simp only [ht, if_true, and_bit_ne_zero' ht, ne_eq, not_false_eq_true]
        exact ⟨fun b h => (by cases h; rfl), fun h => (by cases h)⟩
      · have hf : x.testBit wb = false := by simpa using ht
        simp only [hf, Bool.false_eq_true, if_false, and_bit_eq_zero hf, ne_eq, not_true_eq_false, Nat.add_comm 1 wb]
        exact ih (wb + 1) szl
    · simp only [hlt, if_false]
      exact ⟨fun b h => (by cases h), fun _ => ⟨wb, rfl⟩⟩

theorem dense_outer_64 (a : RH.Tbl) (bits : Nat) : ∀ (fuel : Nat) (k : Cursor) (out : Option Nat) (k' : Cursor),
    nextDense cfg64 a fuel k = .ok (out, k') →
    Gen.iter_next_dense_64_loop1 a bits fuel k.index k.whichbit k.szLeft = (out, k'.index, k'.whichbit, k'.szLeft) ∧
      k' = { k with index := k'.index, whichbit := k'.whichbit, szLeft := k'.szLeft } := by
  intro fuel
  induction fuel with
  | zero =>
    intro k out k' h
    simp only [nextDense, Except.ok.injEq, Prod.mk.injEq] at h
    obtain ⟨rfl, rfl⟩ := h
    exact ⟨rfl, rfl⟩
  | succ f ih =>
    intro k out k' h
    simp only [nextDense, show cfg64.W = 64 from rfl, show cfg64.dShift = 6 from rfl] at h
    simp only [Gen.iter_next_dense_64_loop1, Gen.RI.idx, ← RH.get.eq_1]
    by_cases hi : k.index < a.size
    · simp only [hi, if_true] at h ⊢
      have hin := dense_inner_64 a bits k.index f (RH.get a k.index) (64 - k.whichbit) k.whichbit k.szLeft
      cases hfb : findBit (RH.get a k.index) 64 (64 - k.whichbit) k.whichbit with
      | some b =>
        rw [hfb] at h
        rw [hin.1 b hfb]
        simp only [decLeft, bind, Except.bind] at h
        by_cases hz : k.szLeft = 0
        · simp [hz] at h
        · simp only [hz, if_false, pure, Except.pure, Except.ok.injEq, Prod.mk.injEq] at h
          obtain ⟨rfl, rfl⟩ := h
          rw [Nat.shiftLeft_eq, Nat.add_comm 1 b]
          exact ⟨rfl, rfl⟩
      | none =>
        rw [hfb] at h
        obtain ⟨w', hw'⟩ := hin.2 hfb
        rw [hw']
        have := ih { k with index := k.index + 1, whichbit := 0 } out k' h
        simp only at this
        refine ⟨this.1, ?_⟩
        rw [this.2]
    · simp only [hi, if_false] at h ⊢
      simp only [Except.ok.injEq, Prod.mk.injEq] at h
      obtain ⟨rfl, rfl⟩ := h
      exact ⟨rfl, rfl⟩

/-- dense bitset: the `loop` over words around the scan over the 64 bits of a word -/
theorem iter_next_dense_64_eq (sz cap : Nat) (a : RH.Tbl) (k : Cursor) (out : Option Nat)
    (k' : Cursor) (h : next cfg64 (.heap sz cap 64 a) k = .ok (out, k')) :
    Gen.iter_next_dense_64 a k.bits k.index k.whichbit k.szLeft = (out, k'.index, k'.whichbit, k'.szLeft) ∧
      k' = { k with index := k'.index, whichbit := k'.whichbit, szLeft := k'.szLeft } := by
  have h1 : isDense cfg64 64 = true := by simp [isDense, cfg64]
  simp only [next, h1, if_true] at h
  exact dense_outer_64 a _ _ k out k' h

/-! ### `setu32/iter.rs` -/

theorem heap_inner_32 (a : RH.Tbl) (bits index fuel1 x : Nat) (hbits : bits < 2 ^ 32) : ∀ (fuel wb szl : Nat),
    (∀ b, findBit x bits fuel wb = some b →
      Gen.iter_next_heap_32_loop2 a bits index fuel1 x fuel wb szl =
        .error (some (Gen.unsplit_32 (x >>> bits) b bits), index, b + 1, szl - 1)) ∧
    (findBit x bits fuel wb = none →
      ∃ w', Gen.iter_next_heap_32_loop2 a bits index fuel1 x fuel wb szl = .ok (w', szl)) := by
  have hmod : bits % 4294967296 = bits := Nat.mod_eq_of_lt hbits
  intro fuel
  induction fuel with
  | zero =>
    intro wb szl
    exact ⟨fun b h => (by simp [findBit] at h), fun _ => ⟨wb, rfl⟩⟩
  | succ f ih =>
    intro wb szl
    simp only [findBit, Gen.iter_next_heap_32_loop2, hmod]
    by_cases hlt : wb < bits
    · simp only [hlt, if_true]
      by_cases ht : x.testBit wb = true
      · simp only [ht, if_true, and_bit_ne_zero' ht, ne_eq, not_false_eq_true]
        exact ⟨fun b h => (by cases h; rfl), fun h => (by cases h)⟩
      · have hf : x.testBit wb = false := by simpa using ht
        simp only [hf, Bool.false_eq_true, if_false, and_bit_eq_zero hf, ne_eq, not_true_eq_false]
        exact ih (wb + 1) szl
    · simp only [hlt, if_false]
      exact ⟨fun b h => (by cases h), fun _ => ⟨wb, rfl⟩⟩

theorem heap_outer_32 (a : RH.Tbl) : ∀ (fuel : Nat) (k : Cursor) (out : Option Nat) (k' : Cursor), 0 < k.bits → k.bits < 2 ^ 32 →
    nextHeap a fuel k = .ok (out, k') →
    Gen.iter_next_heap_32_loop1 a k.bits fuel k.index k.whichbit k.szLeft = (out, k'.index, k'.whichbit, k'.szLeft) ∧
      k' = { k with index := k'.index, whichbit := k'.whichbit, szLeft := k'.szLeft } := by
  intro fuel
  induction fuel with
  | zero =>
    intro k out k' _ _ h
    simp only [nextHeap, Except.ok.injEq, Prod.mk.injEq] at h
    obtain ⟨rfl, rfl⟩ := h
    exact ⟨rfl, rfl⟩
  | succ f ih =>
    intro k out k' hb hb32 h
    simp only [nextHeap] at h
    simp only [Gen.iter_next_heap_32_loop1, Gen.RI.idx, ← RH.get.eq_1]
    by_cases hi : k.index < a.size
    · simp only [hi, if_true] at h ⊢
      have hmod : k.bits % 4294967296 = k.bits := Nat.mod_eq_of_lt hb32
      simp only [hmod]
      have hin := heap_inner_32 a k.bits k.index f (RH.get a k.index) hb32 (k.bits - k.whichbit) k.whichbit k.szLeft
      cases hfb : findBit (RH.get a k.index) k.bits (k.bits - k.whichbit) k.whichbit with
      | some b =>
        rw [hfb] at h
        rw [hin.1 b hfb]
        simp only [decLeft, bind, Except.bind] at h
        by_cases hz : k.szLeft = 0
        · simp [hz] at h
        · simp only [hz, if_false, pure, Except.pure, Except.ok.injEq, Prod.mk.injEq] at h
          obtain ⟨rfl, rfl⟩ := h
          have hu : Gen.unsplit_32 (RH.get a k.index >>> k.bits) b k.bits = (RH.get a k.index >>> k.bits) * k.bits + b := by
            simp [Gen.unsplit_32, hb]
          rw [hu]
          exact ⟨rfl, rfl⟩
      | none =>
        rw [hfb] at h
        obtain ⟨w', hw'⟩ := hin.2 hfb
        rw [hw']
        have := ih { k with index := k.index + 1, whichbit := 0 } out k' hb hb32 h
        simp only at this
        refine ⟨this.1, ?_⟩
        rw [this.2]
    · simp only [hi, if_false] at h ⊢
      simp only [Except.ok.injEq, Prod.mk.injEq] at h
      obtain ⟨rfl, rfl⟩ := h
      exact ⟨rfl, rfl⟩

/-- `setu32/iter.rs`, bitmap table (the cursor's `bits` is a `u32`): whenever the model's `next` returns (it always does on a well-formed set: C04), the translated
`Heap` arm returns the same member and leaves the same cursor -/
theorem iter_next_heap_32_eq (sz cap bits : Nat) (a : RH.Tbl) (hb : 0 < bits ∧ bits < 32) (k : Cursor) (hk32 : k.bits < 2 ^ 32)
    (out : Option Nat) (k' : Cursor) (h : next cfg32 (.heap sz cap bits a) k = .ok (out, k')) :
    Gen.iter_next_heap_32 a k.bits k.index k.whichbit k.szLeft = (out, k'.index, k'.whichbit, k'.szLeft) ∧
      k' = { k with index := k'.index, whichbit := k'.whichbit, szLeft := k'.szLeft } := by
  have h1 : isDense cfg32 bits = false := by simp [isDense, cfg32]; omega
  have h2 : isPlain cfg32 bits = false := by simp [isPlain, cfg32]; omega
  simp only [next, h1, h2, Bool.false_eq_true, if_false] at h
  simp only [Gen.iter_next_heap_32]
  by_cases hk : k.bits > 0
  · simp only [hk, if_true] at h ⊢
    exact heap_outer_32 a _ k out k' hk hk32 h
  · simp only [hk, if_false, Gen.RI.idx, ← RH.get.eq_1] at h ⊢
    by_cases hi : k.index < a.size
    · simp only [hi, if_true, decLeft, bind, Except.bind] at h ⊢
      by_cases hz : k.szLeft = 0
      · simp [hz] at h
      · simp only [hz, if_false, pure, Except.pure, Except.ok.injEq, Prod.mk.injEq] at h
        obtain ⟨rfl, rfl⟩ := h
        exact ⟨rfl, rfl⟩
    · simp only [hi, if_false] at h ⊢
      simp only [Except.ok.injEq, Prod.mk.injEq] at h
      obtain ⟨rfl, rfl⟩ := h
      exact ⟨rfl, rfl⟩

theorem dense_inner_32 (a : RH.Tbl) (bits index fuel1 x : Nat) (hidx : index < 2 ^ 32) : ∀ (fuel wb szl : Nat),
    (∀ b, findBit x 32 fuel wb = some b →
      Gen.iter_next_dense_32_loop2 a bits index fuel1 x fuel wb szl =
        .error (some ((index <<< 5) + b), index, 1 + b, szl - 1)) ∧
    (findBit x 32 fuel wb = none →
      ∃ w', Gen.iter_next_dense_32_loop2 a bits index fuel1 x fuel wb szl = .ok (w', szl)) := by
  intro fuel
  induction fuel with
  | zero =>
    intro wb szl
    exact ⟨fun b h => (by simp [findBit] at h), fun _ => ⟨wb, rfl⟩⟩
  | succ f ih =>
    intro wb szl
    simp only [findBit, Gen.iter_next_dense_32_loop2]
    by_cases hlt : wb < 32
    · simp only [hlt, if_true]
      by_cases ht : x.testBit wb = true
      · have hm1 : index % 4294967296 = index := Nat.mod_eq_of_lt hidx
        have hm2 : wb % 4294967296 = wb := Nat.mod_eq_of_lt (by omega)
        simp only [ht, if_true, and_bit_ne_zero' ht, ne_eq, not_false_eq_true, hm1, hm2]
        exact ⟨fun b h => (by cases h; rfl), fun h => (by cases h)⟩
      · have hf : x.testBit wb = false := by simpa using ht
        simp only [hf, Bool.false_eq_true, if_false, and_bit_eq_zero hf, ne_eq, not_true_eq_false, Nat.add_comm 1 wb]
        exact ih (wb + 1) szl
    · simp only [hlt, if_false]
      exact ⟨fun b h => (by cases h), fun _ => ⟨wb, rfl⟩⟩

theorem dense_outer_32 (a : RH.Tbl) (bits : Nat) (hsz : a.size ≤ 2 ^ 27) : ∀ (fuel : Nat) (k : Cursor) (out : Option Nat) (k' : Cursor),
    nextDense cfg32 a fuel k = .ok (out, k') →
    Gen.iter_next_dense_32_loop1 a bits fuel k.index k.whichbit k.szLeft = (out, k'.index, k'.whichbit, k'.szLeft) ∧
      k' = { k with index := k'.index, whichbit := k'.whichbit, szLeft := k'.szLeft } := by
  intro fuel
  induction fuel with
  | zero =>
    intro k out k' h
    simp only [nextDense, Except.ok.injEq, Prod.mk.injEq] at h
    obtain ⟨rfl, rfl⟩ := h
    exact ⟨rfl, rfl⟩
  | succ f ih =>
    intro k out k' h
    simp only [nextDense, show cfg32.W = 32 from rfl, show cfg32.dShift = 5 from rfl] at h
    simp only [Gen.iter_next_dense_32_loop1, Gen.RI.idx, ← RH.get.eq_1]
    by_cases hi : k.index < a.size
    · simp only [hi, if_true] at h ⊢
      have hin := dense_inner_32 a bits k.index f (RH.get a k.index) (by omega) (32 - k.whichbit) k.whichbit k.szLeft
      cases hfb : findBit (RH.get a k.index) 32 (32 - k.whichbit) k.whichbit with
      | some b =>
        rw [hfb] at h
        rw [hin.1 b hfb]
        simp only [decLeft, bind, Except.bind] at h
        by_cases hz : k.szLeft = 0
        · simp [hz] at h
        · simp only [hz, if_false, pure, Except.pure, Except.ok.injEq, Prod.mk.injEq] at h
          obtain ⟨rfl, rfl⟩ := h
          rw [Nat.shiftLeft_eq, Nat.add_comm 1 b]
          exact ⟨rfl, rfl⟩
      | none =>
        rw [hfb] at h
        obtain ⟨w', hw'⟩ := hin.2 hfb
        rw [hw']
        have := ih { k with index := k.index + 1, whichbit := 0 } out k' h
        simp only at this
        refine ⟨this.1, ?_⟩
        rw [this.2]
    · simp only [hi, if_false] at h ⊢
      simp only [Except.ok.injEq, Prod.mk.injEq] at h
      obtain ⟨rfl, rfl⟩ := h
      exact ⟨rfl, rfl⟩

/-- `setu32/iter.rs`, dense bitset (at most 2^27 words: members are `u32`, and `(index as u32) << 5` shifts nothing
out): the `loop` over words around the scan over the 32 bits of a word -/
theorem iter_next_dense_32_eq (sz cap : Nat) (a : RH.Tbl) (hsz : a.size ≤ 2 ^ 27) (k : Cursor) (out : Option Nat)
    (k' : Cursor) (h : next cfg32 (.heap sz cap 32 a) k = .ok (out, k')) :
    Gen.iter_next_dense_32 a k.bits k.index k.whichbit k.szLeft = (out, k'.index, k'.whichbit, k'.szLeft) ∧
      k' = { k with index := k'.index, whichbit := k'.whichbit, szLeft := k'.szLeft } := by
  have h1 : isDense cfg32 32 = true := by simp [isDense, cfg32]
  simp only [next, h1, if_true] at h
  exact dense_outer_32 a _ hsz _ k out k' h

end SC
#print axioms SC.iter_next_heap_64_eq
#print axioms SC.iter_next_dense_64_eq
#print axioms SC.iter_next_heap_32_eq
#print axioms SC.iter_next_dense_32_eq
