import TinysetModel.Proofs.CoreInst
import TinysetModel.Proofs.OpsSpec
import TinysetModel.Proofs.IterSpec
/-! Small corollaries of the assembled refinement used by the per-property files
(`TinysetModel/Properties/Cxx.lean`), so that those files contain one-line proofs only. -/
namespace SC
open RH

variable {c : Cfg} {D : Type}

/-! ### `eraseDups`: the "number of distinct items" of a sequence -/

theorem nodup_eraseDups_aux : ∀ (k : Nat) (l : List Nat), l.length ≤ k → l.eraseDups.Nodup
  | _, [], _ => by simp
  | 0, _ :: _, h => by simp at h
  | k + 1, a :: as, h => by
    rw [List.eraseDups_cons, List.nodup_cons]
    have hlen : (as.filter fun b => !b == a).length ≤ k := by
      have := List.length_filter_le (fun b => !b == a) as
      simp only [List.length_cons] at h
      omega
    refine ⟨fun hx => ?_, nodup_eraseDups_aux k _ hlen⟩
    rw [List.mem_eraseDups, List.mem_filter] at hx
    simp at hx

/-- `eraseDups` has no duplicates (and, by `List.mem_eraseDups`, the same members): its length is the
number of distinct items -/
theorem nodup_eraseDups (l : List Nat) : l.eraseDups.Nodup := nodup_eraseDups_aux _ l (Nat.le_refl _)

/-- `len` of a well-formed value whose members are the items of `xs` is the number of distinct items of `xs` -/
theorem len_eq_distinct (ok : CfgOK c) {r : Rp} (wf : WF c r) {xs : List Nat}
    (h : ∀ x, x ∈ elems c r ↔ x ∈ xs) : len r = xs.eraseDups.length := by
  have ab := absOK_of_wf ok wf
  rw [ab.len]
  exact ((List.perm_ext_iff_of_nodup ab.nodup (nodup_eraseDups xs)).2
    (fun x => by rw [h, List.mem_eraseDups])).length_eq

/-- `sortDedup` computed: it is THE strictly increasing list with the members of its argument
(`Array.qsort` does not reduce in the kernel, so concrete instances are obtained through this lemma) -/
theorem sortDedup_eq {l v : List Nat} (hv : v.Pairwise (· < ·)) (hm : ∀ x, x ∈ v ↔ x ∈ l) : sortDedup l = v := by
  obtain ⟨s1, s2⟩ := sortDedup_spec l
  have p : (sortDedup l).Perm v :=
    (List.perm_ext_iff_of_nodup (pairwise_lt_nodup s1) (pairwise_lt_nodup hv)).2 (fun x => by rw [s2, hm])
  exact List.Perm.eq_of_pairwise (le := (· < ·)) (fun x y _ _ h1 h2 => by omega) s1 hv p

/-! ### C05: `collect` / `extend` at full strength -/

/-- `collect()`: whenever it returns, the result is well formed, has exactly the items of the input as members,
iterates without duplicates and `len` is the number of distinct items -/
theorem fromIter_spec (ok : CfgOK c) (g : Rng D) (fuel : Nat) {xs : List Nat} (hx : ∀ x ∈ xs, x < 2 ^ c.W)
    {d d' : D} {r : Rp} (h : fromIter c g fuel xs d = .ok (r, d')) :
    WF c r ∧ (∀ x, x ∈ elems c r ↔ x ∈ xs) ∧ (elems c r).Nodup ∧ len r = xs.eraseDups.length := by
  obtain ⟨w, m⟩ := fromIter_ok ok g fuel (insert_refines ok g fuel) xs hx d d' r h
  exact ⟨w, m, (absOK_of_wf ok w).nodup, len_eq_distinct ok w m⟩

/-- `extend()`: whenever it returns, the result is well formed, its members are the old members plus the items,
it iterates without duplicates and `len` is the number of distinct values among old members and items -/
theorem extend_spec (ok : CfgOK c) (g : Rng D) (fuel : Nat) {r r' : Rp} {xs : List Nat} {d d' : D}
    (wf : WF c r) (hx : ∀ x ∈ xs, x < 2 ^ c.W) (h : extend c g fuel r xs d = .ok (r', d')) :
    WF c r' ∧ (∀ x, x ∈ elems c r' ↔ (x ∈ elems c r ∨ x ∈ xs)) ∧ (elems c r').Nodup ∧
      len r' = (elems c r ++ xs).eraseDups.length := by
  obtain ⟨w, m⟩ := extend_ok (coreOK ok g fuel) wf hx h
  exact ⟨w, m, (absOK_of_wf ok w).nodup,
    len_eq_distinct ok w (fun x => by rw [m, List.mem_append])⟩

/-- `extend` IS the insert loop (`Set64::from_iter`, `SetUsize::from_iter`, every `Extend` impl) -/
theorem extend_eq_insertAll (c : Cfg) (g : Rng D) (fuel : Nat) (r : Rp) (xs : List Nat) :
    extend c g fuel r xs = insertAll (insert c g fuel) r xs := rfl

/-- the insert loop from `new()` (collect of the typed wrappers) -/
theorem collect_loop_spec (ok : CfgOK c) (g : Rng D) (fuel : Nat) {xs : List Nat} (hx : ∀ x ∈ xs, x < 2 ^ c.W)
    {d d' : D} {r : Rp} (h : extend c g fuel .empty xs d = .ok (r, d')) :
    WF c r ∧ (∀ x, x ∈ elems c r ↔ x ∈ xs) ∧ (elems c r).Nodup ∧ len r = xs.eraseDups.length := by
  obtain ⟨w, m⟩ := de_ok (coreOK ok g fuel) hx h
  exact ⟨w, m, (absOK_of_wf ok w).nodup, len_eq_distinct ok w m⟩

/-! ### C06: the header capacity is the allocated capacity -/

/-- in every heap layout the `cap` field of the header is the length of the bucket array, and it is positive -/
theorem heap_cap_of_wf (ok : CfgOK c) {sz cap bits : Nat} {a : Tbl} (wf : WF c (.heap sz cap bits a)) :
    cap = a.size ∧ 0 < cap := by
  refine ⟨?_, (heap_shape_of_wf ok wf).1⟩
  rcases WF_heap_cases wf with ⟨_, dw⟩ | ⟨hd, hp⟩ | ⟨_, _, bw⟩
  · exact dw.cap_eq
  · exact ((wf_plain_iff hp hd).1 wf).2.1
  · exact bw.cap_eq

/-- the layout recomputed from the header (`bytes_for_capacity(cap)`: what `dealloc`, `clone` and the slice
constructors use) is the layout of the words actually held -/
theorem blockBytes_of_wf (ok : CfgOK c) {sz cap bits : Nat} {a : Tbl} (wf : WF c (.heap sz cap bits a)) :
    blockBytes c (.heap sz cap bits a) = a.size * elemBytes c + headerBytes c := by
  rw [← (heap_cap_of_wf ok wf).1]
  rfl

/-- header capacity after any returning `insert` -/
theorem insert_heap_cap (ok : CfgOK c) (g : Rng D) (fuel : Nat) {r : Rp} (wf : WF c r) (e : Nat) (he : e < 2 ^ c.W)
    {d d' : D} {sz cap bits : Nat} {a : Tbl} {b : Bool}
    (h : insert c g fuel r e d = .ok ((.heap sz cap bits a, b), d')) : cap = a.size ∧ 0 < cap :=
  heap_cap_of_wf ok (insert_refines ok g fuel r e d _ b d' wf he h).wf

/-- header capacity after any returning `remove` -/
theorem remove_heap_cap (ok : CfgOK c) (g : Rng D) (fuel : Nat) {r : Rp} (wf : WF c r) (e : Nat) (he : e < 2 ^ c.W)
    {d d' : D} {sz cap bits : Nat} {a : Tbl} {b : Bool}
    (h : remove c g fuel r e d = .ok ((.heap sz cap bits a, b), d')) : cap = a.size ∧ 0 < cap :=
  heap_cap_of_wf ok (remove_refines ok g fuel wf e he h).wf

/-- header capacity at the end of any returning history -/
theorem run_heap_cap (ok : CfgOK c) (g : Rng D) (fuel : Nat) (ops : List Op) (hops : ∀ op ∈ ops, op.InRange c.W)
    {r : Rp} (wf : WF c r) {d d' : D} {sz cap bits : Nat} {a : Tbl} {outs : List Out}
    (h : runOps c g fuel r ops d = .ok ((.heap sz cap bits a, outs), d')) : cap = a.size ∧ 0 < cap :=
  heap_cap_of_wf ok (run_refines ok g fuel ops hops wf (elems c r) (absOK_of_wf ok wf).nodup (fun _ => Iff.rfl) h).1

/-! ### histories from an arbitrary well-formed start -/

/-- a history on a well-formed value answers like the ideal set that starts with the members of that value -/
theorem run_refines_self (ok : CfgOK c) (g : Rng D) (fuel : Nat) (ops : List Op) (hops : ∀ op ∈ ops, op.InRange c.W)
    {r : Rp} (wf : WF c r) {d d' : D} {r' : Rp} {outs : List Out}
    (h : runOps c g fuel r ops d = .ok ((r', outs), d')) :
    WF c r' ∧ outs = (specRun (elems c r) ops).2 ∧ (∀ x, x ∈ elems c r' ↔ x ∈ (specRun (elems c r) ops).1) :=
  run_refines ok g fuel ops hops wf (elems c r) (absOK_of_wf ok wf).nodup (fun _ => Iff.rfl) h

/-- a history on a well-formed value WITHOUT members answers like the ideal set that starts empty, i.e. like a
history on `new()` -/
theorem run_refines_of_empty (ok : CfgOK c) (g : Rng D) (fuel : Nat) (ops : List Op) (hops : ∀ op ∈ ops, op.InRange c.W)
    {r : Rp} (wf : WF c r) (he : elems c r = []) {d d' : D} {r' : Rp} {outs : List Out}
    (h : runOps c g fuel r ops d = .ok ((r', outs), d')) :
    WF c r' ∧ outs = (specRun [] ops).2 ∧ (∀ x, x ∈ elems c r' ↔ x ∈ (specRun [] ops).1) :=
  run_refines ok g fuel ops hops wf [] List.nodup_nil (fun x => by rw [he]) h

/-- … in particular two returning runs of the same history, one from a hinted empty value and one from `new()`,
with any two RNG oracles, states and fuels, give the same answers and sets with the same members and `len` -/
theorem hinted_eq_new (ok : CfgOK c) {D₁ D₂ : Type} (g₁ : Rng D₁) (g₂ : Rng D₂) (fuel₁ fuel₂ : Nat) (ops : List Op)
    (hops : ∀ op ∈ ops, op.InRange c.W) {r : Rp} (wf : WF c r) (he : elems c r = [])
    {d₁ d₁' : D₁} {d₂ d₂' : D₂} {r₁ r₂ : Rp} {o₁ o₂ : List Out}
    (h1 : runOps c g₁ fuel₁ r ops d₁ = .ok ((r₁, o₁), d₁'))
    (h2 : runOps c g₂ fuel₂ .empty ops d₂ = .ok ((r₂, o₂), d₂')) :
    o₁ = o₂ ∧ (∀ x, x ∈ elems c r₁ ↔ x ∈ elems c r₂) ∧ len r₁ = len r₂ ∧ eqSet c r₁ r₂ = true := by
  obtain ⟨w1, a1, m1⟩ := run_refines_of_empty ok g₁ fuel₁ ops hops wf he h1
  obtain ⟨w2, a2, m2⟩ := run_refines_empty ok g₂ fuel₂ ops hops h2
  have hm : ∀ x, x ∈ elems c r₁ ↔ x ∈ elems c r₂ := fun x => by rw [m1, m2]
  exact ⟨by rw [a1, a2], hm, len_eq_of_mem_iff (coreOK ok g₁ fuel₁) w1 w2 hm,
    (eqSet_iff (coreOK ok g₁ fuel₁) w1 w2).2 hm⟩

/-! ### C17: the deterministic generator -/

/-- with a generator whose state type has one value (`detRng : Rng Unit`), a run is a function of the start value
and the history alone: two executions return the same representation (hence the same iteration order
`elems` and the same `capacity`) and the same answers -/
theorem unit_replay (g : Rng Unit) (fuel : Nat) (r : Rp) (ops : List Op) (d₁ d₂ : Unit) :
    runOps c g fuel r ops d₁ = runOps c g fuel r ops d₂ := rfl

theorem unit_replay_ok (g : Rng Unit) (fuel : Nat) (r : Rp) (ops : List Op) {d₁ d₁' d₂ d₂' : Unit}
    {r₁ r₂ : Rp} {o₁ o₂ : List Out}
    (h1 : runOps c g fuel r ops d₁ = .ok ((r₁, o₁), d₁')) (h2 : runOps c g fuel r ops d₂ = .ok ((r₂, o₂), d₂')) :
    r₁ = r₂ ∧ o₁ = o₂ ∧ elems c r₁ = elems c r₂ ∧ capacity r₁ = capacity r₂ := by
  have h : (Except.ok ((r₁, o₁), d₁') : Except Err ((Rp × List Out) × Unit)) = .ok ((r₂, o₂), d₂') :=
    h1.symm.trans h2
  injection h with h
  injection h with h _
  injection h with ha hb
  subst ha; subst hb
  exact ⟨rfl, rfl, rfl, rfl⟩

/-! ### C07: a cloned cursor -/

/-- a cloned consuming iterator is the pair (`clone` of the set, the same cursor value): it yields the same
remaining items as the original, namely `elems.drop j` after `j` calls of `next` -/
theorem cloned_iter_resumes (ok : CfgOK c) {r : Rp} (wf : WF c r) (j : Nat) :
    ∃ ck, advance c r j (cursorOf r) = .ok ck ∧
      drainFrom c (clone r) ((elems c r).length + 1) ck = .ok ((elems c r).drop j) ∧
      drainFrom c r ((elems c r).length + 1) ck = .ok ((elems c r).drop j) := by
  obtain ⟨ck, h1, _, h2⟩ := advance_drain ok wf j
  exact ⟨ck, h1, h2, h2⟩

end SC

#print axioms SC.nodup_eraseDups
#print axioms SC.len_eq_distinct
#print axioms SC.fromIter_spec
#print axioms SC.extend_spec
#print axioms SC.collect_loop_spec
#print axioms SC.heap_cap_of_wf
#print axioms SC.blockBytes_of_wf
#print axioms SC.insert_heap_cap
#print axioms SC.remove_heap_cap
#print axioms SC.run_heap_cap
#print axioms SC.run_refines_self
#print axioms SC.run_refines_of_empty
#print axioms SC.hinted_eq_new
#print axioms SC.unit_replay
#print axioms SC.unit_replay_ok
#print axioms SC.cloned_iter_resumes
#print axioms SC.sortDedup_eq
