import TinysetModel.Model.Set
import TinysetModel.Proofs.RH.Remove
import TinysetModel.Proofs.RH.LookupEmpty
namespace SC
open RH

theorem exists_zero_of_mem {a : Tbl} (h : (0 : Nat) ∈ a.toList) : ∃ z, z < a.size ∧ get a z = 0 := by
  obtain ⟨i, hi, e⟩ := List.mem_iff_getElem.1 h
  have hi' : i < a.size := by simpa using hi
  exact ⟨i, hi', by rw [get_eq_getElem hi']; exact e⟩

theorem hasRoom_zero (c : Cfg) {a : Tbl} (h : hasRoom c a = true) : ∃ z, z < a.size ∧ get a z = 0 := by
  unfold hasRoom at h
  split at h
  · rw [List.any_eq_true] at h
    obtain ⟨x, hx, hx0⟩ := h
    have : x = 0 := by simpa using hx0
    subst this
    exact exists_zero_of_mem hx
  · have hpos : 0 < (a.toList.filter (· == 0)).length := by
      have h' := of_decide_eq_true h
      exact Nat.lt_of_le_of_lt (Nat.zero_le _) h'
    obtain ⟨x, hx⟩ := List.exists_mem_of_length_pos hpos
    rw [List.mem_filter] at hx
    have : x = 0 := by simpa using hx.2
    subst this
    exact exists_zero_of_mem hx.1

theorem lookforAux_empty_zero {a : Tbl} {off k : Nat} (hn : 0 < a.size) :
    ∀ fuel p ii, lookforAux k a off a.size fuel p = .empty ii → ii < a.size ∧ get a ii = 0 := by
  intro fuel
  induction fuel with
  | zero => intro p ii h; simp [lookforAux] at h
  | succ fuel ih =>
    intro p ii h
    unfold lookforAux at h
    dsimp only at h
    split at h
    · rename_i h0
      simp at h; subst h
      exact ⟨slot_lt hn, h0⟩
    · split at h
      · simp at h
      · split at h
        · simp at h
        · exact ih _ _ h

/-- the bridge from the Robin Hood layer to the table layouts -/
theorem tablePlace_spec (c : Cfg) {a : Tbl} {off k w : Nat} (hn : 0 < a.size) (inv : Inv a off)
    (hw : w ≠ 0) (hk : w >>> off = k)
    (hfresh : ∀ i, i < a.size → get a i ≠ 0 → K a off i ≠ k) :
    match tablePlace c k w off a with
    | some a' => a'.size = a.size ∧ Inv a' off ∧ (∃ b, b < a'.size ∧ Lin a' off b) ∧
        (nz a').Perm (w :: nz a)
    | none => hasRoom c a = false := by
  unfold tablePlace
  cases hl : lookfor k a off with
  | found i => exact absurd hl (lookfor_absent hn hfresh i)
  | empty ii =>
    simp only
    obtain ⟨hii, h0⟩ := lookforAux_empty_zero hn _ _ _ hl
    obtain ⟨_, _, r1, r2, r3⟩ := lookforAux_empty inv hii h0 hw hk hfresh a.size 0 ii
      (by intro q hq; omega) (Nat.zero_le _) hl
    exact ⟨by simp, r1, ⟨next a.size ii, by simpa using next_lt hn, by simpa using r3⟩, r2⟩
  | needInsert =>
    simp only
    by_cases hr : hasRoom c a = true
    · rw [if_pos hr]
      obtain ⟨z, hz, hz0⟩ := hasRoom_zero c hr
      obtain ⟨r, hp, hidx, hsz, hinv, hperm, hlin⟩ := pinsert_spec inv hz hz0 hw hk hfresh
      rw [hp]
      simp only
      exact ⟨hsz, hinv, ⟨next a.size z, by rw [hsz]; exact next_lt hn, hlin⟩, hperm⟩
    · rw [if_neg hr]
      simpa using hr

#print axioms tablePlace_spec
end SC
