import TinysetModel.Proofs.CapSpec
/-! C12(a) — `collect` of `0..n` yields the dense layout with capacity `denseCap (n-1)`, with no growth and no
random draw, hence a block of about `n/8` bytes. -/
namespace SC
open RH

variable {c : Cfg} {D : Type}

/-- two strictly increasing lists with the same members are equal -/
theorem sorted_ext {l₁ l₂ : List Nat} (h₁ : l₁.Pairwise (· < ·)) (h₂ : l₂.Pairwise (· < ·))
    (h : ∀ x, x ∈ l₁ ↔ x ∈ l₂) : l₁ = l₂ :=
  List.Perm.eq_of_pairwise (le := (· < ·)) (fun a b _ _ hab hba => by omega) h₁ h₂
    ((List.perm_ext_iff_of_nodup (pairwise_lt_nodup h₁) (pairwise_lt_nodup h₂)).2 h)

theorem sortDedup_range (n : Nat) : sortDedup (List.range n) = List.range n := by
  obtain ⟨s1, s2⟩ := sortDedup_spec (List.range n)
  exact sorted_ext s1 List.pairwise_lt_range s2

theorem getLast?_range_succ (n : Nat) : (List.range (n + 1)).getLast? = some n := by
  rw [List.range_succ, List.getLast?_append]
  rfl

/-- one in-range insert into a dense set: same capacity, no draw, correct -/
theorem insert_dense_inrange (ok : CfgOK c) (g : Rng D) (fuel : Nat) {sz cap : Nat} {a : Tbl}
    (wf : DenseWF c sz cap a) {e : Nat} (he : e < 2 ^ c.W) (hk : e >>> c.dShift < cap) (d : D) :
    ∃ sz' a' b, insert c g (fuel + 1) (.heap sz cap c.W a) e d = .ok ((.heap sz' cap c.W a', b), d) ∧
      InsOK c (.heap sz cap c.W a) e (.heap sz' cap c.W a') b := by
  have hrun : ∀ rec : Ins D, insertDense c g rec sz cap a e d =
      .ok ((.heap (if (get a (e >>> c.dShift)).testBit (e % c.W) then sz else sz + 1) cap c.W
        (put a (e >>> c.dShift) (get a (e >>> c.dShift) ||| (1 <<< (e % c.W)))),
        !(get a (e >>> c.dShift)).testBit (e % c.W)), d) := by
    intro rec
    unfold insertDense
    dsimp only
    rw [if_pos hk]
    rfl
  have h1 := hrun (insert c g fuel)
  have h2 := insertDense_ok ok g (fun _ _ => fail .fuel) (fun _ _ _ _ _ _ _ _ h => by cases h) wf e he d d _ _
    (hrun _)
  refine ⟨_, _, _, ?_, h2⟩
  rw [insert, insertStep, if_pos (isDense_W c)]
  exact h1

/-- a run of in-range inserts into a dense set -/
theorem insertAll_dense_inrange (ok : CfgOK c) (g : Rng D) (fuel : Nat) {cap : Nat} :
    ∀ (xs : List Nat) {sz : Nat} {a : Tbl}, DenseWF c sz cap a → (∀ x ∈ xs, x < 2 ^ c.W) →
    (∀ x ∈ xs, x >>> c.dShift < cap) → ∀ d : D,
    ∃ sz' a', insertAll (insert c g (fuel + 1)) (.heap sz cap c.W a) xs d = .ok (.heap sz' cap c.W a', d) ∧
      DenseWF c sz' cap a' ∧
      ∀ x, x ∈ elems c (.heap sz' cap c.W a') ↔ (x ∈ elems c (.heap sz cap c.W a) ∨ x ∈ xs)
  | [], sz, a, wf, _, _, d => ⟨sz, a, rfl, wf, fun x => by simp⟩
  | y :: xs, sz, a, wf, hr, hk, d => by
    obtain ⟨sz1, a1, b, h1, s1⟩ := insert_dense_inrange ok g fuel wf (hr y List.mem_cons_self)
      (hk y List.mem_cons_self) d
    have wf1 : DenseWF c sz1 cap a1 := by have := s1.wf; rw [WF_dense] at this; exact this
    obtain ⟨sz', a', h2, wf', hm⟩ := insertAll_dense_inrange ok g fuel xs wf1
      (fun x hx => hr x (List.mem_cons_of_mem _ hx)) (fun x hx => hk x (List.mem_cons_of_mem _ hx)) d
    refine ⟨sz', a', ?_, wf', fun x => ?_⟩
    · simp only [insertAll, List.foldlM_cons]
      rw [Plain2.bind_run (x := (Rp.heap sz1 cap c.W a1)) (d1 := d)]
      · exact h2
      · rw [Plain2.bind_run h1]; rfl
    · rw [hm, s1.mem, List.mem_cons]
      constructor
      · rintro ((h | h) | h)
        · exact Or.inl h
        · exact Or.inr (Or.inl h)
        · exact Or.inr (Or.inr h)
      · rintro (h | h | h)
        · exact Or.inl (Or.inl h)
        · exact Or.inl (Or.inr h)
        · exact Or.inr h

/-- C12(a), for any configuration whose dense block for maximum `mx` covers every `e ≤ mx` -/
theorem collect_range_dense (ok : CfgOK c) (hden : ∀ mx e, e ≤ mx → e >>> c.dShift < c.denseCap mx)
    (g : Rng D) (fuel : Nat) {n : Nat} (hn : c.codec.maxN < n) (hnW : n ≤ 2 ^ c.W) (d : D) :
    ∃ a, fromIter c g (fuel + 1) (List.range n) d = .ok (.heap n (c.denseCap (n - 1)) c.W a, d) := by
  obtain ⟨m, rfl⟩ : ∃ m, n = m + 1 := ⟨n - 1, by omega⟩
  rw [Nat.add_sub_cancel]
  have wf0 : DenseWF c 0 (c.denseCap m) (Array.replicate (c.denseCap m) 0) := by
    have := Cap.denseWithMax_wf ok m
    unfold denseWithMax at this
    rw [WF_dense] at this; exact this
  obtain ⟨sz', a', h1, wf', hm⟩ := insertAll_dense_inrange ok g fuel (List.range (m + 1)) wf0
    (fun x hx => Nat.lt_of_lt_of_le (List.mem_range.1 hx) hnW)
    (fun x hx => hden m x (by have := List.mem_range.1 hx; omega)) d
  have hsz : sz' = m + 1 := by
    rw [wf'.szc]
    have hp : (elems c (.heap sz' (c.denseCap m) c.W a')).Perm (List.range (m + 1)) := by
      rw [List.perm_ext_iff_of_nodup (elems_dense_nodup ok) List.nodup_range]
      intro x
      rw [hm, elems_zero c (fun w hw => replicate_zero_mem hw)]
      simp
    rw [hp.length_eq, List.length_range]
  subst hsz
  refine ⟨a', ?_⟩
  unfold fromIter
  rw [sortDedup_range]
  unfold fromIterSorted
  rw [getLast?_range_succ]
  dsimp only
  have hnone : TinyC.newSortedDeduped c.codec (List.range (m + 1)) = none := by
    unfold TinyC.newSortedDeduped
    rw [if_pos (Or.inr (by rw [List.length_range]; exact hn))]
  rw [hnone]
  dsimp only
  have h4 : (List.range (m + 1)).length > m >>> 4 := by
    rw [List.length_range]
    exact Nat.lt_succ_of_le (Nat.shiftRight_le _ _)
  rw [if_pos h4]
  have hcs : (List.range (m + 1)).length > m >>> c.capShift := by
    rw [List.length_range]
    exact Nat.lt_succ_of_le (Nat.shiftRight_le _ _)
  unfold withCapMax
  rw [if_pos hcs]
  exact h1

theorem cfg64_dense_covers (mx e : Nat) (h : e ≤ mx) : e >>> cfg64.dShift < cfg64.denseCap mx := by
  show e >>> 6 < 1 + mx / 64 + mx / 256
  rw [Nat.shiftRight_eq_div_pow]
  omega

theorem cfg32_dense_covers (mx e : Nat) (h : e ≤ mx) : e >>> cfg32.dShift < cfg32.denseCap mx := by
  show e >>> 5 < 1 + mx / 32 + mx / 128
  rw [Nat.shiftRight_eq_div_pow]
  omega

/-- C12(a) for `SetU64`: `(0..n).collect()` is a dense bitset of `denseCap (n-1)` words; no draw is made -/
theorem collect_range_dense64 (g : Rng D) (fuel : Nat) {n : Nat} (hn : 64 ≤ n) (hn' : n ≤ 2 ^ 31) (d : D) :
    ∃ a, fromIter cfg64 g (fuel + 1) (List.range n) d = .ok (.heap n (cfg64.denseCap (n - 1)) cfg64.W a, d) :=
  collect_range_dense cfg64_ok cfg64_dense_covers g fuel
    (by show 7 < n; omega) (by show n ≤ 2 ^ 64; omega) d

theorem collect_range_dense32 (g : Rng D) (fuel : Nat) {n : Nat} (hn : 64 ≤ n) (hn' : n ≤ 2 ^ 31) (d : D) :
    ∃ a, fromIter cfg32 g (fuel + 1) (List.range n) d = .ok (.heap n (cfg32.denseCap (n - 1)) cfg32.W a, d) :=
  collect_range_dense cfg32_ok cfg32_dense_covers g fuel
    (by show 6 < n; omega) (by show n ≤ 2 ^ 32; omega) d

/-- the block of `(0..n).collect()` takes at most `n/4 + 64` bytes (in fact about `5n/32`) -/
theorem collect_range_bytes64 (g : Rng D) (fuel : Nat) {n : Nat} (hn : 64 ≤ n) (hn' : n ≤ 2 ^ 31) (d : D) :
    ∃ r, fromIter cfg64 g (fuel + 1) (List.range n) d = .ok (r, d) ∧ len r = n ∧
      blockBytes cfg64 r = 8 * (1 + (n - 1) / 64 + (n - 1) / 256) + 24 ∧ blockBytes cfg64 r ≤ n / 4 + 64 := by
  obtain ⟨a, h⟩ := collect_range_dense64 g fuel hn hn' d
  refine ⟨_, h, rfl, ?_, ?_⟩
  · show (1 + (n - 1) / 64 + (n - 1) / 256) * (64 / 8) + 24 = _
    omega
  · show (1 + (n - 1) / 64 + (n - 1) / 256) * (64 / 8) + 24 ≤ _
    omega

theorem collect_range_bytes32 (g : Rng D) (fuel : Nat) {n : Nat} (hn : 64 ≤ n) (hn' : n ≤ 2 ^ 31) (d : D) :
    ∃ r, fromIter cfg32 g (fuel + 1) (List.range n) d = .ok (r, d) ∧ len r = n ∧
      blockBytes cfg32 r = 4 * (1 + (n - 1) / 32 + (n - 1) / 128) + 12 ∧ blockBytes cfg32 r ≤ n / 4 + 64 := by
  obtain ⟨a, h⟩ := collect_range_dense32 g fuel hn hn' d
  refine ⟨_, h, rfl, ?_, ?_⟩
  · show (1 + (n - 1) / 32 + (n - 1) / 128) * (32 / 8) + 12 = _
    omega
  · show (1 + (n - 1) / 32 + (n - 1) / 128) * (32 / 8) + 12 ≤ _
    omega

#print axioms collect_range_dense
#print axioms collect_range_dense64
#print axioms collect_range_dense32
#print axioms collect_range_bytes64
#print axioms collect_range_bytes32
end SC
