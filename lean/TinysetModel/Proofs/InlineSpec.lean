import TinysetModel.Proofs.Stack
import TinysetModel.Proofs.CfgInst
import TinysetModel.Proofs.Consts
import TinysetModel.Proofs.Tiny.Prefix
/-! C10 at the level of whole sets (`fromIter`, ascending `insert`, `remove` stay inline, draw nothing from
the RNG and own no heap block), and pointer-tag coherence of the inline word (C06 / C07). -/
namespace SC
open RH

variable {c : Cfg} {D : Type}

/-! ### 1. `collect()` of an in-budget set is inline -/

/-- `fromIterSorted` on an in-budget list takes the `newSortedDeduped` branch: no draw, no block -/
theorem fromIterSorted_inline (ok : CfgOK c) (g : Rng D) (fuel : Nat) (v : List Nat)
    (hb : TinyC.InBudget c.codec v) (d : D) :
    ∃ t, fromIterSorted c g fuel v d = .ok (.stack t, d) ∧ t.sz = v.length ∧ t.members c.codec = v := by
  obtain ⟨t, ht, hm⟩ := TinyC.collect_inline ok.codec v hb
  have hne : v ≠ [] := by
    intro h
    have := hb.1
    rw [h] at this
    simp at this
  obtain ⟨mx, hmx⟩ : ∃ mx, v.getLast? = some mx := by
    cases hl : v.getLast? with
    | none => rw [List.getLast?_eq_none_iff] at hl; exact absurd hl hne
    | some mx => exact ⟨mx, rfl⟩
  refine ⟨t, ?_, (TinyC.new_spec ok.codec v hb.2.2.1 t ht).1, hm⟩
  unfold fromIterSorted
  rw [hmx]
  simp only [ht, pure_run]

/-- an inline value owns no heap block -/
theorem stack_no_block (c : Cfg) (t : TinyC.T) :
    capacity (.stack t) = 0 ∧ memUsed c (.stack t) = 8 ∧ blockBytes c (.stack t) = 0 := ⟨rfl, rfl, rfl⟩

/-- C10, `collect()`: if the sorted, deduplicated input is within the inline budget, `fromIter` returns an
inline value with exactly those members, for every RNG oracle and state; the state is unchanged (no draw),
and there is no heap block -/
theorem collect_inline_rp (ok : CfgOK c) (g : Rng D) (fuel : Nat) (xs : List Nat)
    (hb : TinyC.InBudget c.codec (sortDedup xs)) (d : D) :
    ∃ t, fromIter c g fuel xs d = .ok (.stack t, d) ∧ t.members c.codec = sortDedup xs ∧
      t.sz = (sortDedup xs).length ∧
      capacity (.stack t) = 0 ∧ memUsed c (.stack t) = 8 ∧ blockBytes c (.stack t) = 0 := by
  obtain ⟨t, h1, h2, h3⟩ := fromIterSorted_inline ok g fuel (sortDedup xs) hb d
  exact ⟨t, h1, h3, h2, rfl, rfl, rfl⟩

/-- … and the result is well formed and has the members of the input, when the input is in range -/
theorem collect_inline_rp_wf (ok : CfgOK c) (g : Rng D) (fuel : Nat) (xs : List Nat)
    (hb : TinyC.InBudget c.codec (sortDedup xs)) (hrange : ∀ x ∈ xs, x < 2 ^ c.W) (d : D) :
    ∃ t, fromIter c g fuel xs d = .ok (.stack t, d) ∧ StackWF c t ∧ ∀ x, x ∈ elems c (.stack t) ↔ x ∈ xs := by
  obtain ⟨t, h1, h2, h3⟩ := fromIterSorted_inline ok g fuel (sortDedup xs) hb d
  refine ⟨t, h1, ⟨by rw [h2]; exact hb.1, by rw [h2]; exact hb.2.1, fun x hx => ?_⟩, fun x => ?_⟩
  · rw [h3] at hx
    exact hrange x (((sortDedup_spec xs).2 x).1 hx)
  · rw [elems_stack, h3]
    exact (sortDedup_spec xs).2 x

theorem collect_inline_rp64 (g : Rng D) (fuel : Nat) (xs : List Nat)
    (hb : TinyC.InBudget TinyC.codec64 (sortDedup xs)) (d : D) :
    ∃ t, fromIter cfg64 g fuel xs d = .ok (.stack t, d) ∧ t.members TinyC.codec64 = sortDedup xs ∧
      t.sz = (sortDedup xs).length ∧
      capacity (.stack t) = 0 ∧ memUsed cfg64 (.stack t) = 8 ∧ blockBytes cfg64 (.stack t) = 0 :=
  collect_inline_rp cfg64_ok g fuel xs hb d

theorem collect_inline_rp32 (g : Rng D) (fuel : Nat) (xs : List Nat)
    (hb : TinyC.InBudget TinyC.codec32 (sortDedup xs)) (d : D) :
    ∃ t, fromIter cfg32 g fuel xs d = .ok (.stack t, d) ∧ t.members TinyC.codec32 = sortDedup xs ∧
      t.sz = (sortDedup xs).length ∧
      capacity (.stack t) = 0 ∧ memUsed cfg32 (.stack t) = 8 ∧ blockBytes cfg32 (.stack t) = 0 :=
  collect_inline_rp cfg32_ok g fuel xs hb d

/-! ### 2. ascending insertion stays inline -/

/-- first insert: `[e]` within budget -/
theorem insert_empty_inline (ok : CfgOK c) (g : Rng D) (fuel : Nat) (e : Nat)
    (hb : TinyC.InBudget c.codec [e]) (d : D) :
    ∃ t, insert c g (fuel + 1) .empty e d = .ok ((.stack t, true), d) ∧ t.sz = 1 ∧ t.members c.codec = [e] := by
  obtain ⟨t, ht, hm⟩ := TinyC.collect_inline ok.codec [e] hb
  refine ⟨t, ?_, (TinyC.new_spec ok.codec [e] hb.2.2.1 t ht).1, hm⟩
  rw [insert, insertStep]
  simp only [ht, pure_run]

/-- appending a larger member that keeps the set within budget -/
theorem insert_stack_ascending (ok : CfgOK c) (g : Rng D) (fuel : Nat) (t : TinyC.T) (v : List Nat) (e : Nat)
    (hsz : t.sz = v.length) (hm : t.members c.codec = v) (hb : TinyC.InBudget c.codec (v ++ [e])) (d : D) :
    ∃ t', insert c g (fuel + 1) (.stack t) e d = .ok ((.stack t', true), d) ∧ t'.sz = v.length + 1 ∧
      t'.members c.codec = v ++ [e] := by
  obtain ⟨t', h1, h2, h3⟩ := TinyC.ascending_insert ok.codec t v e hsz (TinyC.fields_of_members t v hm) hb
  refine ⟨t', ?_, h2, h3⟩
  rw [insert, insertStep]
  simp only [h1, pure_run]
  have : (t'.sz != t.sz) = true := by
    rw [h2, hsz]
    simp
  rw [this]

theorem insertAll_nil (rec : Ins D) (r : Rp) (d : D) : insertAll rec r [] d = .ok (r, d) := rfl

theorem insertAll_append (rec : Ins D) (r : Rp) (xs ys : List Nat) :
    insertAll rec r (xs ++ ys) = (insertAll rec r xs >>= fun r' => insertAll rec r' ys) := by
  unfold insertAll
  rw [List.foldlM_append]

theorem insertAll_single (rec : Ins D) (r : Rp) (x : Nat) (d d2 : D) (r2 : Rp) (b : Bool)
    (h2 : rec r x d = .ok ((r2, b), d2)) : insertAll rec r [x] d = .ok (r2, d2) := by
  unfold insertAll
  simp only [List.foldlM_cons, List.foldlM_nil, bind, StateT.bind, Except.bind, h2, pure, StateT.pure,
    Except.pure]

theorem insertAll_snoc (rec : Ins D) (r : Rp) (xs : List Nat) (x : Nat) (d d1 d2 : D) (r1 r2 : Rp) (b : Bool)
    (h1 : insertAll rec r xs d = .ok (r1, d1)) (h2 : rec r1 x d1 = .ok ((r2, b), d2)) :
    insertAll rec r (xs ++ [x]) d = .ok (r2, d2) := by
  rw [insertAll_append]
  simp only [bind, StateT.bind, Except.bind, h1]
  exact insertAll_single rec r1 x d1 d2 r2 b h2

/-- C10, ascending insertion: inserting the members of an in-budget set in ascending order into the empty
set stays inline at every step and never draws from the RNG -/
theorem ascending_inline_rp (ok : CfgOK c) (anti : TinyC.WidthsAntitone c.codec) (g : Rng D) (fuel : Nat)
    (v : List Nat) (hb : TinyC.InBudget c.codec v) (d : D) :
    ∀ k, k ≤ v.length → ∃ r, insertAll (insert c g (fuel + 1)) .empty (v.take k) d = .ok (r, d) ∧
      (k = 0 → r = .empty) ∧ (0 < k → ∃ t, r = .stack t ∧ t.sz = k ∧ t.members c.codec = v.take k)
  | 0, _ => ⟨.empty, by rw [List.take_zero, insertAll_nil], fun _ => rfl, fun h => absurd h (Nat.lt_irrefl 0)⟩
  | k + 1, hk => by
    obtain ⟨r, h1, h2, h3⟩ := ascending_inline_rp ok anti g fuel v hb d k (by omega)
    have hk' : k < v.length := by omega
    have htake : v.take (k + 1) = v.take k ++ [v[k]] := by
      rw [List.take_succ_eq_append_getElem hk']
    have hbk : TinyC.InBudget c.codec (v.take k ++ [v[k]]) := by
      rw [← htake]
      exact TinyC.inBudget_take ok.codec anti v hb (k + 1) (by omega) hk
    have hlen : (v.take k).length = k := by rw [List.length_take]; omega
    by_cases h0 : k = 0
    · have hr := h2 h0
      subst h0
      subst hr
      rw [List.take_zero, List.nil_append] at hbk
      obtain ⟨t, i1, i2, i3⟩ := insert_empty_inline ok g fuel v[0] hbk d
      refine ⟨.stack t, ?_, fun h => by omega, fun _ => ⟨t, rfl, i2, ?_⟩⟩
      · rw [htake]
        exact insertAll_snoc _ _ _ _ d d d _ _ true h1 i1
      · rw [htake, i3]; simp
    · obtain ⟨t, hr, hsz, hm⟩ := h3 (by omega)
      subst hr
      obtain ⟨t', i1, i2, i3⟩ := insert_stack_ascending ok g fuel t (v.take k) v[k] (by rw [hlen]; exact hsz) hm hbk d
      refine ⟨.stack t', ?_, fun h => by omega, fun _ => ⟨t', rfl, by rw [i2, hlen], ?_⟩⟩
      · rw [htake]
        exact insertAll_snoc _ _ _ _ d d d _ _ true h1 i1
      · rw [htake, i3]

/-- the final state of the ascending insertion loop: the whole set, inline, no block -/
theorem ascending_inline_all (ok : CfgOK c) (anti : TinyC.WidthsAntitone c.codec) (g : Rng D) (fuel : Nat)
    (v : List Nat) (hb : TinyC.InBudget c.codec v) (d : D) :
    ∃ t, insertAll (insert c g (fuel + 1)) .empty v d = .ok (.stack t, d) ∧ t.sz = v.length ∧
      t.members c.codec = v ∧ capacity (.stack t) = 0 ∧ memUsed c (.stack t) = 8 := by
  obtain ⟨r, h1, _, h3⟩ := ascending_inline_rp ok anti g fuel v hb d v.length (Nat.le_refl _)
  obtain ⟨t, hr, hsz, hm⟩ := h3 hb.1
  subst hr
  rw [List.take_length] at h1 hm
  exact ⟨t, h1, hsz, hm, rfl, rfl⟩

theorem ascending_inline_rp64 (g : Rng D) (fuel : Nat) (v : List Nat) (hb : TinyC.InBudget TinyC.codec64 v) (d : D) :
    ∀ k, k ≤ v.length → ∃ r, insertAll (insert cfg64 g (fuel + 1)) .empty (v.take k) d = .ok (r, d) ∧
      (k = 0 → r = .empty) ∧ (0 < k → ∃ t, r = .stack t ∧ t.sz = k ∧ t.members TinyC.codec64 = v.take k) :=
  ascending_inline_rp cfg64_ok TinyC.widthsAntitone64 g fuel v hb d

theorem ascending_inline_rp32 (g : Rng D) (fuel : Nat) (v : List Nat) (hb : TinyC.InBudget TinyC.codec32 v) (d : D) :
    ∀ k, k ≤ v.length → ∃ r, insertAll (insert cfg32 g (fuel + 1)) .empty (v.take k) d = .ok (r, d) ∧
      (k = 0 → r = .empty) ∧ (0 < k → ∃ t, r = .stack t ∧ t.sz = k ∧ t.members TinyC.codec32 = v.take k) :=
  ascending_inline_rp cfg32_ok TinyC.widthsAntitone32 g fuel v hb d

/-! ### 3. `remove` stays inline -/

/-- removing a member whose removal leaves an in-budget set: the result is inline, nothing is drawn -/
theorem remove_stays_inline (ok : CfgOK c) (g : Rng D) (fuel : Nat) {t : TinyC.T} (wf : StackWF c t) (e : Nat)
    (hmem : e ∈ t.members c.codec)
    (hb : TinyC.InBudget c.codec ((t.members c.codec).filter (· ≠ e))) (d : D) :
    ∃ t', remove c g fuel (.stack t) e d = .ok ((.stack t', true), d) ∧
      t'.members c.codec = (t.members c.codec).filter (· ≠ e) ∧
      t'.sz = ((t.members c.codec).filter (· ≠ e)).length := by
  have hc : (t.members c.codec).contains e = true := by simpa using hmem
  have hlen := stack_members_length ok wf
  have h1 : ¬ (t.sz - 1 = 0) := by
    intro h1
    have hb1 := hb.1
    match hm : t.members c.codec, hlen, hmem with
    | [y], _, hmem =>
      have : e = y := List.mem_singleton.1 hmem
      subst this
      rw [hm] at hb1
      simp at hb1
    | [], hlen, _ => have := wf.sz_pos; simp at hlen; omega
    | _ :: _ :: _, hlen, _ => simp at hlen; omega
  obtain ⟨t', f1, f2, f3⟩ := fromIterSorted_inline ok g fuel _ hb d
  refine ⟨t', ?_, f3, f2⟩
  rw [remove, if_pos hc, if_neg h1]
  simp only [bind, StateT.bind, Except.bind, f1, pure_run]

/-- removing the only member gives the empty representation -/
theorem remove_last_member (g : Rng D) (fuel : Nat) (t : TinyC.T) (e : Nat)
    (hmem : e ∈ t.members c.codec) (hsz : t.sz = 1) (d : D) :
    remove c g fuel (.stack t) e d = .ok ((.empty, true), d) := by
  have hc : (t.members c.codec).contains e = true := by simpa using hmem
  have h1 : t.sz - 1 = 0 := by omega
  rw [remove, if_pos hc, if_pos h1, pure_run]

theorem remove_only_member (ok : CfgOK c) (g : Rng D) (fuel : Nat) {t : TinyC.T} (wf : StackWF c t) (e : Nat)
    (hm : t.members c.codec = [e]) (d : D) :
    remove c g fuel (.stack t) e d = .ok ((.empty, true), d) := by
  have hlen := stack_members_length ok wf
  rw [hm] at hlen
  exact remove_last_member g fuel t e (by rw [hm]; exact List.mem_singleton.2 rfl) (by simpa using hlen.symm) d

end SC

/-! ### 4. pointer-tag coherence -/
namespace SC
open TinyC

theorem or_shl3_mod8 (a b : Nat) : (a ||| (b <<< 3)) % 8 = a % 8 := by
  have h8 : (8 : Nat) = 2 ^ 3 := rfl
  rw [h8, Nat.or_mod_two_pow, Nat.shiftLeft_eq, Nat.mul_mod_left, Nat.or_zero]

theorem or_shl3_mod4 (a b : Nat) : (a ||| (b <<< 3)) % 4 = a % 4 := by
  have h1 : (a ||| (b <<< 3)) % 4 = (a ||| (b <<< 3)) % 8 % 4 := by omega
  rw [h1, or_shl3_mod8]
  omega

theorem or_shl3_shr3 (a b : Nat) (ha : a < 8) : (a ||| (b <<< 3)) >>> 3 = b := by
  rw [Nat.shiftRight_or_distrib, Nat.shiftLeft_shiftRight]
  have : a >>> 3 = 0 := by rw [Nat.shiftRight_eq_div_pow]; omega
  rw [this, Nat.zero_or]

/-- the tag codec of `SetU64` is the identity on `1..7` -/
theorem tag_codec64 : ∀ n, 1 ≤ n → n ≤ 7 →
    codec64.dec (codec64.enc n) = n ∧ codec64.enc n < 8 ∧ codec64.enc n % 8 ≠ 0 := by
  intro n h1 h2
  show n = n ∧ n < 8 ∧ n % 8 ≠ 0
  omega

/-- the tag codec of `SetU32` skips the value 4 (so that the low two bits are never both zero) and is a
bijection from `1..6` onto `{1,2,3,5,6,7}` -/
theorem tag_codec32 : ∀ n, 1 ≤ n → n ≤ 6 →
    codec32.dec (codec32.enc n) = n ∧ codec32.enc n < 8 ∧ codec32.enc n % 4 ≠ 0 := by
  intro n h1 h2
  have : n = 1 ∨ n = 2 ∨ n = 3 ∨ n = 4 ∨ n = 5 ∨ n = 6 := by omega
  rcases this with h | h | h | h | h | h <;> subst h <;> decide

/-- conversely every tag value that `dec` maps into `1..6` comes from exactly that count -/
theorem tag_codec32_inv : ∀ x, x < 8 → x % 4 ≠ 0 →
    1 ≤ codec32.dec x ∧ codec32.dec x ≤ 6 ∧ codec32.enc (codec32.dec x) = x := by
  decide

theorem tag_nonzero64 (t : T) (h : 1 ≤ t.sz ∧ t.sz ≤ 7) : toWord codec64 t % 8 ≠ 0 := by
  unfold toWord
  rw [or_shl3_mod8]
  exact (tag_codec64 t.sz h.1 h.2).2.2

theorem tag_nonzero32 (t : T) (h : 1 ≤ t.sz ∧ t.sz ≤ 6) : toWord codec32 t % 4 ≠ 0 := by
  unfold toWord
  rw [or_shl3_mod4]
  exact (tag_codec32 t.sz h.1 h.2).2.2

/-- C06: an inline word of `SetU64` is never mistaken for a pointer by the mask 7, and an 8-aligned block
address is never mistaken for an inline word -/
theorem tag_coherent64 (t : T) (h : 1 ≤ t.sz ∧ t.sz ≤ 7) :
    toWord codec64 t % (7 + 1) ≠ 0 ∧ ∀ k, (k * 8) % (7 + 1) = 0 :=
  ⟨tag_nonzero64 t h, fun k => Nat.mul_mod_left k 8⟩

/-- C07: an inline word of `SetU32` is never mistaken for a pointer by the mask 3, and a 4-aligned block
address is never mistaken for an inline word -/
theorem tag_coherent32 (t : T) (h : 1 ≤ t.sz ∧ t.sz ≤ 6) :
    toWord codec32 t % (3 + 1) ≠ 0 ∧ ∀ k, (k * 4) % (3 + 1) = 0 :=
  ⟨tag_nonzero32 t h, fun k => Nat.mul_mod_left k 4⟩

/-- the same, for every mask / alignment pair read off the source (`Generated/Consts.lean`) -/
theorem tag_coherent64_src (t : T) (h : 1 ≤ t.sz ∧ t.sz ≤ 7) : ∀ p ∈ Gen.tagMasks64,
    toWord codec64 t % (p.2 + 1) ≠ 0 ∧ ∀ k, (k * Gen.layout64.2.2) % (p.2 + 1) = 0 := by
  intro p hp
  rw [tagMasks64_coherent p hp]
  exact tag_coherent64 t h

theorem tag_coherent32_src (t : T) (h : 1 ≤ t.sz ∧ t.sz ≤ 6) : ∀ p ∈ Gen.tagMasks32,
    toWord codec32 t % (p.2 + 1) ≠ 0 ∧ ∀ k, (k * Gen.layout32.2.2) % (p.2 + 1) = 0 := by
  intro p hp
  rw [tagMasks32_coherent p hp]
  exact tag_coherent32 t h

/-- the word of an inline value decodes to the value -/
theorem ofWord_toWord64 (t : T) (h : 1 ≤ t.sz ∧ t.sz ≤ 7) : TinyC.ofWord codec64 (toWord codec64 t) = t := by
  obtain ⟨d1, d2, _⟩ := tag_codec64 t.sz h.1 h.2
  unfold TinyC.ofWord toWord
  rw [or_shl3_mod8, or_shl3_shr3 _ _ d2, Nat.mod_eq_of_lt d2, d1]

theorem ofWord_toWord32 (t : T) (h : 1 ≤ t.sz ∧ t.sz ≤ 6) : TinyC.ofWord codec32 (toWord codec32 t) = t := by
  obtain ⟨d1, d2, _⟩ := tag_codec32 t.sz h.1 h.2
  unfold TinyC.ofWord toWord
  rw [or_shl3_mod8, or_shl3_shr3 _ _ d2, Nat.mod_eq_of_lt d2, d1]

/-- a well-formed inline value of either width has a word with a non-zero tag -/
theorem stackWF_tag64 {t : T} (wf : StackWF cfg64 t) : toWord codec64 t % 8 ≠ 0 :=
  tag_nonzero64 t ⟨wf.sz_pos, wf.sz_le⟩

theorem stackWF_tag32 {t : T} (wf : StackWF cfg32 t) : toWord codec32 t % 4 ≠ 0 :=
  tag_nonzero32 t ⟨wf.sz_pos, wf.sz_le⟩

/-- the hypotheses are satisfiable (non-vacuity): e.g. `{5, 1000, 30000}` is within both budgets -/
example : TinyC.InBudget codec64 [5, 1000, 30000] ∧ TinyC.InBudget codec32 [5, 1000, 30000] :=
  ⟨⟨by decide, by decide, ⟨by decide, by decide, by decide, trivial⟩, by decide⟩,
   ⟨by decide, by decide, ⟨by decide, by decide, by decide, trivial⟩, by decide⟩⟩

#print axioms collect_inline_rp
#print axioms collect_inline_rp_wf
#print axioms collect_inline_rp64
#print axioms collect_inline_rp32
#print axioms ascending_inline_rp
#print axioms ascending_inline_all
#print axioms ascending_inline_rp64
#print axioms ascending_inline_rp32
#print axioms remove_stays_inline
#print axioms remove_last_member
#print axioms remove_only_member
#print axioms tag_codec64
#print axioms tag_codec32
#print axioms tag_codec32_inv
#print axioms tag_nonzero64
#print axioms tag_nonzero32
#print axioms tag_coherent64
#print axioms tag_coherent32
#print axioms tag_coherent64_src
#print axioms tag_coherent32_src
#print axioms ofWord_toWord64
#print axioms ofWord_toWord32
end SC
