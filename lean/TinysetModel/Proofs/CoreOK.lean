import TinysetModel.Proofs.WF
/-! The interface of the core refinement (`insert` / `remove` / `contains` / the abstraction facts),
bundled so that the derived-operation proofs can take it as one hypothesis. -/
namespace SC

structure CoreOK (c : Cfg) {D : Type} (g : Rng D) (fuel : Nat) : Prop where
  ins : RecOK c (insert c g fuel)
  rem : ∀ r e d r' b d', WF c r → e < 2 ^ c.W → remove c g fuel r e d = .ok ((r', b), d') → RemOK c r e r' b
  con : ∀ r e, WF c r → e < 2 ^ c.W → (contains c r e = true ↔ e ∈ elems c r)
  abs : ∀ r, WF c r → AbsOK c r

end SC
