import TinysetModel.Proofs.Ctor
import TinysetModel.Proofs.QSort
/-! The inline (`.stack`) and `.empty` representations, fresh tables (`withCapBits`, `withCapMax`),
`fromIterSorted` / `fromIter`, and the inline cases of `insertStep` / `remove`. -/
namespace SC
open RH

variable {c : Cfg}

/-! ### generic list facts -/

theorem stk_mem'_pairwise (b : Nat) (fs : List Nat) : (TinyC.mem' b fs).Pairwise (· < ·) := by
  induction fs generalizing b with
  | nil => exact List.Pairwise.nil
  | cons f fs ih =>
    simp only [TinyC.mem']
    refine List.Pairwise.cons ?_ (ih _)
    intro x hx
    have := TinyC.mem'_ge hx
    omega

theorem stk_mem'_length (b : Nat) (fs : List Nat) : (TinyC.mem' b fs).length = fs.length := by
  induction fs generalizing b with
  | nil => rfl
  | cons f fs ih => simp [TinyC.mem', ih]

theorem pairwise_lt_nodup {l : List Nat} (h : l.Pairwise (· < ·)) : l.Nodup :=
  List.Pairwise.imp (fun hab => Nat.ne_of_lt hab) h

theorem mem_insSorted (e x : Nat) (l : List Nat) : x ∈ TinyC.insSorted e l ↔ (x ∈ l ∨ x = e) := by
  induction l with
  | nil => simp [TinyC.insSorted]
  | cons y ys ih =>
    unfold TinyC.insSorted
    by_cases h1 : e < y
    · rw [if_pos h1]; simp only [List.mem_cons]
      constructor
      · rintro (h | h | h)
        · exact Or.inr h
        · exact Or.inl (Or.inl h)
        · exact Or.inl (Or.inr h)
      · rintro ((h | h) | h)
        · exact Or.inr (Or.inl h)
        · exact Or.inr (Or.inr h)
        · exact Or.inl h
    · rw [if_neg h1]
      by_cases h2 : e = y
      · rw [if_pos h2]; simp only [List.mem_cons]
        constructor
        · intro h; exact Or.inl h
        · rintro (h | h)
          · exact h
          · exact Or.inl (h.trans h2)
      · rw [if_neg h2]; simp only [List.mem_cons, ih]
        constructor
        · rintro (h | h | h)
          · exact Or.inl (Or.inl h)
          · exact Or.inl (Or.inr h)
          · exact Or.inr h
        · rintro ((h | h) | h)
          · exact Or.inl h
          · exact Or.inr (Or.inl h)
          · exact Or.inr (Or.inr h)

/-- `Inc b` (Budget.lean) is strict sortedness plus the lower bound `b` -/
theorem inc_of_pairwise : ∀ (v : List Nat) (b : Nat), v.Pairwise (· < ·) → (∀ x ∈ v, b ≤ x) → TinyC.Inc b v
  | [], _, _, _ => trivial
  | x :: xs, b, hp, hb => by
    rw [List.pairwise_cons] at hp
    refine ⟨hb x List.mem_cons_self, inc_of_pairwise xs (x + 1) hp.2 (fun y hy => hp.1 y hy)⟩

theorem pairwise_of_inc : ∀ (v : List Nat) (b : Nat), TinyC.Inc b v → v.Pairwise (· < ·) ∧ ∀ x ∈ v, b ≤ x
  | [], _, _ => ⟨List.Pairwise.nil, fun _ h => by cases h⟩
  | x :: xs, b, h => by
    obtain ⟨h1, h2⟩ := h
    obtain ⟨p1, p2⟩ := pairwise_of_inc xs (x + 1) h2
    refine ⟨List.Pairwise.cons (fun y hy => p2 y hy) p1, fun y hy => ?_⟩
    rcases List.mem_cons.1 hy with h | h
    · omega
    · have := p2 y h; omega

theorem inc_zero_iff (v : List Nat) : TinyC.Inc 0 v ↔ v.Pairwise (· < ·) :=
  ⟨fun h => (pairwise_of_inc v 0 h).1, fun h => inc_of_pairwise v 0 h (fun _ _ => Nat.zero_le _)⟩

/-! ### 1. the inline value: abstraction, order, count -/

theorem elems_stack (t : TinyC.T) : elems c (.stack t) = t.members c.codec := rfl

theorem elems_empty : elems c .empty = [] := rfl

/-- members of an inline value are strictly increasing (no hypothesis needed) -/
theorem members_sorted (t : TinyC.T) : (t.members c.codec).Pairwise (· < ·) := by
  unfold TinyC.T.members
  rw [TinyC.members_eq]
  exact stk_mem'_pairwise 0 _

theorem stack_members_sorted (_ok : CfgOK c) {t : TinyC.T} (_wf : StackWF c t) :
    (t.members c.codec).Pairwise (· < ·) := members_sorted t

theorem stack_members_nodup (_ok : CfgOK c) {t : TinyC.T} (_wf : StackWF c t) :
    (t.members c.codec).Nodup := pairwise_lt_nodup (members_sorted t)

theorem stack_members_length (ok : CfgOK c) {t : TinyC.T} (wf : StackWF c t) :
    (t.members c.codec).length = t.sz := by
  unfold TinyC.T.members TinyC.T.fields
  rw [TinyC.members_eq, stk_mem'_length, TinyC.unpack_length, ok.codec.widths_length _ wf.sz_le]

/-- the derived abstraction facts for the inline representation -/
theorem absOK_stack (ok : CfgOK c) {t : TinyC.T} (wf : StackWF c t) : AbsOK c (.stack t) :=
  ⟨stack_members_nodup ok wf, (stack_members_length ok wf).symm, wf.range⟩

theorem absOK_empty : AbsOK c .empty :=
  ⟨List.nodup_nil, rfl, fun _ h => by cases h⟩

/-! ### 2. contains -/

theorem contains_stack {t : TinyC.T} (_wf : StackWF c t) (e : Nat) :
    contains c (.stack t) e = true ↔ e ∈ elems c (.stack t) :=
  TinyC.contains_spec t e

theorem contains_empty (e : Nat) : contains c .empty e = true ↔ e ∈ elems c .empty := by
  simp [contains, elems]

/-! ### 3. insert into an inline value -/

theorem insert_stack_ok (ok : CfgOK c) {D : Type} (g : Rng D)
    (rec : Ins D) (hrec : RecOK c rec) {t : TinyC.T} (wf : StackWF c t) (e : Nat) (he : e < 2 ^ c.W)
    (d d' : D) (r' : Rp) (b : Bool)
    (h : insertStep c g rec (.stack t) e d = .ok ((r', b), d')) : InsOK c (.stack t) e r' b := by
  rw [insertStep] at h
  have hspec := TinyC.insert_spec ok.codec t wf.sz_le e
  cases hins : TinyC.insert c.codec t e with
  | some t' =>
    rw [hins] at h hspec
    simp only [pure_run] at h
    cases h
    obtain ⟨s1, s2⟩ := hspec
    by_cases hmem : e ∈ t.members c.codec
    · have := s1 hmem
      subst this
      refine ⟨wf, ?_, fun x => ?_⟩
      · rw [elems_stack]; simp [hmem]
      · rw [elems_stack]
        constructor
        · intro hx; exact Or.inl hx
        · rintro (hx | hx)
          · exact hx
          · exact hx ▸ hmem
    · obtain ⟨hsz, hm⟩ := s2 hmem
      -- the new count is within the codec's range: otherwise `insert` returns `none` for an absent value
      have h7 : t.sz + 1 ≤ c.codec.maxN := by
        apply Classical.byContradiction
        intro h7
        unfold TinyC.insert at hins
        rw [if_neg h7] at hins
        have : (t.members c.codec).contains e = false := by simpa using hmem
        rw [this] at hins
        cases hins
      refine ⟨?_, ?_, fun x => ?_⟩
      · show StackWF c t'
        refine ⟨by omega, by omega, fun x hx => ?_⟩
        rw [hm, mem_insSorted] at hx
        rcases hx with hx | hx
        · exact wf.range x hx
        · exact hx ▸ he
      · rw [elems_stack, hsz]; simp [hmem]
      · rw [elems_stack, elems_stack, hm, mem_insSorted]
  | none =>
    rw [hins] at h hspec
    simp only at h hspec
    obtain ⟨new, d1, h1, h2⟩ := bind_ok h
    obtain ⟨hnew, hempty⟩ := withCapMax_ok ok g _ _ _ _ _ h1
    obtain ⟨s1, s2, s3⟩ := rebuild_ok hrec hnew hempty (old := .stack t) wf.range he h2
    exact ⟨s1, by rw [elems_stack]; simp [s2, hspec], s3⟩

/-! ### 4. insert into the empty set -/

theorem insert_empty_ok (ok : CfgOK c) {D : Type} (g : Rng D)
    (rec : Ins D) (hrec : RecOK c rec) (e : Nat) (he : e < 2 ^ c.W)
    (d d' : D) (r' : Rp) (b : Bool)
    (h : insertStep c g rec .empty e d = .ok ((r', b), d')) : InsOK c .empty e r' b := by
  rw [insertStep] at h
  cases hnew : TinyC.newSortedDeduped c.codec [e] with
  | some t =>
    rw [hnew] at h
    simp only [pure_run] at h
    cases h
    obtain ⟨n1, n2, n3, n4⟩ := TinyC.new_spec ok.codec [e] ⟨Nat.zero_le _, trivial⟩ t hnew
    refine ⟨?_, by simp [elems], fun x => ?_⟩
    · show StackWF c t
      refine ⟨n3, n4, fun x hx => ?_⟩
      rw [n2] at hx
      rw [List.mem_singleton.1 hx]; exact he
    · rw [elems_stack, n2]; simp [elems]
  | none =>
    rw [hnew] at h
    simp only at h
    obtain ⟨new, d1, h1, h2⟩ := bind_ok h
    obtain ⟨hnew, hempty⟩ := withCapMax_ok ok g _ _ _ _ _ h1
    have s := hrec new e d1 r' b d' hnew he h2
    refine ⟨s.wf, ?_, fun x => ?_⟩
    · rw [s.ret, hempty]; rfl
    · rw [s.mem, hempty]; rfl

/-! ### 5. `fromIterSorted` -/

theorem fromIterSorted_ok (ok : CfgOK c) {D : Type} (g : Rng D) (fuel : Nat)
    (hins : RecOK c (insert c g fuel)) (v : List Nat) (hsorted : v.Pairwise (· < ·))
    (hrange : ∀ x ∈ v, x < 2 ^ c.W) (d d' : D) (r : Rp)
    (h : fromIterSorted c g fuel v d = .ok (r, d')) : WF c r ∧ ∀ x, x ∈ elems c r ↔ x ∈ v := by
  unfold fromIterSorted at h
  -- the three pre-sized heap branches all end in the same loop
  have fill : ∀ (s : Rp) (d1 : D), WF c s → elems c s = [] →
      insertAll (insert c g fuel) s v d1 = .ok (r, d') → WF c r ∧ ∀ x, x ∈ elems c r ↔ x ∈ v := by
    intro s d1 hs he hi
    obtain ⟨w1, w2⟩ := insertAll_ok hins v s d1 r d' hs hrange hi
    refine ⟨w1, fun x => ?_⟩
    rw [w2, he]; simp
  cases hl : v.getLast? with
  | none =>
    rw [hl] at h
    simp only [pure_run] at h
    cases h
    rw [List.getLast?_eq_none_iff] at hl
    subst hl
    exact ⟨trivial, fun x => by simp [elems]⟩
  | some mx =>
    rw [hl] at h
    simp only at h
    cases hnew : TinyC.newSortedDeduped c.codec v with
    | some t =>
      rw [hnew] at h
      simp only [pure_run] at h
      cases h
      obtain ⟨n1, n2, n3, n4⟩ := TinyC.new_spec ok.codec v ((inc_zero_iff v).2 hsorted) t hnew
      refine ⟨?_, fun x => by rw [elems_stack, n2]⟩
      show StackWF c t
      exact ⟨n3, n4, fun x hx => hrange x (n2 ▸ hx)⟩
    | none =>
      rw [hnew] at h
      simp only at h
      by_cases h1 : v.length > mx >>> 4
      · rw [if_pos h1] at h
        obtain ⟨s, d1, h2, h3⟩ := bind_ok h
        obtain ⟨hs, he⟩ := withCapMax_ok ok g _ _ _ _ _ h2
        exact fill s d1 hs he h3
      · rw [if_neg h1] at h
        by_cases h4 : c.cab mx = 0
        · rw [if_pos h4] at h
          obtain ⟨s, d1, h2, h3⟩ := bind_ok h
          obtain ⟨hs, he⟩ := withCapBits_ok ok g _ _ (ok.cab_lt mx) _ _ _ h2
          exact fill s d1 hs he h3
        · rw [if_neg h4] at h
          obtain ⟨s, d1, h2, h3⟩ := bind_ok h
          obtain ⟨hs, he⟩ := withCapBits_ok ok g _ _ (ok.cab_lt mx) _ _ _ h2
          exact fill s d1 hs he h3

/-! ### 6. remove from an inline value -/

theorem remove_stack_ok (ok : CfgOK c) {D : Type} (g : Rng D) (fuel : Nat)
    (hins : RecOK c (insert c g fuel)) {t : TinyC.T} (wf : StackWF c t) (e : Nat)
    (d d' : D) (r' : Rp) (b : Bool)
    (h : remove c g fuel (.stack t) e d = .ok ((r', b), d')) : RemOK c (.stack t) e r' b := by
  rw [remove] at h
  by_cases hc : (t.members c.codec).contains e = true
  · rw [if_pos hc] at h
    have hmem : e ∈ t.members c.codec := by simpa using hc
    by_cases h1 : t.sz - 1 = 0
    · rw [if_pos h1, pure_run] at h
      cases h
      have hlen := stack_members_length ok wf
      have hsz := wf.sz_pos
      refine ⟨trivial, by rw [elems_stack]; simp [hmem], fun x => ?_⟩
      rw [elems_stack, elems_empty]
      -- the only member is `e`
      match hm : t.members c.codec, hlen, hmem with
      | [y], _, hmem =>
        have : e = y := List.mem_singleton.1 hmem
        subst this
        simp
      | [], hlen, _ => simp at hlen; omega
      | _ :: _ :: _, hlen, _ => simp at hlen; omega
    · rw [if_neg h1] at h
      obtain ⟨r, d1, h2, h3⟩ := bind_ok h
      rw [pure_run] at h3
      cases h3
      obtain ⟨w1, w2⟩ := fromIterSorted_ok ok g fuel hins _ ((members_sorted t).filter _)
        (fun x hx => wf.range x (List.mem_filter.1 hx).1) _ _ _ h2
      refine ⟨w1, by rw [elems_stack]; simp [hmem], fun x => ?_⟩
      rw [w2, elems_stack, List.mem_filter]
      simp
  · rw [if_neg hc, pure_run] at h
    cases h
    have hmem : e ∉ t.members c.codec := by simpa using hc
    refine ⟨wf, by rw [elems_stack]; simp [hmem], fun x => ?_⟩
    rw [elems_stack]
    constructor
    · intro hx; exact ⟨hx, fun h => hmem (h ▸ hx)⟩
    · intro hx; exact hx.1

theorem remove_empty_ok {D : Type} (g : Rng D) (fuel : Nat) (e : Nat) (d d' : D) (r' : Rp) (b : Bool)
    (h : remove c g fuel .empty e d = .ok ((r', b), d')) : RemOK c .empty e r' b := by
  rw [remove, pure_run] at h
  cases h
  exact ⟨trivial, by simp [elems], fun x => by simp [elems]⟩

/-! ### 7. `fromIter` -/

theorem fromIter_ok (ok : CfgOK c) {D : Type} (g : Rng D) (fuel : Nat)
    (hins : RecOK c (insert c g fuel)) (v : List Nat) (hrange : ∀ x ∈ v, x < 2 ^ c.W) (d d' : D) (r : Rp)
    (h : fromIter c g fuel v d = .ok (r, d')) : WF c r ∧ ∀ x, x ∈ elems c r ↔ x ∈ v := by
  unfold fromIter at h
  obtain ⟨s1, s2⟩ := sortDedup_spec v
  obtain ⟨w1, w2⟩ := fromIterSorted_ok ok g fuel hins (sortDedup v) s1
    (fun x hx => hrange x ((s2 x).1 hx)) d d' r h
  exact ⟨w1, fun x => by rw [w2, s2]⟩

/-! ### assembly: `insertStep` / `insert` / `remove`, given the three heap layouts

The heap cases are proved per layout in other files; here they enter as one hypothesis each, so that the
final theorems are obtained by plugging those results in. -/

/-- the heap case of `insertStep`, for a given recursive `insert` -/
def HeapInsOK (c : Cfg) {D : Type} (g : Rng D) (rec : Ins D) : Prop :=
  ∀ sz cap bits a e d r' b d', WF c (.heap sz cap bits a) → e < 2 ^ c.W →
    insertStep c g rec (.heap sz cap bits a) e d = .ok ((r', b), d') → InsOK c (.heap sz cap bits a) e r' b

/-- the heap case of `remove` (for an in-range `e`: the bitmap layout needs `compute_array_bits e` to be meaningful) -/
def HeapRemOK (c : Cfg) {D : Type} (g : Rng D) (fuel : Nat) : Prop :=
  ∀ sz cap bits a e d r' b d', WF c (.heap sz cap bits a) → e < 2 ^ c.W →
    remove c g fuel (.heap sz cap bits a) e d = .ok ((r', b), d') → RemOK c (.heap sz cap bits a) e r' b

theorem insertStep_ok (ok : CfgOK c) {D : Type} (g : Rng D) (rec : Ins D) (hrec : RecOK c rec)
    (hheap : HeapInsOK c g rec) : RecOK c (insertStep c g rec) := by
  intro r e d r' b d' wf he h
  match r, wf with
  | .empty, _ => exact insert_empty_ok ok g rec hrec e he d d' r' b h
  | .stack t, wf => exact insert_stack_ok ok g rec hrec wf e he d d' r' b h
  | .heap sz cap bits a, wf => exact hheap sz cap bits a e d r' b d' wf he h

theorem insert_ok (ok : CfgOK c) {D : Type} (g : Rng D)
    (hheap : ∀ rec : Ins D, RecOK c rec → HeapInsOK c g rec) : ∀ fuel, RecOK c (insert c g fuel)
  | 0 => by
    intro r e d r' b d' _ _ h
    cases h
  | fuel + 1 => by
    have ih := insert_ok ok g hheap fuel
    exact insertStep_ok ok g _ ih (hheap _ ih)

theorem remove_ok (ok : CfgOK c) {D : Type} (g : Rng D) (fuel : Nat)
    (hins : RecOK c (insert c g fuel)) (hheap : HeapRemOK c g fuel)
    (r : Rp) (wf : WF c r) (e : Nat) (he : e < 2 ^ c.W) (d d' : D) (r' : Rp) (b : Bool)
    (h : remove c g fuel r e d = .ok ((r', b), d')) : RemOK c r e r' b := by
  match r, wf with
  | .empty, _ => exact remove_empty_ok g fuel e d d' r' b h
  | .stack t, wf => exact remove_stack_ok ok g fuel hins wf e d d' r' b h
  | .heap sz cap bits a, wf => exact hheap sz cap bits a e d r' b d' wf he h

#print axioms stack_members_sorted
#print axioms stack_members_length
#print axioms stack_members_nodup
#print axioms contains_stack
#print axioms insert_stack_ok
#print axioms insert_empty_ok
#print axioms fromIterSorted_ok
#print axioms remove_stack_ok
#print axioms remove_empty_ok
#print axioms fromIter_ok
#print axioms insertStep_ok
#print axioms insert_ok
#print axioms remove_ok
end SC
