import TinysetModel.Proofs.WF
/-! The two configurations against `CfgOK`.

`cfg64` satisfies `CfgOK` as stated (`cfg64_ok`).

`cfg32` does NOT: `cfg32.cab 0 = cfg32.cab 1 = 62 > 32 = cfg32.W`, so both `cab_le` and `cab_bound`
(at `e = 1`, `b = 32`) fail (`cfg32_not_cab_le`, `cfg32_not_cab_bound`).  The versions that hold for
both configurations are `cab_bound` restricted to `b < c.W` (`cfg64_cab_bound`, `cfg32_cab_bound`) and
`cab_le` restricted to `2 ≤ e` (`cfg64_cab_le`, `cfg32_cab_le`). -/
namespace SC

theorem lt_two_pow_log2 (e : Nat) : e < 2 ^ log2 e := by
  unfold log2 TinyC.log2
  split
  · rename_i h; subst h; decide
  · exact Nat.lt_log2_self

/-- common core of `cab_bound`: the middle branch of `compute_array_bits` -/
theorem lt_of_log2_le {e n : Nat} (h : log2 e ≤ n) : e < 2 ^ n :=
  Nat.lt_of_lt_of_le (lt_two_pow_log2 e) (Nat.pow_le_pow_right (by omega) h)

/-! ### grow -/

theorem cfg64_grow (e : Nat) : e >>> cfg64.dShift < cfg64.denseGrow e := by
  show e >>> 6 < 1 + (e >>> 6) + (e >>> 6) / 4
  omega

theorem cfg32_grow (e : Nat) : e >>> cfg32.dShift < cfg32.denseGrow e := by
  show e >>> 5 < 1 + e / 32 + e / 128
  rw [Nat.shiftRight_eq_div_pow]
  omega

theorem cfg64_denseCap_pos (mx : Nat) : 0 < cfg64.denseCap mx := by
  show 0 < 1 + mx / 64 + mx / 256
  omega

theorem cfg32_denseCap_pos (mx : Nat) : 0 < cfg32.denseCap mx := by
  show 0 < 1 + mx / 32 + mx / 128
  omega

/-! ### cab -/

theorem cfg64_cab_eq (e : Nat) :
    cfg64.cab e = if log2 e < 2 then 62 else if log2 e > 62 then 0 else 64 - log2 e := rfl

theorem cfg32_cab_eq (e : Nat) :
    cfg32.cab e = if log2 e < 2 then 62 else if log2 e > 62 then 0 else 32 - log2 e := rfl

/-- `cab_bound` for `cfg64`, exactly as in `CfgOK` (no restriction on `b` needed) -/
theorem cfg64_cab_bound_full (e b : Nat) (_he : e < 2 ^ cfg64.W) (hb : 0 < b) (hle : b ≤ cfg64.cab e) :
    e < 2 ^ (cfg64.W - b) := by
  show e < 2 ^ (64 - b)
  rw [cfg64_cab_eq] at hle
  apply lt_of_log2_le
  split at hle
  · omega
  · split at hle <;> omega

/-- `cab_bound` restricted to bitmap widths `b < W` (the form that also holds for `cfg32`) -/
theorem cfg64_cab_bound (e b : Nat) (he : e < 2 ^ cfg64.W) (hb : 0 < b) (_hbW : b < cfg64.W)
    (hle : b ≤ cfg64.cab e) : e < 2 ^ (cfg64.W - b) := cfg64_cab_bound_full e b he hb hle

theorem cfg32_cab_bound (e b : Nat) (_he : e < 2 ^ cfg32.W) (hb : 0 < b) (hbW : b < cfg32.W)
    (hle : b ≤ cfg32.cab e) : e < 2 ^ (cfg32.W - b) := by
  have hbW' : b < 32 := hbW
  show e < 2 ^ (32 - b)
  rw [cfg32_cab_eq] at hle
  apply lt_of_log2_le
  split at hle
  · omega
  · split at hle <;> omega

theorem cfg64_cab_le_full (e : Nat) : cfg64.cab e ≤ cfg64.W := by
  show cfg64.cab e ≤ 64
  rw [cfg64_cab_eq]
  split
  · omega
  · split <;> omega

theorem cfg64_cab_le (e : Nat) (_h : 2 ≤ e) : cfg64.cab e ≤ cfg64.W := cfg64_cab_le_full e

theorem two_le_log2 {e : Nat} (h : 2 ≤ e) : 2 ≤ log2 e := by
  have := lt_two_pow_log2 e
  false_or_by_contra
  rename_i hn
  have : log2 e = 0 ∨ log2 e = 1 := by omega
  rcases this with h0 | h0 <;> rw [h0] at this <;> omega

theorem cfg32_cab_le (e : Nat) (h : 2 ≤ e) : cfg32.cab e ≤ cfg32.W := by
  show cfg32.cab e ≤ 32
  rw [cfg32_cab_eq]
  have := two_le_log2 h
  split
  · omega
  · split <;> omega

/-- the unconditional bound for `cfg32` -/
theorem cfg32_cab_le_62 (e : Nat) : cfg32.cab e ≤ 62 := by
  rw [cfg32_cab_eq]
  split
  · omega
  · split <;> omega

/-! ### the corner that shaped `CfgOK`: `compute_array_bits` of 0 and 1 is 62 in both source files, above `W = 32` -/

theorem cfg32_cab_small : cfg32.cab 0 = 62 ∧ cfg32.cab 1 = 62 := by decide

/-- `compute_array_bits` is a `W`-bit value (in fact at most 64) -/
theorem cfg64_cab_lt (e : Nat) : cfg64.cab e < 2 ^ cfg64.W := by
  have h := cfg64_cab_le_full e
  have : cfg64.W = 64 := rfl
  rw [this] at h ⊢
  exact Nat.lt_of_le_of_lt h (by decide)

theorem cfg32_cab_lt (e : Nat) : cfg32.cab e < 2 ^ cfg32.W := by
  have h := cfg32_cab_le_62 e
  have : cfg32.W = 32 := rfl
  rw [this]
  exact Nat.lt_of_le_of_lt h (by decide)

/-! ### instances -/

theorem cfg64_ok : CfgOK cfg64 where
  W_eq := by decide
  W_pos := by decide
  codec := TinyC.codec64_ok
  cab_bound := cfg64_cab_bound
  cab_le := cfg64_cab_le
  cab_lt := cfg64_cab_lt
  denseCap_pos := cfg64_denseCap_pos
  grow := cfg64_grow

theorem cfg32_ok : CfgOK cfg32 where
  W_eq := by decide
  W_pos := by decide
  codec := TinyC.codec32_ok
  cab_bound := cfg32_cab_bound
  cab_le := cfg32_cab_le
  cab_lt := cfg32_cab_lt
  denseCap_pos := cfg32_denseCap_pos
  grow := cfg32_grow

#print axioms cfg64_ok
#print axioms cfg32_ok
end SC
