import TinysetModel.Proofs.Place
namespace SC
open RH

/-- decoding/encoding of plain-table words: the placeholder stands for 0 -/
def dec (ph x : Nat) : Nat := if x = ph then 0 else x
def enc (ph e : Nat) : Nat := if e = 0 then ph else e

def plainElems (ph : Nat) (a : Tbl) : List Nat := (nz a).map (dec ph)

structure PlainWF (ph sz : Nat) (a : Tbl) : Prop where
  npos : 0 < a.size
  inv : Inv a 0
  cut : ∃ b, b < a.size ∧ Lin a 0 b
  szc : sz = (nz a).length
  ph_ne : ph ≠ 0

theorem K0 (a : Tbl) (i : Nat) : K a 0 i = get a i := by simp [K]

theorem enc_ne_zero {ph e : Nat} (hph : ph ≠ 0) : enc ph e ≠ 0 := by
  unfold enc; split <;> omega

theorem dec_enc {ph e : Nat} (he : e ≠ ph) : dec ph (enc ph e) = e := by
  unfold dec enc
  by_cases h0 : e = 0
  · simp [h0]
  · simp [h0, he]

/-- on non-zero words other than... decoding is injective -/
theorem dec_inj {ph x y : Nat} (hx : x ≠ 0) (hy : y ≠ 0) (h : dec ph x = dec ph y) : x = y := by
  unfold dec at h
  by_cases h1 : x = ph <;> by_cases h2 : y = ph <;> simp [h1, h2] at h <;> omega

/-- membership: `e` (≠ placeholder) is an element iff its encoding is a word of the table -/
theorem mem_plainElems {ph : Nat} {a : Tbl} {e : Nat} (hph : ph ≠ 0) (he : e ≠ ph) :
    e ∈ plainElems ph a ↔ enc ph e ∈ nz a := by
  unfold plainElems
  rw [List.mem_map]
  constructor
  · rintro ⟨x, hx, hd⟩
    have hx0 : x ≠ 0 := (mem_nz.1 hx).1
    have : x = enc ph e := by
      apply dec_inj hx0 (enc_ne_zero hph)
      rw [hd, dec_enc he]
    rw [← this]; exact hx
  · intro h; exact ⟨_, h, dec_enc he⟩

theorem plainElems_nodup {ph sz : Nat} {a : Tbl} (wf : PlainWF ph sz a) : (plainElems ph a).Nodup := by
  unfold plainElems
  have hn : (nz a).Nodup := by
    have := inv_nodup wf.inv
    simpa using this
  show List.Pairwise (· ≠ ·) _
  rw [List.pairwise_map]
  apply List.Pairwise.imp_of_mem _ hn
  intro x y hx hy hne h
  exact hne (dec_inj (mem_nz.1 hx).1 (mem_nz.1 hy).1 h)

/-- `contains` on the plain layout is membership -/
theorem contains_plain (c : Cfg) {ph sz cap : Nat} {a : Tbl} (wf : PlainWF ph sz a)
    (hpl : isPlain c ph = true) (hnd : isDense c ph = false) (e : Nat) :
    contains c (.heap sz cap ph a) e = true ↔ e ∈ plainElems ph a := by
  unfold contains
  simp only [hnd, hpl, if_true, Bool.false_eq_true, if_false]
  by_cases he : e = ph
  · subst he
    simp only [if_true]
    constructor
    · intro h; cases h
    · intro h
      -- the placeholder value itself is never an element: its only preimage would be a word
      -- x with dec ph x = ph, i.e. x = ph (then dec = 0 ≠ ph) or x ≠ ph (then dec = x ≠ ph)
      exfalso
      unfold plainElems at h
      rw [List.mem_map] at h
      obtain ⟨x, hx, hd⟩ := h
      unfold dec at hd
      split at hd
      · exact wf.ph_ne hd.symm
      · rename_i hne; exact hne hd
  · simp only [he, if_false]
    rw [mem_plainElems wf.ph_ne he]
    have hfold : (if e = 0 then ph else e) = enc ph e := rfl
    rw [hfold]
    constructor
    · intro h
      split at h
      · rename_i i hl
        obtain ⟨h1, h2, h3⟩ := lookforAux_found wf.npos _ _ _ hl
        rw [K0] at h3
        exact mem_nz.2 ⟨by rw [← h3]; exact h2, i, h1, h3⟩
      · cases h
    · intro h
      obtain ⟨h0, i, hi, hg⟩ := mem_nz.1 h
      have := lookfor_complete (k := enc ph e) wf.inv hi (by rw [hg]; exact h0) (by rw [K0]; exact hg)
      rw [this]

#print axioms contains_plain
end SC

namespace SC
open RH

theorem pure_run {D α : Type} (x : α) (d : D) : (pure x : M D α) d = .ok (x, d) := rfl

/-- `remove` on the plain layout -/
theorem remove_plain (c : Cfg) {D : Type} (g : Rng D) (fuel : Nat) {ph sz cap : Nat} {a : Tbl}
    (wf : PlainWF ph sz a) (hpl : isPlain c ph = true) (hnd : isDense c ph = false) (e : Nat) (d : D) :
    ∃ sz' a' b, remove c g fuel (.heap sz cap ph a) e d = .ok ((.heap sz' cap ph a', b), d) ∧
      PlainWF ph sz' a' ∧ (b = true ↔ e ∈ plainElems ph a) ∧
      (∀ x, x ∈ plainElems ph a' ↔ (x ∈ plainElems ph a ∧ x ≠ e)) := by
  unfold remove
  simp only [hnd, hpl, if_true, Bool.false_eq_true, if_false]
  by_cases he : e = ph
  · -- the placeholder value is never a member
    subst he
    simp only [if_true, pure_run]
    have hnot : e ∉ plainElems e a := by
      intro h
      unfold plainElems at h
      rw [List.mem_map] at h
      obtain ⟨x, hx, hd⟩ := h
      unfold dec at hd
      split at hd
      · exact wf.ph_ne hd.symm
      · rename_i hne; exact hne hd
    refine ⟨sz, a, false, rfl, wf, by simp [hnot], ?_⟩
    intro x
    constructor
    · intro hx; exact ⟨hx, fun hxe => hnot (hxe ▸ hx)⟩
    · intro hx; exact hx.1
  · simp only [he, if_false]
    have hfold : (if e = 0 then ph else e) = enc ph e := rfl
    rw [hfold]
    by_cases hmem : enc ph e ∈ nz a
    · -- present
      obtain ⟨h0, i, hi, hg⟩ := mem_nz.1 hmem
      obtain ⟨b, hb, hlin⟩ := wf.cut
      obtain ⟨a', hrm, hinv', hperm, hsz, z, hz, hz0⟩ :=
        premove_present (k := enc ph e) wf.inv hb hlin hi (by rw [hg]; exact h0) (by rw [K0]; exact hg)
      rw [hrm]
      simp only [if_true, pure_run]
      rw [hg] at hperm
      have hlen : (nz a).length = (nz a').length + 1 := by
        have := hperm.length_eq; simp at this; omega
      refine ⟨sz - 1, a', true, rfl, ⟨by rw [hsz]; exact wf.npos, hinv',
        ⟨next a'.size z, next_lt (by rw [hsz]; exact wf.npos), by
          rw [hsz]; exact lin_of_empty (by rw [← hsz] at hz; exact hinv') (by rw [hsz]; exact hz) hz0 |> fun h => by rw [hsz] at h; exact h⟩,
        by have := wf.szc; omega, wf.ph_ne⟩, by simp [mem_plainElems wf.ph_ne he, hmem], ?_⟩
      intro x
      -- membership through the permutation
      have hnd' : (enc ph e :: nz a').Nodup := by
        have := (hperm.nodup_iff).2 (by have := inv_nodup wf.inv; simpa using this)
        exact this
      unfold plainElems
      simp only [List.mem_map]
      constructor
      · rintro ⟨w, hw, rfl⟩
        refine ⟨⟨w, (hperm.mem_iff).1 (List.mem_cons_of_mem _ hw), rfl⟩, ?_⟩
        intro hde
        have hw0 : w ≠ 0 := (mem_nz.1 hw).1
        have : w = enc ph e := dec_inj hw0 (enc_ne_zero wf.ph_ne) (by rw [hde, dec_enc he])
        rw [this] at hw
        exact (List.nodup_cons.1 hnd').1 hw
      · rintro ⟨⟨w, hw, rfl⟩, hne⟩
        have := (hperm.mem_iff).2 hw
        rcases List.mem_cons.1 this with h1 | h1
        · exfalso; apply hne; rw [h1, dec_enc he]
        · exact ⟨w, h1, rfl⟩
    · -- absent
      have hfresh : ∀ i, i < a.size → get a i ≠ 0 → K a 0 i ≠ enc ph e := by
        intro i hi ho hk
        rw [K0] at hk
        exact hmem (mem_nz.2 ⟨by rw [← hk]; exact ho, i, hi, hk⟩)
      rw [premove_absent hfresh]
      simp only [Bool.false_eq_true, if_false, pure_run]
      have hnot : e ∉ plainElems ph a := by rw [mem_plainElems wf.ph_ne he]; exact hmem
      refine ⟨sz, a, false, rfl, wf, by simp [hnot], ?_⟩
      intro x
      constructor
      · intro hx; exact ⟨hx, fun hxe => hnot (hxe ▸ hx)⟩
      · intro hx; exact hx.1

#print axioms remove_plain
end SC

namespace SC
open RH

/-- `insert` on the plain layout for a value other than the placeholder, when no growth is needed:
    the answer is "was absent", and exactly that value is added -/
theorem insert_plain_nogrow (c : Cfg) {D : Type} (g : Rng D) {ph sz cap : Nat} {a : Tbl}
    (wf : PlainWF ph sz a) (e : Nat) (he : e ≠ ph) (d : D) :
    (e ∈ plainElems ph a →
        insertPlain c g sz cap ph a e d = .ok ((.heap sz cap ph a, false), d)) ∧
    (e ∉ plainElems ph a → ∀ a', tablePlace c (enc ph e) (enc ph e) 0 a = some a' →
        insertPlain c g sz cap ph a e d = .ok ((.heap (sz + 1) cap ph a', true), d) ∧
        PlainWF ph (sz + 1) a' ∧ (plainElems ph a').Perm (e :: plainElems ph a)) := by
  have hfold : (if e = 0 then ph else e) = enc ph e := rfl
  constructor
  · intro hmem
    rw [mem_plainElems wf.ph_ne he] at hmem
    obtain ⟨h0, i, hi, hg⟩ := mem_nz.1 hmem
    have hl := lookfor_complete (k := enc ph e) wf.inv hi (by rw [hg]; exact h0) (by rw [K0]; exact hg)
    unfold insertPlain
    simp only [he, if_false, hfold, bind, StateT.bind, pure, StateT.pure, Except.bind, Except.pure, hl]
  · intro hnot a' hplace
    rw [mem_plainElems wf.ph_ne he] at hnot
    have hfresh : ∀ i, i < a.size → get a i ≠ 0 → K a 0 i ≠ enc ph e := by
      intro i hi ho hk
      rw [K0] at hk
      exact hnot (mem_nz.2 ⟨by rw [← hk]; exact ho, i, hi, hk⟩)
    have hspec := tablePlace_spec c (k := enc ph e) (w := enc ph e) wf.npos wf.inv (enc_ne_zero wf.ph_ne) Nat.shiftRight_zero hfresh
    rw [hplace] at hspec
    obtain ⟨s1, s2, s3, s4⟩ := hspec
    have hnf : ∀ i, lookfor (enc ph e) a 0 ≠ .found i := lookfor_absent wf.npos hfresh
    refine ⟨?_, ⟨by rw [s1]; exact wf.npos, s2, s3, by rw [s4.length_eq, List.length_cons, ← wf.szc], wf.ph_ne⟩, ?_⟩
    · unfold insertPlain
      simp only [he, if_false, hfold, bind, StateT.bind, pure, StateT.pure, Except.bind, Except.pure]
      cases hl : lookfor (enc ph e) a 0 with
      | found i => exact absurd hl (hnf i)
      | empty ii => simp only [hplace]; rfl
      | needInsert => simp only [hplace]; rfl
    · unfold plainElems
      have := s4.map (dec ph)
      rw [List.map_cons, dec_enc he] at this
      exact this

#print axioms insert_plain_nogrow
end SC
