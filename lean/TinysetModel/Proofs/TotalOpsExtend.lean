import TinysetModel.Proofs.TotalOpsCollect
import TinysetModel.Proofs.CoreInst
import TinysetModel.Proofs.OpsSpec
/-! Total correctness of the public surface, part 2: `extend`, `removeAll` and the operators
`| / -` (all six forms) return normally.

The size side conditions of `insert_total` are discharged from the ghost bound of `Proofs/CapSpec.lean`:
`CapOK r M` (`capacity r ≤ 3 M + 5`, `len r ≤ M`) is kept by every `insert` with `M` growing by at most one, so a
loop of `n` inserts from a set with bound `M` only needs `SizeFits c (M + n)`, i.e. `3 (M + n) + 5 + W + 3 ≤ 2 ^ W`. -/
namespace SC
open RH Plain2

variable {c : Cfg} {D : Type}

/-- every bound below `2^62` fits the 64-bit configuration -/
theorem sizeFits64 {N : Nat} (h : N ≤ 2 ^ 62) : SizeFits cfg64 N := by
  have : cfg64.W = 64 := rfl
  unfold SizeFits
  rw [this]
  omega

/-- `insert` returns normally for a set within a fitting ghost bound, and the bound grows by at most one -/
theorem insert_total_cap (ok : CfgOK c) (lk : LikeS c) (cc : CapCfg c) (g : Rng D) (fuel : Nat) {r : Rp}
    (wf : WF c r) (e : Nat) (he : e < 2 ^ c.W) {M : Nat} (hc : CapOK r M) (hM : SizeFits c M) (d : D) :
    ∃ r' b d', insert c g (fuel + 2) r e d = .ok ((r', b), d') ∧ InsOK c r e r' b ∧ CapOK r' (M + 1) ∧
      CapOK r' (Max.max M (len r')) := by
  have h1 := hc.1
  have h2 := hc.2
  unfold SizeFits at hM
  obtain ⟨r', b, d', h⟩ := insert_totalS ok lk g fuel wf e he (by omega) (by omega) d
  have sp := insert_refines ok g (fuel + 2) r e d r' b d' wf he h
  have cp := insert_capOK ok cc g (allCores ok g) (fuel + 2) r e d r' b d' M wf he hc h
  have hl := len_of_InsOK ok wf sp
  have hle : len r' ≤ M + 1 := by
    rw [hl]; split <;> omega
  exact ⟨r', b, d', h, sp, cp.mono (Nat.max_le.2 ⟨Nat.le_succ _, hle⟩), cp⟩

/-- a loop of inserts returns normally; the ghost bound grows by at most the number of items -/
theorem insertAll_total_cap (ok : CfgOK c) (lk : LikeS c) (cc : CapCfg c) (g : Rng D) (fuel : Nat) :
    ∀ (xs : List Nat) (r : Rp) (d : D) (M : Nat), WF c r → (∀ x ∈ xs, x < 2 ^ c.W) → CapOK r M →
      SizeFits c (M + xs.length) →
      ∃ r' d', insertAll (insert c g (fuel + 2)) r xs d = .ok (r', d') ∧ WF c r' ∧ CapOK r' (M + xs.length) := by
  intro xs
  induction xs with
  | nil => intro r d M wf _ hc _; exact ⟨r, d, rfl, wf, hc⟩
  | cons x xs ih =>
    intro r d M wf hx hc hfit
    rw [List.length_cons] at hfit
    obtain ⟨r1, b, d1, h1, sp, cp, _⟩ := insert_total_cap ok lk cc g fuel wf x (hx x List.mem_cons_self) hc
      (hfit.mono (by omega)) d
    obtain ⟨r', d', h2, w2, c2⟩ := ih r1 d1 (M + 1) sp.wf (fun y hy => hx y (List.mem_cons_of_mem _ hy)) cp
      (hfit.mono (by omega))
    refine ⟨r', d', by rw [insertAll_cons_ok _ _ _ _ _ h1]; exact h2, w2, ?_⟩
    rw [List.length_cons]
    exact c2.mono (by omega)

/-- **`extend` returns normally**, and what it returns is right (`extend_capOK`) -/
theorem extend_total (ok : CfgOK c) (lk : LikeS c) (cc : CapCfg c) (g : Rng D) (fuel : Nat) {r : Rp} (wf : WF c r)
    (xs : List Nat) (hx : ∀ x ∈ xs, x < 2 ^ c.W) {M : Nat} (hc : CapOK r M) (hfit : SizeFits c (M + xs.length)) (d : D) :
    ∃ r' d', extend c g (fuel + 2) r xs d = .ok (r', d') ∧ WF c r' ∧ CapOK r' (M + xs.length) ∧
      CapOK r' (Max.max M (len r')) ∧ len r ≤ len r' ∧ ∀ x, x ∈ elems c r' ↔ (x ∈ elems c r ∨ x ∈ xs) := by
  obtain ⟨r', d', h, w, cp⟩ := insertAll_total_cap ok lk cc g fuel xs r d M wf hx hc hfit
  have h' : extend c g (fuel + 2) r xs d = .ok (r', d') := h
  obtain ⟨e1, _, e3, e4⟩ := extend_capOK ok cc g (allCores ok g) (fuel + 2) wf xs hx hc h'
  exact ⟨r', d', h', w, cp, e1, e3, e4⟩

theorem removeAll_cons_ok (g : Rng D) (fuel : Nat) (r : Rp) (x : Nat) (xs : List Nat) (d : D) {r1 : Rp} {b : Bool}
    {d1 : D} (h : remove c g fuel r x d = .ok ((r1, b), d1)) :
    removeAll c g fuel r (x :: xs) d = removeAll c g fuel r1 xs d1 := by
  simp only [removeAll, List.foldlM_cons, bind, StateT.bind, Except.bind, h]
  rfl

/-- **a loop of removes returns normally** (no size condition) -/
theorem removeAll_total (ok : CfgOK c) (lk : LikeS c) (cc : CapCfg c) (g : Rng D) (fuel : Nat) :
    ∀ (xs : List Nat) (r : Rp) (d : D), WF c r → (∀ x ∈ xs, x < 2 ^ c.W) →
      ∃ r' d', removeAll c g (fuel + 1) r xs d = .ok (r', d') := by
  intro xs
  induction xs with
  | nil => intro r d _ _; exact ⟨r, d, rfl⟩
  | cons x xs ih =>
    intro r d wf hx
    obtain ⟨r1, b, d1, h1⟩ := remove_total ok lk cc g fuel wf x (hx x List.mem_cons_self) d
    have sp := remove_refines ok g (fuel + 1) wf x (hx x List.mem_cons_self) h1
    obtain ⟨r', d', h2⟩ := ih r1 d1 sp.wf (fun y hy => hx y (List.mem_cons_of_mem _ hy))
    exact ⟨r', d', by rw [removeAll_cons_ok g _ _ _ _ _ h1]; exact h2⟩

/-! ### the operators -/

theorem elems_length_eq_len (ok : CfgOK c) {r : Rp} (wf : WF c r) : (elems c r).length = len r :=
  (absOK_of_wf ok wf).len.symm

theorem diff_filter_length_le (ok : CfgOK c) {a : Rp} (wa : WF c a) (b : Rp) :
    ((elems c a).filter (fun v => !contains c b v)).length ≤ len a := by
  rw [← elems_length_eq_len ok wa]
  exact List.length_filter_le _ _

/-- `&a | &b` -/
theorem unionRef_total (ok : CfgOK c) (lk : LikeS c) (cc : CapCfg c) (g : Rng D) (fuel : Nat) {a b : Rp}
    (wa : WF c a) (wb : WF c b) {Ma Mb : Nat} (ha : CapOK a Ma) (hb : CapOK b Mb)
    (hfit : SizeFits c (Max.max Ma Mb + len a + len b)) (d : D) :
    ∃ r d', unionRef c g (fuel + 2) a b d = .ok (r, d') := by
  unfold unionRef
  have hs : WF c (if len a > len b then withCapOf a else withCapOf b) ∧
      CapOK (if len a > len b then withCapOf a else withCapOf b) (Max.max Ma Mb) := by
    split
    · exact ⟨Cap.withCapOf_wf ok wa, (withCapOf_cap ha).mono (Nat.le_max_left _ _)⟩
    · exact ⟨Cap.withCapOf_wf ok wb, (withCapOf_cap hb).mono (Nat.le_max_right _ _)⟩
  have la := elems_length_eq_len ok wa
  have lb := elems_length_eq_len ok wb
  obtain ⟨s1, d1, h1, w1, c1, _⟩ := extend_total ok lk cc g fuel hs.1 (elems c a) (absOK_of_wf ok wa).range hs.2
    (by rw [la]; exact hfit.mono (by omega)) d
  obtain ⟨r, d', h2, _⟩ := extend_total ok lk cc g fuel w1 (elems c b) (absOK_of_wf ok wb).range c1
    (by rw [la, lb]; exact hfit) d1
  exact ⟨r, d', by rw [bind_run h1]; exact h2⟩

/-- `a | &b` -/
theorem unionOwn_total (ok : CfgOK c) (lk : LikeS c) (cc : CapCfg c) (g : Rng D) (fuel : Nat) {a b : Rp}
    (wa : WF c a) (wb : WF c b) {Ma : Nat} (ha : CapOK a Ma) (hfit : SizeFits c (Ma + len b)) (d : D) :
    ∃ r d', unionOwn c g (fuel + 2) a b d = .ok (r, d') := by
  unfold unionOwn
  have lb := elems_length_eq_len ok wb
  obtain ⟨r, d', h, _⟩ := extend_total ok lk cc g fuel wa (elems c b) (absOK_of_wf ok wb).range ha
    (by rw [lb]; exact hfit) d
  exact ⟨r, d', h⟩

/-- `&a | &b` for `Set64` (starts from `new()`) -/
theorem unionRef64_total (ok : CfgOK c) (lk : LikeS c) (cc : CapCfg c) (g : Rng D) (fuel : Nat) {a b : Rp}
    (wa : WF c a) (wb : WF c b) (hfit : SizeFits c (len a + len b)) (d : D) :
    ∃ r d', unionRef64 c g (fuel + 2) a b d = .ok (r, d') := by
  unfold unionRef64
  have la := elems_length_eq_len ok wa
  have lb := elems_length_eq_len ok wb
  obtain ⟨s1, d1, h1, w1, c1, _⟩ := extend_total ok lk cc g fuel (r := .empty) trivial (elems c a)
    (absOK_of_wf ok wa).range (CapOK.empty 0) (by rw [la]; exact hfit.mono (by omega)) d
  obtain ⟨r, d', h2, _⟩ := extend_total ok lk cc g fuel w1 (elems c b) (absOK_of_wf ok wb).range c1
    (by rw [la, lb]; exact hfit.mono (by omega)) d1
  exact ⟨r, d', by rw [bind_run h1]; exact h2⟩

/-- `&a - &b` -/
theorem diffRef_total (ok : CfgOK c) (lk : LikeS c) (cc : CapCfg c) (g : Rng D) (fuel : Nat) {a : Rp} (b : Rp)
    (wa : WF c a) {Ma : Nat} (ha : CapOK a Ma) (hfit : SizeFits c (Ma + len a)) (d : D) :
    ∃ r d', diffRef c g (fuel + 2) a b d = .ok (r, d') := by
  unfold diffRef
  have hl := diff_filter_length_le ok wa b
  obtain ⟨r, d', h, _⟩ := extend_total ok lk cc g fuel (Cap.withCapOf_wf ok wa)
    ((elems c a).filter (fun v => !contains c b v))
    (fun x hx => (absOK_of_wf ok wa).range x (List.mem_filter.1 hx).1) (withCapOf_cap ha)
    (hfit.mono (by omega)) d
  exact ⟨r, d', h⟩

/-- `&a - &b` for `Set64` (starts from `new()`) -/
theorem diffRef64_total (ok : CfgOK c) (lk : LikeS c) (cc : CapCfg c) (g : Rng D) (fuel : Nat) {a : Rp} (b : Rp)
    (wa : WF c a) (hfit : SizeFits c (len a)) (d : D) :
    ∃ r d', diffRef64 c g (fuel + 2) a b d = .ok (r, d') := by
  unfold diffRef64
  have hl := diff_filter_length_le ok wa b
  obtain ⟨r, d', h, _⟩ := extend_total ok lk cc g fuel (r := .empty) trivial
    ((elems c a).filter (fun v => !contains c b v))
    (fun x hx => (absOK_of_wf ok wa).range x (List.mem_filter.1 hx).1) (CapOK.empty 0)
    (hfit.mono (by omega)) d
  exact ⟨r, d', h⟩

/-- `a - &b` (a loop of removes: no size condition) -/
theorem diffOwn_total (ok : CfgOK c) (lk : LikeS c) (cc : CapCfg c) (g : Rng D) (fuel : Nat) {a b : Rp}
    (wa : WF c a) (wb : WF c b) (d : D) : ∃ r d', diffOwn c g (fuel + 1) a b d = .ok (r, d') :=
  removeAll_total ok lk cc g fuel (elems c b) a d wa (absOK_of_wf ok wb).range

/-! ### the `SetU64` instances, with the partial-correctness theorems attached

"Bounded size" is `CapOK r M` for a ghost bound `M < 2^60` — what `hist_ok` provides for every set reachable
from `new()` / `collect` (`M` = the largest member count the set, or a set it was derived from, has had). -/

/-- `SetU64::extend` returns normally and adds exactly the items -/
theorem extend_total_u64 (g : Rng D) (fuel : Nat) {r : Rp} (wf : WF cfg64 r) (xs : List Nat)
    (hx : ∀ x ∈ xs, x < 2 ^ 64) {M : Nat} (hc : CapOK r M) (hsize : M + xs.length < 2 ^ 60) (d : D) :
    ∃ r' d', extend cfg64 g (fuel + 2) r xs d = .ok (r', d') ∧ WF cfg64 r' ∧ CapOK r' (Max.max M (len r')) ∧
      ∀ x, x ∈ elems cfg64 r' ↔ (x ∈ elems cfg64 r ∨ x ∈ xs) := by
  obtain ⟨r', d', h, w, _, cp, _, hm⟩ := extend_total cfg64_ok cfg64_likeS capCfg64 g fuel wf xs hx hc
    (sizeFits64 (by omega)) d
  exact ⟨r', d', h, w, cp, hm⟩

/-- `&a | &b` (`SetU64`) -/
theorem unionRef_total_u64 (g : Rng D) (fuel : Nat) {a b : Rp} (wa : WF cfg64 a) (wb : WF cfg64 b) {Ma Mb : Nat}
    (ha : CapOK a Ma) (hb : CapOK b Mb) (hsize : Ma + Mb < 2 ^ 60) (d : D) :
    ∃ r d', unionRef cfg64 g (fuel + 2) a b d = .ok (r, d') ∧ WF cfg64 r ∧
      (∀ x, x ∈ elems cfg64 r ↔ (x ∈ elems cfg64 a ∨ x ∈ elems cfg64 b)) := by
  have h1 := ha.2
  have h2 := hb.2
  have h3 : Max.max Ma Mb ≤ Ma + Mb := Nat.max_le.2 ⟨by omega, by omega⟩
  obtain ⟨r, d', h⟩ := unionRef_total cfg64_ok cfg64_likeS capCfg64 g fuel wa wb ha hb (sizeFits64 (by omega)) d
  obtain ⟨w, m, _⟩ := unionRef_ok cfg64_ok (coreOK cfg64_ok g (fuel + 2)) wa wb h
  exact ⟨r, d', h, w, m⟩

/-- `a | &b` (`SetU64`) -/
theorem unionOwn_total_u64 (g : Rng D) (fuel : Nat) {a b : Rp} (wa : WF cfg64 a) (wb : WF cfg64 b) {Ma Mb : Nat}
    (ha : CapOK a Ma) (hb : CapOK b Mb) (hsize : Ma + Mb < 2 ^ 60) (d : D) :
    ∃ r d', unionOwn cfg64 g (fuel + 2) a b d = .ok (r, d') ∧ WF cfg64 r ∧
      (∀ x, x ∈ elems cfg64 r ↔ (x ∈ elems cfg64 a ∨ x ∈ elems cfg64 b)) := by
  have h2 := hb.2
  obtain ⟨r, d', h⟩ := unionOwn_total cfg64_ok cfg64_likeS capCfg64 g fuel wa wb ha (sizeFits64 (by omega)) d
  obtain ⟨w, m, _⟩ := unionOwn_ok (coreOK cfg64_ok g (fuel + 2)) wa wb h
  exact ⟨r, d', h, w, m⟩

/-- `&a | &b` (`Set64`) -/
theorem unionRef64_total_u64 (g : Rng D) (fuel : Nat) {a b : Rp} (wa : WF cfg64 a) (wb : WF cfg64 b)
    (hsize : len a + len b < 2 ^ 60) (d : D) :
    ∃ r d', unionRef64 cfg64 g (fuel + 2) a b d = .ok (r, d') ∧ WF cfg64 r ∧
      (∀ x, x ∈ elems cfg64 r ↔ (x ∈ elems cfg64 a ∨ x ∈ elems cfg64 b)) := by
  obtain ⟨r, d', h⟩ := unionRef64_total cfg64_ok cfg64_likeS capCfg64 g fuel wa wb (sizeFits64 (by omega)) d
  obtain ⟨w, m, _⟩ := unionRef64_ok (coreOK cfg64_ok g (fuel + 2)) wa wb h
  exact ⟨r, d', h, w, m⟩

/-- `&a - &b` (`SetU64`) -/
theorem diffRef_total_u64 (g : Rng D) (fuel : Nat) {a b : Rp} (wa : WF cfg64 a) (wb : WF cfg64 b) {Ma : Nat}
    (ha : CapOK a Ma) (hsize : Ma < 2 ^ 60) (d : D) :
    ∃ r d', diffRef cfg64 g (fuel + 2) a b d = .ok (r, d') ∧ WF cfg64 r ∧
      (∀ x, x ∈ elems cfg64 r ↔ (x ∈ elems cfg64 a ∧ x ∉ elems cfg64 b)) := by
  have h1 := ha.2
  obtain ⟨r, d', h⟩ := diffRef_total cfg64_ok cfg64_likeS capCfg64 g fuel b wa ha (sizeFits64 (by omega)) d
  obtain ⟨w, m, _⟩ := diffRef_ok cfg64_ok (coreOK cfg64_ok g (fuel + 2)) wa wb h
  exact ⟨r, d', h, w, m⟩

/-- `&a - &b` (`Set64`) -/
theorem diffRef64_total_u64 (g : Rng D) (fuel : Nat) {a b : Rp} (wa : WF cfg64 a) (wb : WF cfg64 b)
    (hsize : len a < 2 ^ 60) (d : D) :
    ∃ r d', diffRef64 cfg64 g (fuel + 2) a b d = .ok (r, d') ∧ WF cfg64 r ∧
      (∀ x, x ∈ elems cfg64 r ↔ (x ∈ elems cfg64 a ∧ x ∉ elems cfg64 b)) := by
  obtain ⟨r, d', h⟩ := diffRef64_total cfg64_ok cfg64_likeS capCfg64 g fuel b wa (sizeFits64 (by omega)) d
  obtain ⟨w, m, _⟩ := diffRef64_ok (coreOK cfg64_ok g (fuel + 2)) wa wb h
  exact ⟨r, d', h, w, m⟩

/-- `a - &b` (`SetU64`; no size condition) -/
theorem diffOwn_total_u64 (g : Rng D) (fuel : Nat) {a b : Rp} (wa : WF cfg64 a) (wb : WF cfg64 b) (d : D) :
    ∃ r d', diffOwn cfg64 g (fuel + 2) a b d = .ok (r, d') ∧ WF cfg64 r ∧
      (∀ x, x ∈ elems cfg64 r ↔ (x ∈ elems cfg64 a ∧ x ∉ elems cfg64 b)) := by
  obtain ⟨r, d', h⟩ := diffOwn_total cfg64_ok cfg64_likeS capCfg64 g (fuel + 1) wa wb d
  obtain ⟨w, m, _⟩ := diffOwn_ok (coreOK cfg64_ok g (fuel + 2)) wa wb h
  exact ⟨r, d', h, w, m⟩

/-! ### the `SetU32` instances (ghost bound below `2^28`) -/

/-- `SetU32::extend` returns normally and adds exactly the items -/
theorem extend_total_u32 (g : Rng D) (fuel : Nat) {r : Rp} (wf : WF cfg32 r) (xs : List Nat)
    (hx : ∀ x ∈ xs, x < 2 ^ 32) {M : Nat} (hc : CapOK r M) (hsize : M + xs.length < 2 ^ 28) (d : D) :
    ∃ r' d', extend cfg32 g (fuel + 2) r xs d = .ok (r', d') ∧ WF cfg32 r' ∧ CapOK r' (Max.max M (len r')) ∧
      ∀ x, x ∈ elems cfg32 r' ↔ (x ∈ elems cfg32 r ∨ x ∈ xs) := by
  obtain ⟨r', d', h, w, _, cp, _, hm⟩ := extend_total cfg32_ok cfg32_likeS capCfg32 g fuel wf xs hx hc
    (sizeFits32 (by omega)) d
  exact ⟨r', d', h, w, cp, hm⟩

/-- `&a | &b` (`SetU32`) -/
theorem unionRef_total_u32 (g : Rng D) (fuel : Nat) {a b : Rp} (wa : WF cfg32 a) (wb : WF cfg32 b) {Ma Mb : Nat}
    (ha : CapOK a Ma) (hb : CapOK b Mb) (hsize : Ma + Mb < 2 ^ 28) (d : D) :
    ∃ r d', unionRef cfg32 g (fuel + 2) a b d = .ok (r, d') ∧ WF cfg32 r ∧
      (∀ x, x ∈ elems cfg32 r ↔ (x ∈ elems cfg32 a ∨ x ∈ elems cfg32 b)) := by
  have h1 := ha.2
  have h2 := hb.2
  have h3 : Max.max Ma Mb ≤ Ma + Mb := Nat.max_le.2 ⟨by omega, by omega⟩
  obtain ⟨r, d', h⟩ := unionRef_total cfg32_ok cfg32_likeS capCfg32 g fuel wa wb ha hb (sizeFits32 (by omega)) d
  obtain ⟨w, m, _⟩ := unionRef_ok cfg32_ok (coreOK cfg32_ok g (fuel + 2)) wa wb h
  exact ⟨r, d', h, w, m⟩

/-- `a | &b` (`SetU32`) -/
theorem unionOwn_total_u32 (g : Rng D) (fuel : Nat) {a b : Rp} (wa : WF cfg32 a) (wb : WF cfg32 b) {Ma Mb : Nat}
    (ha : CapOK a Ma) (hb : CapOK b Mb) (hsize : Ma + Mb < 2 ^ 28) (d : D) :
    ∃ r d', unionOwn cfg32 g (fuel + 2) a b d = .ok (r, d') ∧ WF cfg32 r ∧
      (∀ x, x ∈ elems cfg32 r ↔ (x ∈ elems cfg32 a ∨ x ∈ elems cfg32 b)) := by
  have h2 := hb.2
  obtain ⟨r, d', h⟩ := unionOwn_total cfg32_ok cfg32_likeS capCfg32 g fuel wa wb ha (sizeFits32 (by omega)) d
  obtain ⟨w, m, _⟩ := unionOwn_ok (coreOK cfg32_ok g (fuel + 2)) wa wb h
  exact ⟨r, d', h, w, m⟩

/-- `&a | &b` (`Set32`) -/
theorem unionRef64_total_u32 (g : Rng D) (fuel : Nat) {a b : Rp} (wa : WF cfg32 a) (wb : WF cfg32 b)
    (hsize : len a + len b < 2 ^ 28) (d : D) :
    ∃ r d', unionRef64 cfg32 g (fuel + 2) a b d = .ok (r, d') ∧ WF cfg32 r ∧
      (∀ x, x ∈ elems cfg32 r ↔ (x ∈ elems cfg32 a ∨ x ∈ elems cfg32 b)) := by
  obtain ⟨r, d', h⟩ := unionRef64_total cfg32_ok cfg32_likeS capCfg32 g fuel wa wb (sizeFits32 (by omega)) d
  obtain ⟨w, m, _⟩ := unionRef64_ok (coreOK cfg32_ok g (fuel + 2)) wa wb h
  exact ⟨r, d', h, w, m⟩

/-- `&a - &b` (`SetU32`) -/
theorem diffRef_total_u32 (g : Rng D) (fuel : Nat) {a b : Rp} (wa : WF cfg32 a) (wb : WF cfg32 b) {Ma : Nat}
    (ha : CapOK a Ma) (hsize : Ma < 2 ^ 28) (d : D) :
    ∃ r d', diffRef cfg32 g (fuel + 2) a b d = .ok (r, d') ∧ WF cfg32 r ∧
      (∀ x, x ∈ elems cfg32 r ↔ (x ∈ elems cfg32 a ∧ x ∉ elems cfg32 b)) := by
  have h1 := ha.2
  obtain ⟨r, d', h⟩ := diffRef_total cfg32_ok cfg32_likeS capCfg32 g fuel b wa ha (sizeFits32 (by omega)) d
  obtain ⟨w, m, _⟩ := diffRef_ok cfg32_ok (coreOK cfg32_ok g (fuel + 2)) wa wb h
  exact ⟨r, d', h, w, m⟩

/-- `&a - &b` (`Set32`) -/
theorem diffRef64_total_u32 (g : Rng D) (fuel : Nat) {a b : Rp} (wa : WF cfg32 a) (wb : WF cfg32 b)
    (hsize : len a < 2 ^ 28) (d : D) :
    ∃ r d', diffRef64 cfg32 g (fuel + 2) a b d = .ok (r, d') ∧ WF cfg32 r ∧
      (∀ x, x ∈ elems cfg32 r ↔ (x ∈ elems cfg32 a ∧ x ∉ elems cfg32 b)) := by
  obtain ⟨r, d', h⟩ := diffRef64_total cfg32_ok cfg32_likeS capCfg32 g fuel b wa (sizeFits32 (by omega)) d
  obtain ⟨w, m, _⟩ := diffRef64_ok (coreOK cfg32_ok g (fuel + 2)) wa wb h
  exact ⟨r, d', h, w, m⟩

/-- `a - &b` (`SetU32`; no size condition) -/
theorem diffOwn_total_u32 (g : Rng D) (fuel : Nat) {a b : Rp} (wa : WF cfg32 a) (wb : WF cfg32 b) (d : D) :
    ∃ r d', diffOwn cfg32 g (fuel + 2) a b d = .ok (r, d') ∧ WF cfg32 r ∧
      (∀ x, x ∈ elems cfg32 r ↔ (x ∈ elems cfg32 a ∧ x ∉ elems cfg32 b)) := by
  obtain ⟨r, d', h⟩ := diffOwn_total cfg32_ok cfg32_likeS capCfg32 g (fuel + 1) wa wb d
  obtain ⟨w, m, _⟩ := diffOwn_ok (coreOK cfg32_ok g (fuel + 2)) wa wb h
  exact ⟨r, d', h, w, m⟩

#print axioms insert_total_cap
#print axioms extend_total
#print axioms removeAll_total
#print axioms unionRef_total
#print axioms unionOwn_total
#print axioms unionRef64_total
#print axioms diffRef_total
#print axioms diffRef64_total
#print axioms diffOwn_total
#print axioms extend_total_u64
#print axioms unionRef_total_u64
#print axioms unionOwn_total_u64
#print axioms unionRef64_total_u64
#print axioms diffRef_total_u64
#print axioms diffRef64_total_u64
#print axioms diffOwn_total_u64
#print axioms extend_total_u32
#print axioms unionRef_total_u32
#print axioms unionOwn_total_u32
#print axioms unionRef64_total_u32
#print axioms diffRef_total_u32
#print axioms diffRef64_total_u32
#print axioms diffOwn_total_u32
end SC
