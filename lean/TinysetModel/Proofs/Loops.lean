import TinysetModel.Model.RH
import TinysetModel.Generated.Loops
/-! The Robin-Hood primitives of the model (`Model/RH.lean`) ARE the primitives of the current source:
`Generated/Loops.lean` holds `p_lookfor`, `p_insert`, `p_remove` of `src/setu64.rs` and `src/setu32.rs` translated
statement by statement on every run (`tools/gen_loops.py`); here: for every key, table and offset the translated
functions compute exactly `RH.lookfor`, `RH.pinsert`, `RH.premove` (for `SetU32` — whose code narrows lengths to
`u32` — on tables of at most 2^31 buckets).  An edit to one of the three functions in `/repo` changes a definition
under one of these theorems. -/
namespace RH

def convLooked : Looked → Gen.Looked
  | .empty i => .empty i
  | .found i => .found i
  | .needInsert => .needInsert

/-- `panic!("… no room")` ↔ `noRoom`, `unreachable!()` ↔ `unreachable` -/
def convErr {α : Type} : Except Err α → Except String α
  | .ok x => .ok x
  | .error .noRoom => .error "panic"
  | .error .unreachable => .error "unreachable"

/-! ### `setu64.rs` -/

theorem lookfor64_loop (k : Nat) (a : Tbl) (off : Nat) : ∀ (fuel pov : Nat),
    Gen.p_lookfor_64_loop1 k a off a.size fuel pov = .ok (convLooked (lookforAux k a off a.size fuel pov), a) := by
  intro fuel
  induction fuel with
  | zero => intro pov; rfl
  | succ f ih =>
    intro pov
    simp only [Gen.p_lookfor_64_loop1, lookforAux, slot, RH.get.eq_1, Gen.RI.idx, Gen.p_poverty_64, RH.pov]
    split <;> rename_i h1 <;> simp only [h1, ↓reduceIte, convLooked]
    split <;> rename_i h2 <;> simp only [h2, ↓reduceIte, convLooked]
    split <;> rename_i h3 <;> simp only [h3, ↓reduceIte, convLooked]
    exact ih (pov + 1)

/-- `p_lookfor` of `setu64.rs` is `RH.lookfor` (and leaves the slice alone) -/
theorem p_lookfor_64_eq (k : Nat) (a : Tbl) (off : Nat) :
    Gen.p_lookfor_64 k a off = .ok (convLooked (lookfor k a off), a) := by
  simp only [Gen.p_lookfor_64, lookfor, Nat.sub_zero]
  exact lookfor64_loop k a off a.size 0

theorem cascade64_loop (k off n f1 pv ii ki pki stolen : Nat) : ∀ (fuel j : Nat) (a : Tbl) (d pd : Nat),
    Gen.p_insert_64_loop2 k off n f1 pv ii ki pki stolen fuel j a d pd =
      convErr ((cascade off n stolen fuel j a d pd).map (fun a' => (stolen, a'))) := by
  intro fuel
  induction fuel with
  | zero => intro j a d pd; rfl
  | succ f ih =>
    intro j a d pd
    simp only [Gen.p_insert_64_loop2, cascade, slot, RH.get.eq_1, RH.put.eq_1, Gen.RI.idx, Gen.RI.set, Gen.p_poverty_64, RH.pov]
    split <;> rename_i h1 <;> simp only [h1, ↓reduceIte]
    · rfl
    · split <;> rename_i h2 <;> simp only [h2, ↓reduceIte]
      · exact ih (j + 1) _ _ _
      · exact ih (j + 1) _ _ _

theorem pinsert64_loop (k off n : Nat) : ∀ (fuel pv : Nat) (a : Tbl),
    Gen.p_insert_64_loop1 k off n fuel pv a = convErr (pinsertAux k off n fuel pv a) := by
  intro fuel
  induction fuel with
  | zero => intro pv a; rfl
  | succ f ih =>
    intro pv a
    simp only [Gen.p_insert_64_loop1, pinsertAux, slot, RH.get.eq_1, RH.put.eq_1, Gen.RI.idx, Gen.RI.set, Gen.p_poverty_64, RH.pov]
    split <;> rename_i h1 <;> simp only [h1, ↓reduceIte]
    · rfl
    · split <;> rename_i h2 <;> simp only [h2, ↓reduceIte]
      · exact cascade64_loop k off n f pv _ _ _ _ (n - 1) 1 _ _ _
      · exact ih (pv + 1) a

/-- `p_insert` of `setu64.rs` is `RH.pinsert` (index returned, slice afterwards, the two panics) -/
theorem p_insert_64_eq (k : Nat) (a : Tbl) (off : Nat) : Gen.p_insert_64 k a off = convErr (pinsert k a off) := by
  simp only [Gen.p_insert_64, pinsert, Nat.sub_zero]
  exact pinsert64_loop k off a.size a.size 0 a

theorem unshift64_loop (k off n f1 i ii ki iki : Nat) : ∀ (fuel j : Nat) (a : Tbl) (prevI : Nat),
    Gen.p_remove_64_loop2 k off n f1 i ii ki iki fuel j a prevI = .ok (true, unshift off n ii fuel j prevI a) := by
  intro fuel
  induction fuel with
  | zero => intro j a prevI; rfl
  | succ f ih =>
    intro j a prevI
    simp only [Gen.p_remove_64_loop2, unshift, slot, RH.get.eq_1, RH.put.eq_1, Gen.RI.idx, Gen.RI.set, Gen.p_poverty_64, RH.pov]
    split <;> rename_i h1 <;> simp only [h1, ↓reduceIte]
    exact ih (j + 1) _ _

theorem premove64_loop (k off n : Nat) : ∀ (fuel i : Nat) (a : Tbl),
    Gen.p_remove_64_loop1 k off n fuel i a = .ok (premoveAux k off n fuel i a) := by
  intro fuel
  induction fuel with
  | zero => intro i a; rfl
  | succ f ih =>
    intro i a
    simp only [Gen.p_remove_64_loop1, premoveAux, slot, RH.get.eq_1, RH.put.eq_1, Gen.RI.idx, Gen.RI.set]
    split <;> rename_i h1 <;> simp only [h1, ↓reduceIte]
    split <;> rename_i h2 <;> simp only [h2, ↓reduceIte]
    split <;> rename_i h3 <;> simp only [h3, ↓reduceIte]
    · exact unshift64_loop k off n f i _ _ _ (n - 1) 1 _ _
    · exact ih (i + 1) a

/-- `p_remove` of `setu64.rs` is `RH.premove` (answer and slice afterwards; it never panics) -/
theorem p_remove_64_eq (k : Nat) (a : Tbl) (off : Nat) : Gen.p_remove_64 k a off = .ok (premove k a off) := by
  simp only [Gen.p_remove_64, premove, Nat.sub_zero]
  exact premove64_loop k off a.size a.size 0 a

/-! ### `setu32.rs` (lengths are narrowed to `u32` in `p_poverty` and `p_remove`; the probe index is computed in `u64`) -/

theorem lookfor32_loop (k : Nat) (a : Tbl) (off : Nat) (hn : a.size < 2 ^ 32) : ∀ (fuel pov : Nat),
    Gen.p_lookfor_32_loop1 k a off a.size fuel pov = .ok (convLooked (lookforAux k a off a.size fuel pov), a) := by
  have e32 : a.size % 4294967296 = a.size := Nat.mod_eq_of_lt hn
  intro fuel
  induction fuel with
  | zero => intro pov; rfl
  | succ f ih =>
    intro pov
    simp only [Gen.p_lookfor_32_loop1, lookforAux, slot, RH.get.eq_1, Gen.RI.idx, Gen.p_poverty_32, RH.pov, e32, Nat.mod_add_mod]
    split <;> rename_i h1 <;> (try simp only [h1, ↓reduceIte, convLooked])
    split <;> rename_i h2 <;> (try simp only [h2, ↓reduceIte, convLooked])
    split <;> rename_i h3 <;> (try simp only [h3, ↓reduceIte, convLooked])
    all_goals first | rfl | exact ih (pov + 1)

/-- `p_lookfor` of `setu32.rs` is `RH.lookfor` -/
theorem p_lookfor_32_eq (k : Nat) (a : Tbl) (off : Nat) (hn : a.size < 2 ^ 32) :
    Gen.p_lookfor_32 k a off = .ok (convLooked (lookfor k a off), a) := by
  simp only [Gen.p_lookfor_32, lookfor, Nat.sub_zero]
  exact lookfor32_loop k a off hn a.size 0

theorem cascade32_loop (k off n f1 pv ii ki pki stolen : Nat) (hn : n < 2 ^ 32) : ∀ (fuel j : Nat) (a : Tbl) (d pd : Nat),
    Gen.p_insert_32_loop2 k off n f1 pv ii ki pki stolen fuel j a d pd =
      convErr ((cascade off n stolen fuel j a d pd).map (fun a' => (stolen, a'))) := by
  have e32 : n % 4294967296 = n := Nat.mod_eq_of_lt hn
  intro fuel
  induction fuel with
  | zero => intro j a d pd; rfl
  | succ f ih =>
    intro j a d pd
    simp only [Gen.p_insert_32_loop2, cascade, slot, RH.get.eq_1, RH.put.eq_1, Gen.RI.idx, Gen.RI.set, Gen.p_poverty_32, RH.pov, e32]
    split <;> rename_i h1 <;> (try simp only [h1, ↓reduceIte])
    all_goals (try split) <;> (try simp only [*, ↓reduceIte])
    all_goals first | rfl | exact ih (j + 1) _ _ _

theorem pinsert32_loop (k off n : Nat) (hn : n < 2 ^ 32) : ∀ (fuel pv : Nat) (a : Tbl),
    Gen.p_insert_32_loop1 k off n fuel pv a = convErr (pinsertAux k off n fuel pv a) := by
  have e32 : n % 4294967296 = n := Nat.mod_eq_of_lt hn
  intro fuel
  induction fuel with
  | zero => intro pv a; rfl
  | succ f ih =>
    intro pv a
    simp only [Gen.p_insert_32_loop1, pinsertAux, slot, RH.get.eq_1, RH.put.eq_1, Gen.RI.idx, Gen.RI.set, Gen.p_poverty_32, RH.pov, e32, Nat.mod_add_mod]
    split <;> rename_i h1 <;> (try simp only [h1, ↓reduceIte])
    all_goals (try split) <;> (try simp only [*, ↓reduceIte])
    all_goals first | rfl | exact cascade32_loop k off n f pv _ _ _ _ hn (n - 1) 1 _ _ _ | exact ih (pv + 1) a

/-- `p_insert` of `setu32.rs` is `RH.pinsert` -/
theorem p_insert_32_eq (k : Nat) (a : Tbl) (off : Nat) (hn : a.size < 2 ^ 32) :
    Gen.p_insert_32 k a off = convErr (pinsert k a off) := by
  simp only [Gen.p_insert_32, pinsert, Nat.sub_zero]
  exact pinsert32_loop k off a.size hn a.size 0 a

theorem unshift32_loop (k off n f1 i ii ki iki : Nat) (hn : n < 2 ^ 32) : ∀ (fuel j : Nat) (a : Tbl) (prevI : Nat),
    Gen.p_remove_32_loop2 k off n f1 i ii ki iki fuel j a prevI = .ok (true, unshift off n ii fuel j prevI a) := by
  have e32 : n % 4294967296 = n := Nat.mod_eq_of_lt hn
  intro fuel
  induction fuel with
  | zero => intro j a prevI; rfl
  | succ f ih =>
    intro j a prevI
    simp only [Gen.p_remove_32_loop2, unshift, slot, RH.get.eq_1, RH.put.eq_1, Gen.RI.idx, Gen.RI.set, Gen.p_poverty_32, RH.pov, e32]
    split <;> rename_i h1 <;> (try simp only [h1, ↓reduceIte])
    all_goals first | rfl | exact ih (j + 1) _ _

theorem premove32_loop (k off n : Nat) (hn0 : 0 < n) (hn : n ≤ 2 ^ 31) : ∀ (fuel i : Nat) (a : Tbl),
    Gen.p_remove_32_loop1 k off n fuel i a = .ok (premoveAux k off n fuel i a) := by
  have e32 : n % 4294967296 = n := Nat.mod_eq_of_lt (by omega)
  intro fuel
  induction fuel with
  | zero => intro i a; rfl
  | succ f ih =>
    intro i a
    have hlt : (k + i) % n + n < 4294967296 := by have := Nat.mod_lt (k + i) hn0; omega
    simp only [Gen.p_remove_32_loop1, premoveAux, slot, RH.get.eq_1, RH.put.eq_1, Gen.RI.idx, Gen.RI.set, e32, Nat.mod_add_mod,
      Nat.mod_eq_of_lt hlt]
    split <;> rename_i h1 <;> (try simp only [h1, ↓reduceIte])
    split <;> rename_i h2 <;> (try simp only [h2, ↓reduceIte])
    split <;> rename_i h3 <;> (try simp only [h3, ↓reduceIte])
    all_goals first | rfl | exact unshift32_loop k off n f i _ _ _ (by omega) (n - 1) 1 _ _ | exact ih (i + 1) a

/-- `p_remove` of `setu32.rs` is `RH.premove` on tables of at most 2^31 buckets (it computes `(ii + n) as u32`) -/
theorem p_remove_32_eq (k : Nat) (a : Tbl) (off : Nat) (hn : a.size ≤ 2 ^ 31) :
    Gen.p_remove_32 k a off = .ok (premove k a off) := by
  simp only [Gen.p_remove_32, premove, Nat.sub_zero]
  by_cases h0 : a.size = 0
  · rw [h0]; rfl
  · exact premove32_loop k off a.size (by omega) hn a.size 0 a

end RH

#print axioms RH.p_lookfor_64_eq
#print axioms RH.p_insert_64_eq
#print axioms RH.p_remove_64_eq
#print axioms RH.p_lookfor_32_eq
#print axioms RH.p_insert_32_eq
#print axioms RH.p_remove_32_eq
