import TinysetModel.Model.RH
namespace RH

@[simp] theorem size_put (a : Tbl) (i v : Nat) : (put a i v).size = a.size := by
  simp [put]

theorem get_put_eq {a : Tbl} {i : Nat} (v : Nat) (hi : i < a.size) : get (put a i v) i = v := by
  simp [get, put, Array.getD_eq_getD_getElem?, hi]

theorem get_put_ne {a : Tbl} {i j : Nat} (v : Nat) (h : i ≠ j) : get (put a i v) j = get a j := by
  simp [get, put, Array.getD_eq_getD_getElem?, Array.getElem?_setIfInBounds, h]

theorem get_put (a : Tbl) (i j v : Nat) (hi : i < a.size) :
    get (put a i v) j = if i = j then v else get a j := by
  split
  · rename_i h; subst h; exact get_put_eq v hi
  · rename_i h; exact get_put_ne v h

theorem get_oob {a : Tbl} {i : Nat} (h : a.size ≤ i) : get a i = 0 := by
  simp [get, Array.getD_eq_getD_getElem?, h]

end RH
