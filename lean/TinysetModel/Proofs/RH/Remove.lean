import TinysetModel.Proofs.RH.Cut
namespace RH

theorem pov_prev {k i n : Nat} (hi : i < n) (h : 0 < pov k i n) :
    pov k (prev n i) n = pov k i n - 1 := by
  have hn : 0 < n := by omega
  rw [pov_eq_dist (prev_lt hi), pov_eq_dist hi] at *
  exact dist_prev (Nat.mod_lt _ hn) hi h

section
variable {a : Tbl} {off i0 : Nat}

/-- backward-shift loop invariant -/
structure Unsh (a : Tbl) (off i0 : Nat) (j : Nat) (aj : Tbl) : Prop where
  sz : aj.size = a.size
  jpos : 1 ≤ j
  jle : j ≤ a.size
  hole : get aj (slot a.size i0 (j-1)) = 0
  unt : ∀ x, x < a.size → j ≤ dist a.size i0 x → get aj x = get a x
  shf : ∀ i, 1 ≤ i → i < j → get aj (slot a.size i0 (i-1)) = get a (slot a.size i0 i) ∧
      get a (slot a.size i0 i) ≠ 0 ∧ 0 < P a off (slot a.size i0 i)
  perm : (get a i0 :: nz aj).Perm (nz a)

structure UnshDone (a : Tbl) (off i0 : Nat) (J : Nat) (a' : Tbl) : Prop where
  inv : Unsh a off i0 J a'
  stop : J = a.size ∨ (J < a.size ∧ (get a (slot a.size i0 J) = 0 ∨ P a off (slot a.size i0 J) = 0))

theorem unshift_spec (hi0 : i0 < a.size) :
    ∀ fuel j aj, Unsh a off i0 j aj → fuel = a.size - j →
      ∃ J, UnshDone a off i0 J (unshift off a.size i0 fuel j (slot a.size i0 (j-1)) aj) := by
  have hn : 0 < a.size := by omega
  intro fuel
  induction fuel with
  | zero =>
    intro j aj U hf
    refine ⟨j, ?_⟩
    unfold unshift
    exact ⟨U, Or.inl (by have := U.jle; omega)⟩
  | succ fuel ih =>
    intro j aj U hf
    unfold unshift
    dsimp only
    have hjlt : j < a.size := by omega
    ·
      have hjj : slot a.size i0 j < a.size := slot_lt hn
      have hdj : dist a.size i0 (slot a.size i0 j) = j := dist_slot hi0 hjlt
      have hgj : get aj (slot a.size i0 j) = get a (slot a.size i0 j) := U.unt _ hjj (by omega)
      rw [hgj]
      by_cases hstop : get a (slot a.size i0 j) = 0 ∨ pov (get a (slot a.size i0 j) >>> off) (slot a.size i0 j) a.size = 0
      · rw [if_pos hstop]
        exact ⟨j, U, Or.inr ⟨hjlt, hstop⟩⟩
      · rw [if_neg hstop]
        have hocc : get a (slot a.size i0 j) ≠ 0 := fun h => hstop (Or.inl h)
        have hpos : 0 < P a off (slot a.size i0 j) := by
          unfold P; rcases Nat.eq_zero_or_pos (pov (get a (slot a.size i0 j) >>> off) (slot a.size i0 j) a.size) with h | h
          · exact absurd (Or.inr h) hstop
          · exact h
        have hprevI : slot a.size i0 (j-1) < a.size := slot_lt hn
        have hne : slot a.size i0 (j-1) ≠ slot a.size i0 j :=
          slot_ne_of_lt hi0 (by omega) hjlt (by have := U.jpos; omega)
        have hprevI' : slot a.size i0 (j-1) < aj.size := by rw [U.sz]; exact hprevI
        have hjj' : slot a.size i0 j < (put aj (slot a.size i0 (j-1)) (get a (slot a.size i0 j))).size := by
          rw [size_put, U.sz]; exact hjj
        have key := ih (j+1) (put (put aj (slot a.size i0 (j-1)) (get a (slot a.size i0 j))) (slot a.size i0 j) 0) ?_ (by omega)
        · simpa using key
        · constructor
          · simp [U.sz]
          · omega
          · omega
          · simp only [Nat.add_sub_cancel]; exact get_put_eq 0 hjj'
          · intro x hx hle
            have h1 : slot a.size i0 j ≠ x := by intro e; rw [← e, hdj] at hle; omega
            have h2 : slot a.size i0 (j-1) ≠ x := by
              intro e
              have := dist_slot hi0 (show j - 1 < a.size by omega)
              rw [e] at this; omega
            rw [get_put_ne 0 h1, get_put_ne _ h2]; exact U.unt x hx (by omega)
          · intro i h1 hij
            by_cases hlt : i < j
            · obtain ⟨s1, s2, s3⟩ := U.shf i h1 hlt
              have n1 : slot a.size i0 j ≠ slot a.size i0 (i-1) := slot_ne_of_lt hi0 hjlt (by omega) (by omega)
              have n2 : slot a.size i0 (j-1) ≠ slot a.size i0 (i-1) := slot_ne_of_lt hi0 (by omega) (by omega) (by omega)
              rw [get_put_ne 0 n1, get_put_ne _ n2]
              exact ⟨s1, s2, s3⟩
            · have : i = j := by omega
              subst this
              rw [get_put_ne 0 hne.symm, get_put_eq _ hprevI']
              exact ⟨rfl, hocc, hpos⟩
          · -- perm
            have hholeaj := U.hole
            have p1 := nz_put_empty (a := aj) (v := get a (slot a.size i0 j)) hprevI' hholeaj hocc
            have hg' : get (put aj (slot a.size i0 (j-1)) (get a (slot a.size i0 j))) (slot a.size i0 j) = get a (slot a.size i0 j) := by
              rw [get_put_ne _ hne]; exact hgj
            have p2 := nz_put_zero (a := put aj (slot a.size i0 (j-1)) (get a (slot a.size i0 j))) hjj' (by rw [hg']; exact hocc)
            rw [hg'] at p2
            -- p2 : v :: nz(final) ~ nz(put aj prev v);  p1 : nz(put aj prev v) ~ v :: nz aj
            have p3 := (p2.trans p1).cons_inv
            exact (List.Perm.cons _ p3).trans U.perm
end
end RH

namespace RH
section
variable {a : Tbl} {off i0 : Nat}

theorem P_shifted {a a' : Tbl} {off s : Nat} (hs : a'.size = a.size) {x : Nat} (hx : x < a.size)
    (hsx : s < a.size) (hprev : x = prev a.size s) (hg : get a' x = get a s) (hpos : 0 < P a off s) :
    P a' off x = P a off s - 1 := by
  unfold P at *; rw [hs, hg, hprev]; exact pov_prev hsx hpos

/-- the finished backward shift keeps the invariant, removes exactly the word at `i0`,
    and leaves an empty slot -/
theorem remove_done (inv : Inv a off) {b : Nat} (hb : b < a.size) (hlin : Lin a off b)
    (hi0 : i0 < a.size) (ho0 : get a i0 ≠ 0) {J : Nat} {a' : Tbl} (D : UnshDone a off i0 J a') :
    Inv a' off ∧ (get a i0 :: nz a').Perm (nz a) ∧ a'.size = a.size ∧
      get a' (slot a.size i0 (J-1)) = 0 := by
  have hn : 0 < a.size := by omega
  have U := D.inv
  refine ⟨⟨?_, ?_⟩, U.perm, U.sz, U.hole⟩
  · -- distinct
    apply (distinct_iff_nodup a' (· >>> off)).2
    have h1 := (U.perm.map (· >>> off)).nodup_iff.2 (inv_nodup inv)
    rw [List.map_cons, List.nodup_cons] at h1
    exact h1.2
  · intro x hx ox hpx
    rw [U.sz] at hx ⊢
    have hJpos := U.jpos
    have hJle := U.jle
    have hcx : dist a.size i0 x < a.size := dist_lt hi0 hx
    have hxs : slot a.size i0 (dist a.size i0 x) = x := slot_dist hi0 hx
    by_cases hsh : dist a.size i0 x + 1 < J
    · -- x received the word of its successor
      have hc1 : dist a.size i0 x + 1 < a.size := by omega
      obtain ⟨s1, s2, s3⟩ := U.shf (dist a.size i0 x + 1) (by omega) hsh
      simp only [Nat.add_sub_cancel] at s1
      rw [hxs] at s1
      have hsucc : slot a.size i0 (dist a.size i0 x + 1) < a.size := slot_lt hn
      have hprevsucc : x = prev a.size (slot a.size i0 (dist a.size i0 x + 1)) := by
        rw [prev_slot hi0 hc1, hxs]
      have hPx := P_shifted U.sz hx hsucc hprevsucc s1 s3
      rw [hPx] at hpx ⊢
      by_cases hc0 : dist a.size i0 x = 0
      · -- x = i0
        have hxi : x = i0 := dist_eq_zero hi0 hx hc0
        subst hxi
        rw [hc0] at s2 s3 hpx hsucc ⊢
        simp only [Nat.zero_add] at s2 s3 hpx hsucc ⊢
        -- (L) in a at slot 1
        have hs1 : slot a.size x 1 = next a.size x := by
          have := slot_succ (j := 0) hi0 (by omega)
          rw [slot_zero hi0] at this; exact this
        have r1 := (inv.rh _ hsucc s2 s3).2
        rw [hs1, prev_next hi0] at r1
        rw [hs1] at hpx
        have hPi0 : 0 < P a off x := by omega
        obtain ⟨po, pl⟩ := inv.rh x hi0 ho0 hPi0
        -- J ≤ n-1, otherwise every slot is displaced, contradicting the cut
        have hJn : J < a.size := by
          rcases D.stop with h | h
          · exfalso
            have hbocc : get a b ≠ 0 ∧ 0 < P a off b := by
              by_cases hb0 : dist a.size x b = 0
              · have : b = x := dist_eq_zero hi0 hb hb0
                rw [this]; exact ⟨ho0, hPi0⟩
              · have hbd := dist_lt hi0 hb
                obtain ⟨_, t2, t3⟩ := U.shf (dist a.size x b) (by omega) (by omega)
                rw [slot_dist hi0 hb] at t2 t3
                exact ⟨t2, t3⟩
            have := hlin b hb hbocc.1
            rw [dist_self] at this; omega
          · exact h.1
        have hdp := dist_prev_self hi0
        have hg : get a' (prev a.size x) = get a (prev a.size x) :=
          U.unt _ (prev_lt hi0) (by omega)
        rw [hg, P_congr U.sz hg, hs1]
        exact ⟨po, by omega⟩
      · -- x = slot c with c ≥ 1; predecessor slot c-1 received a(slot c)
        obtain ⟨q1, q2, q3⟩ := U.shf (dist a.size i0 x) (by omega) (by omega)
        rw [hxs] at q2 q3
        have hprevx : prev a.size x = slot a.size i0 (dist a.size i0 x - 1) := by
          have := slot_dist hi0 (prev_lt (n := a.size) hx)
          rw [dist_prev hi0 hx (by omega)] at this; exact this.symm
        rw [hxs] at q1
        rw [hprevx, q1]
        refine ⟨q2, ?_⟩
        have hpl : prev a.size x < a.size := prev_lt hx
        have hPprev : P a' off (slot a.size i0 (dist a.size i0 x - 1)) = P a off x - 1 := by
          rw [← hprevx]
          exact P_shifted U.sz hpl hx rfl (by rw [hprevx]; exact q1) q3
        rw [hPprev]
        have r1 := (inv.rh _ hsucc s2 s3).2
        rw [← hprevsucc] at r1
        omega
    · by_cases hhole : dist a.size i0 x + 1 = J
      · -- x is the hole
        exfalso
        have := U.hole
        rw [← hhole] at this
        simp only [Nat.add_sub_cancel] at this
        rw [hxs] at this; exact ox this
      · -- untouched
        have hge : J ≤ dist a.size i0 x := by omega
        have hgx : get a' x = get a x := U.unt x hx hge
        rw [hgx] at ox
        rw [P_congr U.sz hgx] at hpx ⊢
        obtain ⟨po, pl⟩ := inv.rh x hx ox hpx
        have hdprev : dist a.size i0 (prev a.size x) = dist a.size i0 x - 1 :=
          dist_prev hi0 hx (by omega)
        have hgt : J < dist a.size i0 x := by
          rcases Nat.lt_or_ge J (dist a.size i0 x) with h | h
          · exact h
          · exfalso
            have hJe : J = dist a.size i0 x := by omega
            rcases D.stop with h' | h'
            · omega
            · rw [hJe, hxs] at h'
              rcases h'.2 with h'' | h''
              · exact ox h''
              · omega
        have hg : get a' (prev a.size x) = get a (prev a.size x) :=
          U.unt _ (prev_lt hx) (by omega)
        rw [hg, P_congr U.sz hg]
        exact ⟨po, pl⟩
end
#print axioms remove_done
end RH

namespace RH
section
variable {a : Tbl} {off k : Nat}

theorem iki_eq {ii ki n : Nat} (hii : ii < n) : ((ii + n) - (ki % n)) % n = pov ki ii n := by
  unfold pov; rw [Nat.mod_eq_of_lt hii]

theorem premoveAux_absent (hfresh : ∀ i, i < a.size → get a i ≠ 0 → K a off i ≠ k) :
    ∀ fuel i, premoveAux k off a.size fuel i a = (false, a) := by
  intro fuel
  induction fuel with
  | zero => intro i; rfl
  | succ fuel ih =>
    intro i
    unfold premoveAux
    dsimp only
    split
    · rfl
    · rename_i h0
      split
      · rfl
      · split
        · rename_i hk
          exfalso
          rcases Nat.lt_or_ge (slot a.size (k % a.size) i) a.size with h | h
          · exact hfresh _ h h0 hk
          · exact h0 (get_oob h)
        · exact ih (i+1)

theorem premoveAux_present (inv : Inv a off) {b : Nat} (hb : b < a.size) (hlin : Lin a off b)
    {i0 : Nat} (hi0 : i0 < a.size) (ho0 : get a i0 ≠ 0) (hk : K a off i0 = k) :
    ∀ fuel p, p ≤ P a off i0 → P a off i0 < p + fuel →
      ∃ a', premoveAux k off a.size fuel p a = (true, a') ∧
        Inv a' off ∧ (get a i0 :: nz a').Perm (nz a) ∧ a'.size = a.size ∧
        ∃ h, h < a.size ∧ get a' h = 0 := by
  have hn : 0 < a.size := by omega
  intro fuel
  induction fuel with
  | zero => intro p h1 h2; omega
  | succ fuel ih =>
    intro p h1 h2
    unfold premoveAux
    dsimp only
    have hc := chain' inv hi0 ho0 h1
    rw [hk] at hc
    obtain ⟨hne, hpov⟩ := hc
    have hs : slot a.size (k % a.size) p < a.size := slot_lt hn
    rw [if_neg hne, iki_eq hs]
    have hnot : ¬ (p > pov (get a (slot a.size (k % a.size) p) >>> off) (slot a.size (k % a.size) p) a.size) := by
      unfold P at hpov; omega
    rw [if_neg hnot]
    by_cases hp : p = P a off i0
    · have hsi : slot a.size (k % a.size) p = i0 := by rw [hp, ← hk]; exact slot_P hi0
      rw [hsi]
      have hk' : get a i0 >>> off = k := hk
      rw [if_pos hk']
      -- run the backward shift
      have U1 : Unsh a off i0 1 (put a i0 0) := by
        constructor
        · simp
        · omega
        · omega
        · simp only [Nat.sub_self]; rw [slot_zero hi0]; exact get_put_eq 0 hi0
        · intro x hx hle
          have : i0 ≠ x := by intro e; rw [← e, dist_self] at hle; omega
          exact get_put_ne 0 this
        · intro i h1 h2; omega
        · exact nz_put_zero hi0 ho0
      obtain ⟨J, D⟩ := unshift_spec (off := off) hi0 (a.size - 1) 1 (put a i0 0) U1 rfl
      simp only [Nat.sub_self] at D
      rw [slot_zero hi0] at D
      obtain ⟨r1, r2, r3, r4⟩ := remove_done inv hb hlin hi0 ho0 D
      exact ⟨_, rfl, r1, r2, r3, _, slot_lt hn, r4⟩
    · have hkne : ¬ (get a (slot a.size (k % a.size) p) >>> off = k) := by
        intro heq
        have := inv.distinct _ _ hs hi0 hne ho0 (by unfold K; rw [heq]; exact hk.symm)
        have h3 : dist a.size (k % a.size) (slot a.size (k % a.size) p) = p :=
          dist_slot (Nat.mod_lt _ hn) (by have := P_lt (a := a) (off := off) hi0; omega)
        rw [this] at h3
        have h4 : P a off i0 = dist a.size (k % a.size) i0 := by
          rw [P_eq_dist hi0, hk]
        omega
      rw [if_neg hkne]
      exact ih (p+1) (by omega) (by omega)

/-- `p_remove` of an absent key changes nothing and answers false. -/
theorem premove_absent (hfresh : ∀ i, i < a.size → get a i ≠ 0 → K a off i ≠ k) :
    premove k a off = (false, a) := premoveAux_absent hfresh _ _

/-- `p_remove` of a present key answers true, removes exactly that word, keeps the invariant
    and leaves an empty slot (hence a cut). -/
theorem premove_present (inv : Inv a off) {b : Nat} (hb : b < a.size) (hlin : Lin a off b)
    {i0 : Nat} (hi0 : i0 < a.size) (ho0 : get a i0 ≠ 0) (hk : K a off i0 = k) :
    ∃ a', premove k a off = (true, a') ∧ Inv a' off ∧ (get a i0 :: nz a').Perm (nz a) ∧
      a'.size = a.size ∧ ∃ h, h < a.size ∧ get a' h = 0 :=
  premoveAux_present inv hb hlin hi0 ho0 hk a.size 0 (Nat.zero_le _)
    (by have := P_lt (a := a) (off := off) hi0; omega)
end
#print axioms premove_present
#print axioms premove_absent
end RH
