import TinysetModel.Model.RH
namespace RH

abbrev K (a : Tbl) (off i : Nat) : Nat := get a i >>> off
-- P a off i = pov (K a off i) i a.size  (from Model)

structure Inv (a : Tbl) (off : Nat) : Prop where
  distinct : ∀ i j, i < a.size → j < a.size → get a i ≠ 0 → get a j ≠ 0 → K a off i = K a off j → i = j
  rh : ∀ i, i < a.size → get a i ≠ 0 → 0 < P a off i →
      get a (prev a.size i) ≠ 0 ∧ P a off i ≤ P a off (prev a.size i) + 1

theorem P_lt {a : Tbl} {off i : Nat} (hi : i < a.size) : P a off i < a.size := by
  unfold P; rw [pov_eq_dist hi]; exact dist_lt (Nat.mod_lt _ (by omega)) hi

theorem slot_P {a : Tbl} {off i : Nat} (hi : i < a.size) :
    slot a.size (K a off i % a.size) (P a off i) = i := by
  unfold P; rw [pov_eq_dist hi]; exact slot_dist (Nat.mod_lt _ (by omega)) hi

/-- chain lemma -/
theorem chain {a : Tbl} {off : Nat} (inv : Inv a off) {i : Nat} (hi : i < a.size)
    (hocc : get a i ≠ 0) :
    ∀ j, j ≤ P a off i →
      get a (slot a.size (K a off i % a.size) (P a off i - j)) ≠ 0 ∧
      P a off i - j ≤ P a off (slot a.size (K a off i % a.size) (P a off i - j)) := by
  have hn : 0 < a.size := by omega
  have hh : K a off i % a.size < a.size := Nat.mod_lt _ hn
  intro j
  induction j with
  | zero =>
    intro _
    simp only [Nat.sub_zero]
    rw [slot_P hi]; exact ⟨hocc, Nat.le_refl _⟩
  | succ j ih =>
    intro hj
    have hPlt := P_lt (a := a) (off := off) hi
    obtain ⟨hocc', hle⟩ := ih (by omega)
    have hs'lt : slot a.size (K a off i % a.size) (P a off i - j) < a.size := slot_lt hn
    have hpos : 0 < P a off (slot a.size (K a off i % a.size) (P a off i - j)) := by omega
    obtain ⟨h1, h2⟩ := inv.rh _ hs'lt hocc' hpos
    have hprev : prev a.size (slot a.size (K a off i % a.size) (P a off i - j)) =
        slot a.size (K a off i % a.size) (P a off i - (j+1)) := by
      have : P a off i - j = (P a off i - (j+1)) + 1 := by omega
      rw [this, prev_slot hh (by omega)]
    rw [hprev] at h1 h2
    exact ⟨h1, by omega⟩

/-- reformulated: every slot at distance q < P i from i's home is occupied and at least q poor -/
theorem chain' {a : Tbl} {off : Nat} (inv : Inv a off) {i : Nat} (hi : i < a.size)
    (hocc : get a i ≠ 0) {q : Nat} (hq : q ≤ P a off i) :
    get a (slot a.size (K a off i % a.size) q) ≠ 0 ∧
      q ≤ P a off (slot a.size (K a off i % a.size) q) := by
  have := chain inv hi hocc (P a off i - q) (by omega)
  have e : P a off i - (P a off i - q) = q := by omega
  rw [e] at this; exact this


/-- completeness of lookfor -/
theorem lookforAux_complete {a : Tbl} {off k i : Nat} (inv : Inv a off) (hi : i < a.size)
    (hocc : get a i ≠ 0) (hk : K a off i = k) :
    ∀ fuel p, p ≤ P a off i → P a off i < p + fuel →
      lookforAux k a off a.size fuel p = .found i := by
  intro fuel
  induction fuel with
  | zero => intro p h1 h2; omega
  | succ fuel ih =>
    intro p h1 h2
    unfold lookforAux
    have hc := chain' inv hi hocc h1
    rw [hk] at hc
    obtain ⟨hne, hpov⟩ := hc
    simp only [hne, if_false]
    by_cases hp : p = P a off i
    · have hs : slot a.size (k % a.size) p = i := by rw [hp, ← hk]; exact slot_P hi
      rw [hs]; simp [K] at hk; simp [hk]
    · have hs : slot a.size (k % a.size) p < a.size := slot_lt (by omega)
      have hkne : get a (slot a.size (k % a.size) p) >>> off ≠ k := by
        intro heq
        have := inv.distinct _ _ hs hi hne hocc (by simp [K]; rw [heq, ← hk])
        -- slot p = i but p ≠ P i contradicts dist
        have h3 : dist a.size (k % a.size) (slot a.size (k % a.size) p) = p :=
          dist_slot (Nat.mod_lt _ (by omega)) (by have := P_lt (a := a) (off := off) hi; omega)
        rw [this] at h3
        have h4 : P a off i = dist a.size (k % a.size) i := by
          unfold P; rw [pov_eq_dist hi]; simp [K] at hk; rw [hk]
        omega
      simp only [hkne, if_false]
      have : ¬ (pov (get a (slot a.size (k % a.size) p) >>> off) (slot a.size (k % a.size) p) a.size < p) := by
        unfold P at hpov; omega
      simp only [this, if_false]
      exact ih (p+1) (by omega) (by omega)

theorem lookfor_complete {a : Tbl} {off k i : Nat} (inv : Inv a off) (hi : i < a.size)
    (hocc : get a i ≠ 0) (hk : K a off i = k) : lookfor k a off = .found i := by
  unfold lookfor
  exact lookforAux_complete inv hi hocc hk a.size 0 (Nat.zero_le _) (by have := P_lt (a := a) (off := off) hi; omega)

/-- soundness -/
theorem lookforAux_found {a : Tbl} {off k : Nat} (hn : 0 < a.size) :
    ∀ fuel p i, lookforAux k a off a.size fuel p = .found i →
      i < a.size ∧ get a i ≠ 0 ∧ K a off i = k := by
  intro fuel
  induction fuel with
  | zero => intro p i h; simp [lookforAux] at h
  | succ fuel ih =>
    intro p i h
    unfold lookforAux at h
    dsimp only at h
    split at h
    · simp at h
    · split at h
      · rename_i h0 hk
        simp at h; subst h
        exact ⟨slot_lt hn, h0, hk⟩
      · split at h
        · simp at h
        · exact ih _ _ h

#print axioms lookfor_complete
#print axioms lookforAux_found
end RH
