import TinysetModel.Model.RHBasic
namespace RH

theorem slot_zero {n t : Nat} (ht : t < n) : slot n t 0 = t := by
  unfold slot; simp [Nat.mod_eq_of_lt ht]

theorem slot_succ {n t j : Nat} (ht : t < n) (hj : j + 1 < n) :
    slot n t (j+1) = next n (slot n t j) := by
  rw [slot_eq ht hj, next_eq (slot_lt (by omega)), slot_eq ht (by omega)]
  split <;> split <;> split <;> omega

theorem prev_next {n i : Nat} (hi : i < n) : prev n (next n i) = i := by
  rw [next_eq hi]; unfold prev; split <;> split <;> omega

theorem next_lt {n i : Nat} (hn : 0 < n) : next n i < n := Nat.mod_lt _ hn
theorem prev_lt {n i : Nat} (hi : i < n) : prev n i < n := by unfold prev; split <;> omega

theorem next_prev {n i : Nat} (hi : i < n) : next n (prev n i) = i := by
  rw [next_eq (prev_lt hi)]; unfold prev; split <;> split <;> omega

/-- dist advances by one along `next` unless we wrap onto the home -/
theorem dist_next {n h i : Nat} (hh : h < n) (hi : i < n) (hne : dist n h i + 1 < n) :
    dist n h (next n i) = dist n h i + 1 := by
  rw [next_eq hi]; revert hne; unfold dist; repeat' split
  all_goals (intros; omega)

theorem dist_self {n h : Nat} : dist n h h = 0 := by unfold dist; simp

theorem dist_eq_zero {n h i : Nat} (hh : h < n) (hi : i < n) (h0 : dist n h i = 0) : i = h := by
  revert h0; unfold dist; repeat' split
  all_goals (intros; omega)

/-- relation between distances from two origins: if `x` is at distance `c` from `t`
    and `z` at distance `m ≥ c` from `t`, then dist from next z ... -/
theorem dist_inj {n h i j : Nat} (hh : h < n) (hi : i < n) (hj : j < n)
    (e : dist n h i = dist n h j) : i = j := by
  revert e; unfold dist; repeat' split
  all_goals (intros; omega)

theorem dist_prev {n h i : Nat} (hh : h < n) (hi : i < n) (hpos : 0 < dist n h i) :
    dist n h (prev n i) = dist n h i - 1 := by
  revert hpos; unfold prev dist; repeat' split
  all_goals (intros; omega)

/-- triangle-type fact on the circle: going from `h` to `i` (distance `dist h i`) passes
    through `x` iff `dist h x ≤ dist h i`; then `dist x i = dist h i - dist h x`. -/
theorem dist_split {n h x i : Nat} (hh : h < n) (hx : x < n) (hi : i < n)
    (hle : dist n h x ≤ dist n h i) : dist n x i = dist n h i - dist n h x := by
  revert hle; unfold dist; repeat' split
  all_goals (intros; omega)

theorem dist_lt' {n h i : Nat} (hh : h < n) (hi : i < n) : dist n h i < n := dist_lt hh hi

/-- if `z` is not on the arc from `h` to `i`, the arc is no longer than the arc from `next z` to `i` -/
theorem arc_le_of_not_on {n h z i : Nat} (hh : h < n) (hz : z < n) (hi : i < n)
    (hnot : dist n h i < dist n h z) : dist n h i ≤ dist n (next n z) i := by
  rw [next_eq hz]; revert hnot; unfold dist; repeat' split
  all_goals (intros; omega)

end RH
