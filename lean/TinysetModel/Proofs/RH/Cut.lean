import TinysetModel.Proofs.RH.Insert2
namespace RH

/-- the table is "linearisable at b": no home..slot arc crosses the boundary just before `b` -/
def Lin (a : Tbl) (off b : Nat) : Prop :=
  ∀ x, x < a.size → get a x ≠ 0 → P a off x ≤ dist a.size b x

theorem dist_next_self {n z : Nat} (hz : z < n) : dist n (next n z) z = n - 1 := by
  rw [next_eq hz]; unfold dist; repeat' split
  all_goals omega

theorem lin_of_empty {a : Tbl} {off z : Nat} (inv : Inv a off) (hz : z < a.size) (hz0 : get a z = 0) :
    Lin a off (next a.size z) := fun _ hx ox => lin inv hz hz0 hx ox

theorem Lin_zero {a : Tbl} {off b : Nat} (h : ∀ i, i < a.size → get a i = 0) : Lin a off b :=
  fun x hx ox => absurd (h x hx) ox

section
variable {a : Tbl} {off k z w : Nat}

/-- case A of insertion keeps the cut at `next z` -/
theorem place_empty_lin (inv : Inv a off) (hz : z < a.size) (hz0 : get a z = 0)
    {p : Nat} (hk : w >>> off = k) (hple : p ≤ dist a.size (k % a.size) z) :
    Lin (put a (slot a.size (k % a.size) p) w) off (next a.size z) := by
  have hn : 0 < a.size := by omega
  have hh : k % a.size < a.size := Nat.mod_lt _ hn
  have hdz := dist_lt hh hz
  have hii : slot a.size (k % a.size) p < a.size := slot_lt hn
  intro x hx ox
  rw [size_put] at hx ⊢
  by_cases hxi : slot a.size (k % a.size) p = x
  · subst hxi
    have hP : P (put a (slot a.size (k % a.size) p) w) off (slot a.size (k % a.size) p) = p := by
      unfold P; rw [get_put_eq w hii, size_put, hk, pov_eq_dist hii]; exact dist_slot hh (by omega)
    rw [hP]
    by_cases hpz : p = dist a.size (k % a.size) z
    · rw [hpz, slot_dist hh hz, dist_next_self hz]; omega
    · have := arc_le_of_not_on hh hz hii (by rw [dist_slot hh (by omega)]; omega)
      rw [dist_slot hh (by omega)] at this; exact this
  · rw [get_put_ne w hxi] at ox
    rw [P_put_ne hxi]
    exact lin inv hz hz0 hx ox

/-- case B (steal + cascade) keeps the cut at `next z` -/
theorem steal_lin (inv : Inv a off) (hz : z < a.size) (hz0 : get a z = 0) {t p J : Nat} {a' : Tbl}
    (ht : t < a.size) (D : CascDone a off t p (dist a.size t z) J a') (hw : w ≠ 0)
    (hpw : pov (w >>> off) t a.size = p) (hpt : p ≤ dist a.size (next a.size z) t) :
    Lin (put a' t w) off (next a.size z) := by
  have hn : 0 < a.size := by omega
  have hta' : t < a'.size := by rw [D.sz]; exact ht
  have hm := dist_lt ht hz
  have hPt : P (put a' t w) off t = p := by
    unfold P; rw [get_put_eq w hta', size_put, D.sz]; exact hpw
  have hnz : next a.size z < a.size := next_lt hn
  -- bound along the visited slots
  have hvis : ∀ i, i ≤ J → P (put a' t w) off (slot a.size t i) ≤ dist a.size (next a.size z) (slot a.size t i) := by
    intro i
    induction i with
    | zero => intro _; rw [slot_zero ht, hPt]; exact hpt
    | succ i ih =>
      intro hi
      have hin : i + 1 < a.size := by have := D.Jle; omega
      have hsi : slot a.size t i < a.size := slot_lt hn
      have hne : t ≠ slot a.size t (i+1) := by
        intro e
        have := dist_slot ht hin
        rw [← e, dist_self] at this; omega
      rw [P_put_ne hne]
      have v2 := (D.vis (i+1) (by omega) hi).2
      have hprevle := ih (by omega)
      -- slot i ≠ z because i < J ≤ dist t z
      have hsz : slot a.size t i ≠ z := by
        intro e
        have := dist_slot ht (show i < a.size by omega)
        rw [e] at this; have := D.Jle; omega
      have hstep : dist a.size (next a.size z) (slot a.size t (i+1)) =
          dist a.size (next a.size z) (slot a.size t i) + 1 := by
        rw [slot_succ ht hin]
        exact dist_next hnz hsi (by have := dist_next_ne hz hsi hsz; omega)
      rw [hstep]
      by_cases h1 : i + 1 = 1
      · have hi0 : i = 0 := by omega
        subst hi0
        simp only [if_true] at v2
        rw [slot_zero ht, hPt] at hprevle
        rw [slot_zero ht]; omega
      · simp only [h1, if_false, Nat.add_sub_cancel] at v2
        have hne' : t ≠ slot a.size t i := by
          intro e
          have := dist_slot ht (show i < a.size by omega)
          rw [← e, dist_self] at this; omega
        rw [P_put_ne hne'] at hprevle
        omega
  intro x hx ox
  rw [size_put, D.sz] at hx
  rw [size_put, D.sz]
  by_cases hvis' : dist a.size t x ≤ J
  · have := hvis (dist a.size t x) hvis'
    rw [slot_dist ht hx] at this; exact this
  · have hxt : t ≠ x := by intro e; rw [← e, dist_self] at hvis'; omega
    rw [get_put_ne w hxt] at ox
    rw [P_put_ne hxt]
    have hg : get a' x = get a x := D.unt x hx (by omega)
    rw [hg] at ox
    rw [P_congr D.sz hg]
    exact lin inv hz hz0 hx ox
end

#print axioms steal_lin
#print axioms place_empty_lin
end RH
