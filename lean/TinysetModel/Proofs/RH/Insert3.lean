import TinysetModel.Proofs.RH.Cut
namespace RH

section
variable {a : Tbl} {off k z w : Nat}

/-- What `p_insert` followed by the caller's write guarantees. -/
def InsertOk (a : Tbl) (off w z : Nat) (r : Nat × Tbl) : Prop :=
  r.1 < a.size ∧ (put r.2 r.1 w).size = a.size ∧ Inv (put r.2 r.1 w) off ∧
    (nz (put r.2 r.1 w)).Perm (w :: nz a) ∧ Lin (put r.2 r.1 w) off (next a.size z)

theorem pinsertAux_spec (inv : Inv a off) (hz : z < a.size) (hz0 : get a z = 0)
    (hw : w ≠ 0) (hk : w >>> off = k)
    (hfresh : ∀ i, i < a.size → get a i ≠ 0 → K a off i ≠ k) :
    ∀ fuel p,
      (∀ q, q < p → get a (slot a.size (k % a.size) q) ≠ 0 ∧ q ≤ P a off (slot a.size (k % a.size) q)) →
      p ≤ dist a.size (k % a.size) z → dist a.size (k % a.size) z - p < fuel →
      ∃ r, pinsertAux k off a.size fuel p a = .ok r ∧ InsertOk a off w z r := by
  have hn : 0 < a.size := by omega
  have hh : k % a.size < a.size := Nat.mod_lt _ hn
  have hdz : dist a.size (k % a.size) z < a.size := dist_lt hh hz
  intro fuel
  induction fuel with
  | zero => intro p _ _ h; omega
  | succ fuel ih =>
    intro p hscan hple hfuel
    have hpn : p < a.size := by omega
    have hii : slot a.size (k % a.size) p < a.size := slot_lt hn
    have hpovk : pov k (slot a.size (k % a.size) p) a.size = p := by
      rw [pov_eq_dist hii]; exact dist_slot hh hpn
    have hpred : 0 < p → get a (prev a.size (slot a.size (k % a.size) p)) ≠ 0 ∧
        p ≤ P a off (prev a.size (slot a.size (k % a.size) p)) + 1 := by
      intro hp
      have e : prev a.size (slot a.size (k % a.size) p) = slot a.size (k % a.size) (p-1) := by
        have : p = (p - 1) + 1 := by omega
        rw [this, prev_slot hh (by omega)]; simp
      rw [e]
      obtain ⟨h1, h2⟩ := hscan (p-1) (by omega)
      exact ⟨h1, by omega⟩
    unfold pinsertAux
    dsimp only
    by_cases h0 : get a (slot a.size (k % a.size) p) = 0
    · -- empty slot: nothing moves
      rw [if_pos (Or.inl h0)]
      refine ⟨_, rfl, hii, by simp, ?_, nz_put_empty hii h0 hw, place_empty_lin inv hz hz0 hk hple⟩
      apply place_empty inv hii h0 hw
      · intro i hi oi; rw [hk]; exact hfresh i hi oi
      · rw [hk, hpovk]; exact hpred
    · have hkne : ¬ (get a (slot a.size (k % a.size) p) >>> off = k) := hfresh _ hii h0
      rw [if_neg (by rintro (h | h); exact h0 h; exact hkne h)]
      have hne_z : slot a.size (k % a.size) p ≠ z := by intro e; rw [e] at h0; exact h0 hz0
      have hplt : p < dist a.size (k % a.size) z := by
        rcases Nat.lt_or_ge p (dist a.size (k % a.size) z) with h | h
        · exact h
        · exfalso
          have : p = dist a.size (k % a.size) z := by omega
          rw [this, slot_dist hh hz] at hne_z; exact hne_z rfl
      by_cases hsteal : pov (get a (slot a.size (k % a.size) p) >>> off) (slot a.size (k % a.size) p) a.size < p
      · -- steal
        rw [if_pos hsteal]
        -- abbreviations
        have ht := hii
        have hlin : P a off (slot a.size (k % a.size) p) + 2 ≤ a.size := by
          have := lin inv hz hz0 hii h0
          have := dist_next_ne hz hii hne_z
          omega
        have hn2 : 1 < a.size := by omega
        have hs1 : slot a.size (slot a.size (k % a.size) p) 1 = next a.size (slot a.size (k % a.size) p) := by
          have := slot_succ (j := 0) ht (by omega)
          rw [slot_zero ht] at this; exact this
        have C : Casc a off (slot a.size (k % a.size) p) p 1
            (put a (slot a.size (k % a.size) p) 0) (get a (slot a.size (k % a.size) p))
            (pov (get a (slot a.size (k % a.size) p) >>> off) (slot a.size (k % a.size) p) a.size) := by
          constructor
          · simp
          · intro x hx hle
            have : slot a.size (k % a.size) p ≠ x := by
              intro e; rw [← e, dist_self] at hle; omega
            exact get_put_ne 0 this
          · exact get_put_eq 0 ht
          · exact h0
          · rw [hs1]; exact pov_next ht (by unfold P at hlin; omega)
          · intro i h1 h2; omega
          · simp only [if_true]; omega
          · intro ho
            by_cases hp0 : 0 < P a off (slot a.size (slot a.size (k % a.size) p) 1)
            · have := (inv.rh _ (slot_lt hn) ho hp0).2
              rw [hs1, prev_next ht] at this
              rw [hs1]; unfold P at this ⊢; omega
            · unfold P at hp0 ⊢; omega
          · exact nz_put_zero ht h0
        have hzt : 1 ≤ dist a.size (slot a.size (k % a.size) p) z := by
          rcases Nat.eq_zero_or_pos (dist a.size (slot a.size (k % a.size) p) z) with h | h
          · exfalso; exact hne_z (dist_eq_zero ht hz h).symm
          · exact h
        have hzlt : dist a.size (slot a.size (k % a.size) p) z < a.size := dist_lt ht hz
        obtain ⟨a', J, hcas, D⟩ := cascade_spec (p := p) inv ht hz hz0 (a.size - 1) 1 _ _ _ C
          (Nat.le_refl _) hzt (by omega)
        rw [hcas]
        refine ⟨_, rfl, ?_⟩
        have hfr : ∀ i, i < a.size → get a i ≠ 0 → K a off i ≠ w >>> off := by
          intro i hi oi; rw [hk]; exact hfresh i hi oi
        obtain ⟨hInv, hPerm⟩ := steal_done inv ht D hw hfr (by rw [hk]; exact hpovk) hpred
        have hpt : p ≤ dist a.size (next a.size z) (slot a.size (k % a.size) p) := by
          have := arc_le_of_not_on hh hz hii (by rw [dist_slot hh hpn]; exact hplt)
          rw [dist_slot hh hpn] at this; exact this
        exact ⟨ht, by simp [D.sz], hInv, hPerm,
          steal_lin inv hz hz0 ht D hw (by rw [hk]; exact hpovk) hpt⟩
      · -- keep scanning
        rw [if_neg hsteal]
        apply ih (p+1)
        · intro q hq
          by_cases hqp : q < p
          · exact hscan q hqp
          · have : q = p := by omega
            subst this
            exact ⟨h0, by unfold P; omega⟩
        · omega
        · omega

/-- `p_insert` on a table with room, for a key not present: the caller's write at the returned
index yields a table satisfying the invariant whose words are the old ones plus the new one. -/
theorem pinsert_spec (inv : Inv a off) (hz : z < a.size) (hz0 : get a z = 0)
    (hw : w ≠ 0) (hk : w >>> off = k)
    (hfresh : ∀ i, i < a.size → get a i ≠ 0 → K a off i ≠ k) :
    ∃ r, pinsert k a off = .ok r ∧ InsertOk a off w z r := by
  unfold pinsert
  have hn : 0 < a.size := by omega
  have := dist_lt (Nat.mod_lt k hn) hz
  exact pinsertAux_spec inv hz hz0 hw hk hfresh a.size 0 (by intro q hq; omega) (Nat.zero_le _) (by omega)

end
#print axioms pinsert_spec
end RH
