import TinysetModel.Proofs.RH.Insert1
namespace RH

theorem pov_next {k i n : Nat} (hi : i < n) (h : pov k i n + 1 < n) :
    pov k (next n i) n = pov k i n + 1 := by
  have hn : 0 < n := by omega
  rw [pov_eq_dist (next_lt hn), pov_eq_dist hi] at *
  exact dist_next (Nat.mod_lt _ hn) hi h

theorem dist_next_ne {n z x : Nat} (hz : z < n) (hx : x < n) (hne : x ≠ z) :
    dist n (next n z) x + 2 ≤ n := by
  rw [next_eq hz]; unfold dist; repeat' split
  all_goals omega

theorem P_congr {a b : Tbl} {off x : Nat} (hs : b.size = a.size) (hg : get b x = get a x) :
    P b off x = P a off x := by
  unfold P; rw [hs, hg]

section
variable {a : Tbl} {off t z p : Nat}

/-- cascade loop invariant (state on entry to iteration `j`, before `pd += 1`) -/
structure Casc (a : Tbl) (off t p : Nat) (j : Nat) (aj : Tbl) (d pd : Nat) : Prop where
  sz : aj.size = a.size
  unt : ∀ x, x < a.size → j ≤ dist a.size t x → get aj x = get a x
  hole : get aj t = 0
  dne : d ≠ 0
  pdeq : pov (d >>> off) (slot a.size t j) a.size = pd + 1
  vis : ∀ i, 1 ≤ i → i < j → get aj (slot a.size t i) ≠ 0 ∧
      P aj off (slot a.size t i) ≤ (if i = 1 then p else P aj off (slot a.size t (i-1))) + 1
  pdle : pd ≤ (if j = 1 then p else P aj off (slot a.size t (j-1)))
  succ : get a (slot a.size t j) ≠ 0 → P a off (slot a.size t j) ≤ pd + 1
  perm : (d :: nz aj).Perm (nz a)

/-- what the finished cascade guarantees -/
structure CascDone (a : Tbl) (off t p : Nat) (m : Nat) (J : Nat) (a' : Tbl) : Prop where
  sz : a'.size = a.size
  Jpos : 1 ≤ J
  Jle : J ≤ m
  Jlt : J < a.size
  wasEmpty : get a (slot a.size t J) = 0
  unt : ∀ x, x < a.size → J < dist a.size t x → get a' x = get a x
  hole : get a' t = 0
  vis : ∀ i, 1 ≤ i → i ≤ J → get a' (slot a.size t i) ≠ 0 ∧
      P a' off (slot a.size t i) ≤ (if i = 1 then p else P a' off (slot a.size t (i-1))) + 1
  perm : (nz a').Perm (nz a)

theorem slot_ne_of_lt {n t i j : Nat} (ht : t < n) (hi : i < n) (hj : j < n) (h : i ≠ j) :
    slot n t i ≠ slot n t j := by
  intro e
  have h1 := dist_slot ht hi
  have h2 := dist_slot ht hj
  rw [e] at h1; omega

theorem cascade_spec (inv : Inv a off) (ht : t < a.size) (hz : z < a.size) (hz0 : get a z = 0) :
    ∀ fuel j aj d pd, Casc a off t p j aj d pd → 1 ≤ j → j ≤ dist a.size t z →
      dist a.size t z - j < fuel →
      ∃ a' J, cascade off a.size t fuel j aj d pd = .ok a' ∧ CascDone a off t p (dist a.size t z) J a' := by
  have hn : 0 < a.size := by omega
  have hm : dist a.size t z < a.size := dist_lt ht hz
  intro fuel
  induction fuel with
  | zero => intro j aj d pd _ _ _ h; omega
  | succ fuel ih =>
    intro j aj d pd C hj1 hjm hfuel
    have hjn : j < a.size := by omega
    have hjj : slot a.size t j < a.size := slot_lt hn
    have hdj : dist a.size t (slot a.size t j) = j := dist_slot ht hjn
    have hgj : get aj (slot a.size t j) = get a (slot a.size t j) := C.unt _ hjj (by omega)
    have htj : t ≠ slot a.size t j := by
      intro e; rw [← e, dist_self] at hdj; omega
    have hjjaj : slot a.size t j < aj.size := by rw [C.sz]; exact hjj
    -- facts about earlier visited slots being different from slot j
    have hvne : ∀ i, i < j → slot a.size t j ≠ slot a.size t i := fun i hi =>
      slot_ne_of_lt ht hjn (by omega) (by omega)
    unfold cascade
    dsimp only
    by_cases hw : get aj (slot a.size t j) = 0
    · -- place into empty slot
      rw [if_pos hw]
      refine ⟨_, j, rfl, ?_⟩
      have hPnew : P (put aj (slot a.size t j) d) off (slot a.size t j) = pd + 1 := by
        unfold P; rw [get_put_eq d hjjaj, size_put, C.sz]; exact C.pdeq
      constructor
      · rw [size_put]; exact C.sz
      · exact hj1
      · exact hjm
      · exact hjn
      · rw [← hgj]; exact hw
      · intro x hx hlt
        have : slot a.size t j ≠ x := by intro e; rw [← e, hdj] at hlt; omega
        rw [get_put_ne d this]; exact C.unt x hx (by omega)
      · rw [get_put_ne d (Ne.symm htj)]; exact C.hole
      · intro i hi1 hij
        by_cases hlt : i < j
        · obtain ⟨v1, v2⟩ := C.vis i hi1 hlt
          rw [get_put_ne d (hvne i hlt), P_put_ne (hvne i hlt)]
          refine ⟨v1, ?_⟩
          by_cases h1 : i = 1
          · simp only [h1, if_true] at v2 ⊢; exact v2
          · simp only [h1, if_false] at v2 ⊢
            rw [P_put_ne (hvne (i-1) (by omega))]; exact v2
        · have hij' : i = j := by omega
          subst hij'
          rw [get_put_eq d hjjaj, hPnew]
          refine ⟨C.dne, ?_⟩
          have := C.pdle
          by_cases h1 : i = 1
          · simp only [h1, if_true] at this ⊢; omega
          · simp only [h1, if_false] at this ⊢
            rw [P_put_ne (hvne (i-1) (by omega))]; omega
      · exact (nz_put_empty hjjaj hw C.dne).trans C.perm
    · -- occupied: j < m
      rw [if_neg hw]
      have hocc : get a (slot a.size t j) ≠ 0 := by rw [← hgj]; exact hw
      have hjm' : j < dist a.size t z := by
        rcases Nat.lt_or_ge j (dist a.size t z) with h | h
        · exact h
        · exfalso
          have : j = dist a.size t z := by omega
          rw [this, slot_dist ht hz] at hocc
          exact hocc hz0
      have hj1n : j + 1 < a.size := by omega
      have hslot1 : slot a.size t (j+1) = next a.size (slot a.size t j) := slot_succ ht hj1n
      have hPa : pov (get aj (slot a.size t j) >>> off) (slot a.size t j) a.size = P a off (slot a.size t j) := by
        unfold P; rw [hgj]
      have hne_z : slot a.size t j ≠ z := by intro e; rw [e] at hocc; exact hocc hz0
      have hlin : P a off (slot a.size t j) + 2 ≤ a.size := by
        have := lin inv hz hz0 hjj hocc
        have := dist_next_ne hz hjj hne_z
        omega
      have hsuccle := C.succ hocc
      -- successor fact for j+1 from rh on `a`
      have hsuccNext : ∀ q, P a off (slot a.size t j) ≤ q →
          get a (slot a.size t (j+1)) ≠ 0 → P a off (slot a.size t (j+1)) ≤ q + 1 := by
        intro q hq ho
        by_cases hp0 : 0 < P a off (slot a.size t (j+1))
        · have := (inv.rh _ (slot_lt hn) ho hp0).2
          rw [hslot1, prev_next hjj] at this
          rw [hslot1]; omega
        · omega
      rw [hPa]
      by_cases hswap : P a off (slot a.size t j) < pd + 1
      · -- swap
        rw [if_pos hswap]
        have hPnew : P (put aj (slot a.size t j) d) off (slot a.size t j) = pd + 1 := by
          unfold P; rw [get_put_eq d hjjaj, size_put, C.sz]; exact C.pdeq
        apply ih (j+1) _ _ _ _ (by omega) (by omega) (by omega)
        constructor
        · rw [size_put]; exact C.sz
        · intro x hx hle
          have : slot a.size t j ≠ x := by intro e; rw [← e, hdj] at hle; omega
          rw [get_put_ne d this]; exact C.unt x hx (by omega)
        · rw [get_put_ne d (Ne.symm htj)]; exact C.hole
        · exact hw
        · rw [hslot1, hgj]
          have := pov_next (k := get a (slot a.size t j) >>> off) hjj (by unfold P at hlin; omega)
          unfold P; exact this
        · intro i hi1 hij
          by_cases hlt : i < j
          · obtain ⟨v1, v2⟩ := C.vis i hi1 hlt
            rw [get_put_ne d (hvne i hlt), P_put_ne (hvne i hlt)]
            refine ⟨v1, ?_⟩
            by_cases h1 : i = 1
            · simp only [h1, if_true] at v2 ⊢; exact v2
            · simp only [h1, if_false] at v2 ⊢
              rw [P_put_ne (hvne (i-1) (by omega))]; exact v2
          · have hij' : i = j := by omega
            subst hij'
            rw [get_put_eq d hjjaj, hPnew]
            refine ⟨C.dne, ?_⟩
            have := C.pdle
            by_cases h1 : i = 1
            · simp only [h1, if_true] at this ⊢; omega
            · simp only [h1, if_false] at this ⊢
              rw [P_put_ne (hvne (i-1) (by omega))]; omega
        · have : j + 1 ≠ 1 := by omega
          simp only [this, if_false, Nat.add_sub_cancel]
          rw [hPnew]; omega
        · intro ho; exact hsuccNext _ (Nat.le_refl _) ho
        · rw [hgj]
          have := nz_put_swap (a := aj) (i := slot a.size t j) (v := d) hjjaj hw C.dne
          rw [hgj] at this
          exact this.trans C.perm
      · -- skip
        rw [if_neg hswap]
        have hPeq : P a off (slot a.size t j) = pd + 1 := by omega
        have hPaj : P aj off (slot a.size t j) = pd + 1 := by
          rw [P_congr C.sz hgj]; exact hPeq
        apply ih (j+1) _ _ _ _ (by omega) (by omega) (by omega)
        constructor
        · exact C.sz
        · intro x hx hle; exact C.unt x hx (by omega)
        · exact C.hole
        · exact C.dne
        · rw [hslot1]
          have := pov_next (k := d >>> off) hjj (by rw [C.pdeq]; omega)
          rw [this, C.pdeq]
        · intro i hi1 hij
          by_cases hlt : i < j
          · exact C.vis i hi1 hlt
          · have hij' : i = j := by omega
            subst hij'
            refine ⟨hw, ?_⟩
            rw [hPaj]
            have := C.pdle
            by_cases h1 : i = 1
            · simp only [h1, if_true] at this ⊢; omega
            · simp only [h1, if_false] at this ⊢; omega
        · have : j + 1 ≠ 1 := by omega
          simp only [this, if_false, Nat.add_sub_cancel]
          rw [hPaj]; omega
        · intro ho; exact hsuccNext _ (by omega) ho
        · exact C.perm

end
#print axioms cascade_spec
end RH
