import TinysetModel.Proofs.RH.GetPut
namespace RH

def nz (a : Tbl) : List Nat := a.toList.filter (· ≠ 0)

theorem get_eq_getElem {a : Tbl} {i : Nat} (hi : i < a.size) : get a i = a.toList[i]'(by simpa using hi) := by
  simp [get, Array.getD_eq_getD_getElem?, hi]

/-- positional distinctness of keys is `Nodup` of the key list -/
theorem distinct_iff_nodup (a : Tbl) (f : Nat → Nat) :
    (∀ i j, i < a.size → j < a.size → get a i ≠ 0 → get a j ≠ 0 → f (get a i) = f (get a j) → i = j)
      ↔ ((nz a).map f).Nodup := by
  unfold nz
  rw [List.Nodup, List.pairwise_map, List.pairwise_filter, List.pairwise_iff_getElem]
  constructor
  · intro h i j hi hj hij p1 p2 e
    have hi' : i < a.size := by simpa using hi
    have hj' : j < a.size := by simpa using hj
    have := h i j hi' hj' (by rw [get_eq_getElem hi']; simpa using p1) (by rw [get_eq_getElem hj']; simpa using p2)
      (by rw [get_eq_getElem hi', get_eq_getElem hj']; exact e)
    omega
  · intro h i j hi hj o1 o2 e
    rw [get_eq_getElem hi] at o1 e
    rw [get_eq_getElem hj] at o2 e
    rcases Nat.lt_trichotomy i j with hlt | heq | hgt
    · exact absurd e (h i j (by simpa using hi) (by simpa using hj) hlt (by simpa using o1) (by simpa using o2))
    · exact heq
    · exact absurd e.symm (h j i (by simpa using hj) (by simpa using hi) hgt (by simpa using o2) (by simpa using o1))

theorem toList_put (a : Tbl) (i v : Nat) : (put a i v).toList = a.toList.set i v := by
  simp [put]

theorem filter_set_empty : ∀ (l : List Nat) (i v : Nat) (hi : i < l.length), l[i] = 0 → v ≠ 0 →
    ((l.set i v).filter (· ≠ 0)).Perm (v :: l.filter (· ≠ 0))
  | [], _, _, hi, _, _ => by simp at hi
  | x :: l, 0, v, _, h0, hv => by
    simp at h0; subst h0; simp [hv]
  | x :: l, i+1, v, hi, h0, hv => by
    have ih := filter_set_empty l i v (by simpa using hi) (by simpa using h0) hv
    simp only [List.set_cons_succ, List.filter_cons]
    split
    · exact (List.Perm.cons _ ih).trans (List.Perm.swap _ _ _)
    · exact ih

theorem filter_set_zero : ∀ (l : List Nat) (i : Nat) (hi : i < l.length), l[i] ≠ 0 →
    (l[i] :: (l.set i 0).filter (· ≠ 0)).Perm (l.filter (· ≠ 0))
  | [], _, hi, _ => by simp at hi
  | x :: l, 0, _, hw => by
    simp at hw; simp [hw]
  | x :: l, i+1, hi, hw => by
    have ih := filter_set_zero l i (by simpa using hi) (by simpa using hw)
    simp only [List.set_cons_succ, List.filter_cons, List.getElem_cons_succ]
    split
    · exact (List.Perm.swap _ _ _).trans (List.Perm.cons _ ih)
    · exact ih

/-- filling an empty slot adds exactly that word -/
theorem nz_put_empty {a : Tbl} {i v : Nat} (hi : i < a.size) (h0 : get a i = 0) (hv : v ≠ 0) :
    (nz (put a i v)).Perm (v :: nz a) := by
  unfold nz
  rw [toList_put]
  have hi' : i < a.toList.length := by simpa using hi
  exact filter_set_empty a.toList i v hi' (by rw [← get_eq_getElem hi]; exact h0) hv

/-- emptying an occupied slot removes exactly that word -/
theorem nz_put_zero {a : Tbl} {i : Nat} (hi : i < a.size) (hw : get a i ≠ 0) :
    (get a i :: nz (put a i 0)).Perm (nz a) := by
  unfold nz
  rw [toList_put, get_eq_getElem hi]
  have hi' : i < a.toList.length := by simpa using hi
  exact filter_set_zero a.toList i hi' (by rw [← get_eq_getElem hi]; exact hw)

/-- overwriting an occupied slot swaps the words -/
theorem nz_put_swap {a : Tbl} {i v : Nat} (hi : i < a.size) (hw : get a i ≠ 0) (hv : v ≠ 0) :
    (get a i :: nz (put a i v)).Perm (v :: nz a) := by
  have h1 := nz_put_zero hi hw
  have hi0 : i < (put a i 0).size := by simpa using hi
  have h2 := nz_put_empty (a := put a i 0) (v := v) hi0 (get_put_eq 0 hi) hv
  have e : put (put a i 0) i v = put a i v := by
    simp [put]
  rw [e] at h2
  exact ((List.Perm.cons _ h2).trans (List.Perm.swap _ _ _)).trans (List.Perm.cons _ h1)

end RH
