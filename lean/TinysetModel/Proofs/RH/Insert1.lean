import TinysetModel.Proofs.RH.Lookup
import TinysetModel.Proofs.RH.Circ
import TinysetModel.Proofs.RH.Perm
namespace RH

theorem P_put_ne {a : Tbl} {off i j v : Nat} (h : i ≠ j) : P (put a i v) off j = P a off j := by
  unfold P; rw [get_put_ne v h, size_put]

theorem P_eq_dist {a : Tbl} {off i : Nat} (hi : i < a.size) :
    P a off i = dist a.size (K a off i % a.size) i := by
  unfold P; rw [pov_eq_dist hi]

/-- linearisation: an empty slot is never inside the arc home..slot of an occupied slot -/
theorem lin {a : Tbl} {off : Nat} (inv : Inv a off) {z i : Nat} (hz : z < a.size) (hz0 : get a z = 0)
    (hi : i < a.size) (hocc : get a i ≠ 0) : P a off i ≤ dist a.size (next a.size z) i := by
  have hn : 0 < a.size := by omega
  have hh : K a off i % a.size < a.size := Nat.mod_lt _ hn
  rw [P_eq_dist hi]
  apply arc_le_of_not_on hh hz hi
  rcases Nat.lt_or_ge (dist a.size (K a off i % a.size) i) (dist a.size (K a off i % a.size) z) with h | h
  · exact h
  · exfalso
    have hq : dist a.size (K a off i % a.size) z ≤ P a off i := by rw [P_eq_dist hi]; exact h
    have := (chain' inv hi hocc hq).1
    rw [slot_dist hh hz] at this
    exact this hz0

/-- placing a new key into an empty slot whose predecessor is poor enough keeps the invariant -/
theorem place_empty {a : Tbl} {off ii w : Nat} (inv : Inv a off) (hii : ii < a.size)
    (h0 : get a ii = 0) (hw : w ≠ 0)
    (hfresh : ∀ i, i < a.size → get a i ≠ 0 → K a off i ≠ w >>> off)
    (hpred : 0 < pov (w >>> off) ii a.size →
      get a (prev a.size ii) ≠ 0 ∧ pov (w >>> off) ii a.size ≤ P a off (prev a.size ii) + 1) :
    Inv (put a ii w) off := by
  have hn : 0 < a.size := by omega
  constructor
  · -- distinct
    intro i j hi hj oi oj e
    rw [size_put] at hi hj
    by_cases h1 : ii = i <;> by_cases h2 : ii = j
    · omega
    · subst h1
      exfalso
      unfold K at e
      rw [get_put_eq w hii, get_put_ne w h2] at e
      rw [get_put_ne w h2] at oj
      exact hfresh j hj oj e.symm
    · subst h2
      exfalso
      unfold K at e
      rw [get_put_eq w hii, get_put_ne w h1] at e
      rw [get_put_ne w h1] at oi
      exact hfresh i hi oi e
    · unfold K at e
      rw [get_put_ne w h1, get_put_ne w h2] at e
      rw [get_put_ne w h1] at oi
      rw [get_put_ne w h2] at oj
      exact inv.distinct i j hi hj oi oj e
  · -- rh
    intro i hi oi hp
    rw [size_put] at hi
    rw [size_put]
    by_cases h1 : ii = i
    · subst h1
      have hP : P (put a ii w) off ii = pov (w >>> off) ii a.size := by
        unfold P; rw [get_put_eq w hii, size_put]
      rw [hP] at hp ⊢
      obtain ⟨hpo, hpl⟩ := hpred hp
      have hne : ii ≠ prev a.size ii := by
        intro e; rw [← e] at hpo; exact hpo h0
      rw [get_put_ne w hne, P_put_ne hne]
      exact ⟨hpo, hpl⟩
    · rw [get_put_ne w h1] at oi
      rw [P_put_ne h1] at hp ⊢
      obtain ⟨hpo, hpl⟩ := inv.rh i hi oi hp
      have hne : ii ≠ prev a.size i := by
        intro e; rw [← e] at hpo; exact hpo h0
      rw [get_put_ne w hne, P_put_ne hne]
      exact ⟨hpo, hpl⟩

#print axioms place_empty
#print axioms lin
end RH
