import TinysetModel.Proofs.RH.Insert3
namespace RH
section
variable {a : Tbl} {off k : Nat}

/-- absent keys are never reported found -/
theorem lookfor_absent (hn : 0 < a.size) (hfresh : ∀ i, i < a.size → get a i ≠ 0 → K a off i ≠ k) :
    ∀ i, lookfor k a off ≠ .found i := by
  intro i h
  obtain ⟨h1, h2, h3⟩ := lookforAux_found hn _ _ _ h
  exact hfresh i h1 h2 h3

/-- an `EmptySpot` answer is a slot where the caller's direct write keeps invariant and cut -/
theorem lookforAux_empty (inv : Inv a off) {z : Nat} (hz : z < a.size) (hz0 : get a z = 0)
    {w : Nat} (hw : w ≠ 0) (hk : w >>> off = k)
    (hfresh : ∀ i, i < a.size → get a i ≠ 0 → K a off i ≠ k) :
    ∀ fuel p ii,
      (∀ q, q < p → get a (slot a.size (k % a.size) q) ≠ 0 ∧ q ≤ P a off (slot a.size (k % a.size) q)) →
      p ≤ dist a.size (k % a.size) z →
      lookforAux k a off a.size fuel p = .empty ii →
      ii < a.size ∧ get a ii = 0 ∧ Inv (put a ii w) off ∧ (nz (put a ii w)).Perm (w :: nz a) ∧
        Lin (put a ii w) off (next a.size z) := by
  have hn : 0 < a.size := by omega
  have hh : k % a.size < a.size := Nat.mod_lt _ hn
  have hdz : dist a.size (k % a.size) z < a.size := dist_lt hh hz
  intro fuel
  induction fuel with
  | zero => intro p ii _ _ h; simp [lookforAux] at h
  | succ fuel ih =>
    intro p ii hscan hple h
    have hpn : p < a.size := by omega
    have hii : slot a.size (k % a.size) p < a.size := slot_lt hn
    unfold lookforAux at h
    dsimp only at h
    by_cases h0 : get a (slot a.size (k % a.size) p) = 0
    · rw [if_pos h0] at h
      simp at h; subst h
      have hpovk : pov k (slot a.size (k % a.size) p) a.size = p := by
        rw [pov_eq_dist hii]; exact dist_slot hh hpn
      refine ⟨hii, h0, ?_, nz_put_empty hii h0 hw, place_empty_lin inv hz hz0 hk hple⟩
      apply place_empty inv hii h0 hw
      · intro i hi oi; rw [hk]; exact hfresh i hi oi
      · rw [hk, hpovk]
        intro hp
        have e : prev a.size (slot a.size (k % a.size) p) = slot a.size (k % a.size) (p-1) := by
          have : p = (p - 1) + 1 := by omega
          rw [this, prev_slot hh (by omega)]; simp
        rw [e]
        obtain ⟨h1, h2⟩ := hscan (p-1) (by omega)
        exact ⟨h1, by omega⟩
    · rw [if_neg h0] at h
      have hkne : ¬ (get a (slot a.size (k % a.size) p) >>> off = k) := hfresh _ hii h0
      rw [if_neg hkne] at h
      split at h
      · simp at h
      · rename_i hge
        have hne_z : slot a.size (k % a.size) p ≠ z := by intro e; rw [e] at h0; exact h0 hz0
        have hplt : p < dist a.size (k % a.size) z := by
          rcases Nat.lt_or_ge p (dist a.size (k % a.size) z) with h' | h'
          · exact h'
          · exfalso
            have : p = dist a.size (k % a.size) z := by omega
            rw [this, slot_dist hh hz] at hne_z; exact hne_z rfl
        apply ih (p+1) ii _ (by omega) h
        intro q hq
        by_cases hqp : q < p
        · exact hscan q hqp
        · have : q = p := by omega
          subst this
          exact ⟨h0, by unfold P; omega⟩
end
#print axioms lookforAux_empty
end RH
