import TinysetModel.Proofs.RH.Cascade
namespace RH

theorem dist_prev_self {n t : Nat} (ht : t < n) : dist n t (prev n t) = n - 1 := by
  unfold prev dist; repeat' split
  all_goals omega

theorem mem_nz {a : Tbl} {x : Nat} : x ∈ nz a ↔ x ≠ 0 ∧ ∃ i, i < a.size ∧ get a i = x := by
  unfold nz
  rw [List.mem_filter, List.mem_iff_getElem]
  constructor
  · rintro ⟨⟨i, hi, e⟩, hx⟩
    have hi' : i < a.size := by simpa using hi
    exact ⟨by simpa using hx, i, hi', by rw [get_eq_getElem hi']; exact e⟩
  · rintro ⟨hx, i, hi, e⟩
    exact ⟨⟨i, by simpa using hi, by rw [← get_eq_getElem hi]; exact e⟩, by simpa using hx⟩

theorem inv_nodup {a : Tbl} {off : Nat} (inv : Inv a off) : ((nz a).map (· >>> off)).Nodup :=
  (distinct_iff_nodup a (· >>> off)).1 inv.distinct

/-- distinctness transfers along a permutation that adds one fresh key -/
theorem distinct_of_perm {a b : Tbl} {off w : Nat} (inv : Inv a off)
    (hfresh : ∀ i, i < a.size → get a i ≠ 0 → K a off i ≠ w >>> off)
    (hp : (nz b).Perm (w :: nz a)) :
    ∀ i j, i < b.size → j < b.size → get b i ≠ 0 → get b j ≠ 0 → K b off i = K b off j → i = j := by
  apply (distinct_iff_nodup b (· >>> off)).2
  have := (hp.map (· >>> off)).nodup_iff.2
  apply this
  rw [List.map_cons, List.nodup_cons]
  refine ⟨?_, inv_nodup inv⟩
  intro hmem
  rw [List.mem_map] at hmem
  obtain ⟨x, hx, e⟩ := hmem
  obtain ⟨hx0, i, hi, hg⟩ := mem_nz.1 hx
  exact hfresh i hi (by rw [hg]; exact hx0) (by unfold K; rw [hg]; exact e)

section
variable {a : Tbl} {off t p : Nat}

theorem steal_done (inv : Inv a off) (ht : t < a.size) {m J : Nat} {a' : Tbl}
    (D : CascDone a off t p m J a') {w : Nat} (hw : w ≠ 0)
    (hfresh : ∀ i, i < a.size → get a i ≠ 0 → K a off i ≠ w >>> off)
    (hpw : pov (w >>> off) t a.size = p)
    (hpred : 0 < p → get a (prev a.size t) ≠ 0 ∧ p ≤ P a off (prev a.size t) + 1) :
    Inv (put a' t w) off ∧ (nz (put a' t w)).Perm (w :: nz a) := by
  have hn : 0 < a.size := by omega
  have hta' : t < a'.size := by rw [D.sz]; exact ht
  have hperm : (nz (put a' t w)).Perm (w :: nz a) :=
    (nz_put_empty hta' D.hole hw).trans (List.Perm.cons _ D.perm)
  refine ⟨⟨?_, ?_⟩, hperm⟩
  · have := distinct_of_perm (b := put a' t w) inv hfresh hperm
    exact this
  · intro x hx ox hpx
    rw [size_put, D.sz] at hx
    rw [size_put, D.sz]
    have hPt : P (put a' t w) off t = p := by
      unfold P; rw [get_put_eq w hta', size_put, D.sz]; exact hpw
    -- coordinate of x
    have hc : dist a.size t x < a.size := dist_lt ht hx
    by_cases hx0 : dist a.size t x = 0
    · -- x = t
      have hxt : x = t := dist_eq_zero ht hx hx0
      subst hxt
      rw [hPt] at hpx ⊢
      obtain ⟨po, pl⟩ := hpred hpx
      have hdp := dist_prev_self ht
      have hJ : J < a.size - 1 := by
        rcases Nat.lt_or_ge J (a.size - 1) with h | h
        · exact h
        · exfalso
          have hJe : J = a.size - 1 := by have := D.Jlt; omega
          have : slot a.size x J = prev a.size x := by
            rw [hJe, ← hdp]; exact slot_dist ht (prev_lt ht)
          have h0 := D.wasEmpty
          rw [this] at h0; exact po h0
      have hne : x ≠ prev a.size x := by
        intro e; rw [← e, dist_self] at hdp; omega
      have hg : get a' (prev a.size x) = get a (prev a.size x) :=
        D.unt _ (prev_lt ht) (by omega)
      rw [get_put_ne w hne, P_put_ne hne, hg, P_congr D.sz hg]
      exact ⟨po, pl⟩
    · have hxt : t ≠ x := by intro e; rw [← e, dist_self] at hx0; exact hx0 rfl
      rw [get_put_ne w hxt] at ox
      rw [P_put_ne hxt] at hpx ⊢
      have hprevd : dist a.size t (prev a.size x) = dist a.size t x - 1 := dist_prev ht hx (by omega)
      by_cases hvis : dist a.size t x ≤ J
      · -- visited slot
        have hxs : slot a.size t (dist a.size t x) = x := slot_dist ht hx
        obtain ⟨v1, v2⟩ := D.vis (dist a.size t x) (by omega) hvis
        rw [hxs] at v1 v2
        have hprevs : prev a.size x = slot a.size t (dist a.size t x - 1) := by
          have := slot_dist ht (prev_lt (n := a.size) hx)
          rw [hprevd] at this; exact this.symm
        by_cases h1 : dist a.size t x = 1
        · simp only [h1, if_true] at v2
          have : prev a.size x = t := by rw [hprevs, h1]; exact slot_zero ht
          rw [this, get_put_eq w hta', hPt]
          exact ⟨hw, v2⟩
        · simp only [h1, if_false] at v2
          have hne : t ≠ prev a.size x := by
            intro e; rw [← e, dist_self] at hprevd; omega
          rw [get_put_ne w hne, P_put_ne hne, hprevs]
          exact ⟨(D.vis (dist a.size t x - 1) (by omega) (by omega)).1, v2⟩
      · -- untouched slot
        have hgx : get a' x = get a x := D.unt x hx (by omega)
        rw [hgx] at ox
        rw [P_congr D.sz hgx] at hpx ⊢
        obtain ⟨po, pl⟩ := inv.rh x hx ox hpx
        have hJpos := D.Jpos
        have hne : t ≠ prev a.size x := by
          intro e; rw [← e, dist_self] at hprevd; omega
        have hJlt : J < dist a.size t x - 1 := by
          rcases Nat.lt_or_ge J (dist a.size t x - 1) with h | h
          · exact h
          · exfalso
            have hJe : J = dist a.size t x - 1 := by omega
            have h0 := D.wasEmpty
            have : slot a.size t J = prev a.size x := by
              rw [hJe, ← hprevd]; exact slot_dist ht (prev_lt hx)
            rw [this] at h0; exact po h0
        have hg : get a' (prev a.size x) = get a (prev a.size x) :=
          D.unt _ (prev_lt hx) (by omega)
        rw [get_put_ne w hne, P_put_ne hne, hg, P_congr D.sz hg]
        exact ⟨po, pl⟩
end

#print axioms steal_done
end RH
