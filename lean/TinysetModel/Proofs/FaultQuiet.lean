import TinysetModel.Proofs.FaultProj
import TinysetModel.Proofs.Total32Fill
/-! A refill step (an insert into a `RefillGoodS` table) requests no block: its trace is `[]`. -/
namespace SC
open RH Plain2

variable {c : Cfg} {D : Type}

/-- a successful run of the plain reading is a successful run of the traced reading, with some trace -/
theorem ProjOK.lift {recT : InsT D} {rec : Ins D} (h : ProjOK recT rec) {r : Rp} {e : Nat} {d d' : D}
    {res : Rp × Bool} (hr : rec r e d = .ok (res, d')) : ∃ tr, recT r e d = .ok ((res, tr), d') := by
  have := h r e d
  rw [hr] at this
  cases hq : recT r e d with
  | error x => rw [hq] at this; cases this
  | ok p =>
    obtain ⟨⟨res1, t⟩, d1⟩ := p
    rw [hq] at this
    simp only [dropTr, Except.ok.injEq, Prod.mk.injEq] at this
    obtain ⟨h1, h2⟩ := this
    subst h1; subst h2
    exact ⟨t, rfl⟩

/-- dense, word in range: no request -/
theorem insertDenseT_tr_inrange (fresh : Bool) (g : Rng D) (recT : InsT D) {sz cap : Nat} {a : Tbl} {e : Nat}
    (hin : e >>> c.dShift < cap) {d d' : D} {res : Rp × Bool} {tr : Tr}
    (h : insertDenseT c fresh g recT sz cap a e d = .ok ((res, tr), d')) : tr = [] := by
  unfold insertDenseT at h
  dsimp only at h
  rw [if_pos hin] at h
  simp only [pure, StateT.pure, Except.pure, Except.ok.injEq, Prod.mk.injEq] at h
  exact h.1.2.symm

/-- the tail of `insertPlainT` after the placeholder has been re-chosen -/
theorem plainT_tail_tr (g : Rng D) {sz cap bits1 : Nat} {a1 : Tbl} {e' : Nat} {d1 d' : D}
    {sz' bits' : Nat} {a' : Tbl} {b : Bool} {tr : Tr}
    (h : (match tablePlace c e' e' 0 a1 with
        | some a' => (pure ((Rp.heap (sz + 1) cap bits1 a', true), []) : M D ((Rp × Bool) × Tr))
        | none => do
          let r ← drawM c g cap bits1
          let na ← (a1.toList.filter (· ≠ 0)).foldlM (fun t v => placeRaw v t)
            (Array.replicate (cap + 1 + c.growExtra cap + r % c.bigMod cap) 0)
          let na ← placeRaw e' na
          pure ((Rp.heap (sz + 1) (cap + 1 + c.growExtra cap + r % c.bigMod cap) bits1 na, true),
            reqWCB (Rp.heap sz cap bits1 a1) (cap + 1 + c.growExtra cap + r % c.bigMod cap))) d1
      = .ok (((.heap sz' cap bits' a', b), tr), d')) : tr = [] := by
  cases ht : tablePlace c e' e' 0 a1 with
  | some a2 =>
    rw [ht] at h
    simp only [pure, StateT.pure, Except.pure, Except.ok.injEq, Prod.mk.injEq] at h
    exact h.1.2.symm
  | none =>
    rw [ht] at h
    obtain ⟨r, d2, _, h2⟩ := bind_ok h
    obtain ⟨na, d3, _, h3⟩ := bind_ok h2
    obtain ⟨na2, d4, _, h4⟩ := bind_ok h3
    simp only [pure, StateT.pure, Except.pure, Except.ok.injEq, Prod.mk.injEq, Rp.heap.injEq] at h4
    have := h4.1.1.1.2.1
    omega

/-- plain: a result with the same capacity was reached without a request -/
theorem insertPlainT_tr_samecap (g : Rng D) {sz cap bits : Nat} {a : Tbl} {e : Nat} {d d' : D}
    {sz' bits' : Nat} {a' : Tbl} {b : Bool} {tr : Tr}
    (h : insertPlainT c g sz cap bits a e d = .ok (((.heap sz' cap bits' a', b), tr), d')) : tr = [] := by
  unfold insertPlainT at h
  obtain ⟨⟨a1, bits1⟩, d1, _, h2⟩ := bind_ok h
  dsimp only at h2
  generalize (if e = 0 then bits1 else e) = e' at h2
  cases hl : RH.lookfor e' a1 0 with
  | found i =>
    rw [hl] at h2
    simp only [pure, StateT.pure, Except.pure, Except.ok.injEq, Prod.mk.injEq] at h2
    exact h2.1.2.symm
  | empty i => rw [hl] at h2; exact plainT_tail_tr g h2
  | needInsert => rw [hl] at h2; exact plainT_tail_tr g h2

/-- bitmap: key found, or the new word placed without growing: no request -/
theorem insertBitmapT_tr_quiet (g : Rng D) (recT : InsT D) {sz cap bits : Nat} {a : Tbl} {e : Nat}
    (hfit : ¬ c.cab e < bits)
    (hq : (∃ idx, RH.lookfor (e / bits) a bits = .found idx) ∨
      ∃ a', tablePlace c (e / bits) (modW c ((e / bits) <<< bits) ||| (1 <<< (e % bits))) bits a = some a')
    {d d' : D} {res : Rp × Bool} {tr : Tr}
    (h : insertBitmapT c g recT sz cap bits a e d = .ok ((res, tr), d')) : tr = [] := by
  unfold insertBitmapT at h
  dsimp only at h
  rw [if_neg hfit] at h
  have hplace : ∀ a', tablePlace c (e / bits) (modW c ((e / bits) <<< bits) ||| (1 <<< (e % bits))) bits a = some a' →
      (∀ i, RH.lookfor (e / bits) a bits ≠ .found i) → tr = [] := by
    intro a' ht hnf
    cases hl : RH.lookfor (e / bits) a bits with
    | found i => exact absurd hl (hnf i)
    | empty i =>
      rw [hl] at h; dsimp only at h; rw [ht] at h
      simp only [pure, StateT.pure, Except.pure, Except.ok.injEq, Prod.mk.injEq] at h
      exact h.1.2.symm
    | needInsert =>
      rw [hl] at h; dsimp only at h; rw [ht] at h
      simp only [pure, StateT.pure, Except.pure, Except.ok.injEq, Prod.mk.injEq] at h
      exact h.1.2.symm
  by_cases hf : ∃ idx, RH.lookfor (e / bits) a bits = .found idx
  · obtain ⟨idx, hl⟩ := hf
    rw [hl] at h
    dsimp only at h
    split at h <;>
      (simp only [pure, StateT.pure, Except.pure, Except.ok.injEq, Prod.mk.injEq] at h; exact h.1.2.symm)
  · rcases hq with hq | ⟨a', ht⟩
    · exact absurd hq hf
    · exact hplace a' ht (fun i hi => hf ⟨i, hi⟩)

/-- the branch condition behind `insertBitmap_slack` -/
theorem bitmap_quiet_branch (ok : CfgOK c) {sz cap bits : Nat} {a : Tbl} (hb : isDense c bits = false)
    (hp : isPlain c bits = false) (wf : BitmapWF c sz cap bits a) (e : Nat) (he : e < 2 ^ c.W)
    (hfit : ¬ c.cab e < bits) {KL : List Nat} (hnd : KL.Nodup) (hlen : KL.length + slack c cap ≤ cap)
    (hsub : ∀ x ∈ elems c (.heap sz cap bits a), x / bits ∈ KL) (hk : e / bits ∈ KL) :
    (∃ idx, RH.lookfor (e / bits) a bits = .found idx) ∨
      ∃ a', tablePlace c (e / bits) (modW c ((e / bits) <<< bits) ||| (1 <<< (e % bits))) bits a = some a' := by
  rcases lookfor_cases wf.inv wf.npos (e / bits) with ⟨idx, hl, _, _, _⟩ | ⟨hnf, hfresh⟩
  · exact Or.inl ⟨idx, hl⟩
  · have hpos := wf.bits_pos
    have hoff : e % bits < bits := Nat.mod_lt _ hpos
    obtain ⟨hm, hkW⟩ := newword_facts ok hpos wf.bits_lt e he hfit
    have hbitlt : 1 <<< (e % bits) < 2 ^ bits := by
      rw [Nat.shiftLeft_eq, Nat.one_mul]; exact Nat.pow_lt_pow_right (by omega) hoff
    have hvk : (modW c ((e / bits) <<< bits) ||| (1 <<< (e % bits))) >>> bits = e / bits := by
      rw [hm]; exact key_of_word hbitlt
    have hv0 : modW c ((e / bits) <<< bits) ||| (1 <<< (e % bits)) ≠ 0 := by
      apply ne_zero_of_testBit (off := e % bits)
      rw [testBit_or_bit]; simp
    have hlt : (nz a).length + slack c a.size < a.size := by
      have := buckets_lt hb hp wf hnd hsub hk hfresh
      have := wf.cap_eq
      subst this
      omega
    exact Or.inr (tablePlace_isSome_slack (c := c) wf.npos wf.inv hv0 hvk hfresh hlt)

/-- **A refill step requests nothing** (with the link to the untraced step). -/
theorem stepT_quiet' (ok : CfgOK c) (fresh : Bool) (g : Rng D) (recT : InsT D) (rec : Ins D) (hp : ProjOK recT rec)
    (hrec : RecOK c rec) {V : List Nat} {r : Rp} (gd : RefillGoodS c V r) {x : Nat} (hx : x ∈ V)
    (hxW : x < 2 ^ c.W) (d : D) :
    ∃ r' b d', insertStepT c fresh g recT r x d = .ok (((r', b), []), d') ∧
      insertStep c g rec r x d = .ok ((r', b), d') ∧ RefillGoodS c V r' := by
  have hP := insertStepT_proj c fresh g hp
  match r, gd with
  | .empty, gd => exact gd.shape.elim
  | .stack t, gd => exact gd.shape.elim
  | .heap sz cap bits a, gd =>
    have hsubV : ∀ {r' : Rp} {b : Bool}, InsOK c (.heap sz cap bits a) x r' b → ∀ y ∈ elems c r', y ∈ V := by
      intro r' b h y hy
      rcases (h.mem y).1 hy with h1 | h1
      · exact gd.sub y h1
      · exact h1 ▸ hx
    rcases WF_heap_cases gd.wf with ⟨hW, dw⟩ | ⟨hd, hpl⟩ | ⟨hd, hpl, bw⟩
    · subst hW
      have hs := RefillShapeS_dense.1 gd.shape
      obtain ⟨sz', a', b, heq, hok⟩ := insertDense_inrange ok g rec hrec dw x hxW (hs x hx) d
      have hstep : insertStep c g rec (.heap sz cap c.W a) x d = .ok ((.heap sz' cap c.W a', b), d) := by
        rw [insertStep, if_pos (isDense_W c)]; exact heq
      obtain ⟨tr, hT⟩ := hP.lift hstep
      have htr : tr = [] := by
        have h2 := hT
        rw [insertStepT, if_pos (isDense_W c)] at h2
        exact insertDenseT_tr_inrange fresh g recT (hs x hx) h2
      subst htr
      exact ⟨_, b, d, hT, hstep, hok.wf, hsubV hok, RefillShapeS_dense.2 hs⟩
    · obtain ⟨hsmall, KL, hnd, hlen, hKL⟩ := (RefillShapeS_plain hd hpl).1 gd.shape
      have ab := absOK_of_wf ok gd.wf
      obtain ⟨sz', bits', a', b, d', heq, hok, hWb, hbW⟩ := insertPlain_slack g gd.wf hpl hd x hxW d hsmall
        (by
          intro hnot
          have := total_length_lt_of_fresh ab.nodup hnd (fun y hy => hKL y (gd.sub y hy)) (hKL x hx) hnot
          have hl : sz = (elems c (.heap sz cap bits a)).length := ab.len
          omega)
      have hstep : insertStep c g rec (.heap sz cap bits a) x d = .ok ((.heap sz' cap bits' a', b), d') := by
        rw [insertStep, if_neg (by rw [hd]; exact Bool.false_ne_true), if_pos hpl]; exact heq
      obtain ⟨tr, hT⟩ := hP.lift hstep
      have htr : tr = [] := by
        have h2 := hT
        rw [insertStepT, if_neg (by rw [hd]; exact Bool.false_ne_true), if_pos hpl] at h2
        exact insertPlainT_tr_samecap g h2
      subst htr
      exact ⟨_, b, d', hT, hstep, hok.wf, hsubV hok,
        (RefillShapeS_plain (isDense_of_gt hWb) (isPlain_of_gt hWb)).2 ⟨hsmall, KL, hnd, hlen, hKL⟩⟩
    · obtain ⟨hfit, KL, hnd, hlen, hKL⟩ := (RefillShapeS_bitmap hd hpl).1 gd.shape
      have hfit' : ¬ c.cab x < bits := by have := hfit x hx; omega
      obtain ⟨sz', a', b, heq, hok⟩ := insertBitmap_slack ok g rec hd hpl bw x hxW
        hfit' hnd hlen (fun y hy => hKL y (gd.sub y hy)) (hKL x hx) d
      have hq := bitmap_quiet_branch ok hd hpl bw x hxW hfit' hnd hlen (fun y hy => hKL y (gd.sub y hy)) (hKL x hx)
      have hstep : insertStep c g rec (.heap sz cap bits a) x d = .ok ((.heap sz' cap bits a', b), d) := by
        rw [insertStep, if_neg (by rw [hd]; exact Bool.false_ne_true),
          if_neg (by rw [hpl]; exact Bool.false_ne_true)]
        exact heq
      obtain ⟨tr, hT⟩ := hP.lift hstep
      have htr : tr = [] := by
        have h2 := hT
        rw [insertStepT, if_neg (by rw [hd]; exact Bool.false_ne_true),
          if_neg (by rw [hpl]; exact Bool.false_ne_true)] at h2
        exact insertBitmapT_tr_quiet g recT hfit' hq h2
      subst htr
      exact ⟨_, b, d, hT, hstep, hok.wf, hsubV hok, (RefillShapeS_bitmap hd hpl).2 ⟨hfit, KL, hnd, hlen, hKL⟩⟩

theorem stepT_quiet (ok : CfgOK c) (fresh : Bool) (g : Rng D) (recT : InsT D) (rec : Ins D) (hp : ProjOK recT rec)
    (hrec : RecOK c rec) {V : List Nat} {r : Rp} (gd : RefillGoodS c V r) {x : Nat} (hx : x ∈ V)
    (hxW : x < 2 ^ c.W) (d : D) :
    ∃ r' b d', insertStepT c fresh g recT r x d = .ok (((r', b), []), d') ∧ RefillGoodS c V r' := by
  obtain ⟨r', b, d', h1, _, h3⟩ := stepT_quiet' ok fresh g recT rec hp hrec gd hx hxW d
  exact ⟨r', b, d', h1, h3⟩

/-- the loop of `insertAllT`, from any accumulated trace -/
def foldT (recT : InsT D) (xs : List Nat) (r : Rp) (t0 : Tr) : M D (Rp × Tr) :=
  xs.foldlM (fun (acc : Rp × Tr) x => do
    let ((r', _), t) ← recT acc.1 x
    pure (r', acc.2 ++ t)) (r, t0)

theorem insertAllT_eq_foldT (recT : InsT D) (r : Rp) (xs : List Nat) : insertAllT recT r xs = foldT recT xs r [] := rfl

theorem foldT_cons_ok (recT : InsT D) (r : Rp) (x : Nat) (xs : List Nat) (t0 : Tr) (d : D) {r1 : Rp} {b : Bool}
    {t : Tr} {d1 : D} (h : recT r x d = .ok (((r1, b), t), d1)) :
    foldT recT (x :: xs) r t0 d = foldT recT xs r1 (t0 ++ t) d1 := by
  simp only [foldT, List.foldlM_cons, bind, StateT.bind, Except.bind, h]
  rfl

theorem foldT_quiet (ok : CfgOK c) (fresh : Bool) (g : Rng D) (recT : InsT D) (rec : Ins D) (hp : ProjOK recT rec)
    (hrec : RecOK c rec) {V : List Nat} : ∀ (xs : List Nat) (r : Rp) (t0 : Tr) (d : D), RefillGoodS c V r →
    (∀ x ∈ xs, x ∈ V ∧ x < 2 ^ c.W) →
    ∃ r' d', foldT (insertStepT c fresh g recT) xs r t0 d = .ok ((r', t0), d') ∧
      insertAll (insertStep c g rec) r xs d = .ok (r', d') ∧ RefillGoodS c V r' := by
  intro xs
  induction xs with
  | nil => intro r t0 d gd _; exact ⟨r, d, rfl, rfl, gd⟩
  | cons x xs ih =>
    intro r t0 d gd hxs
    obtain ⟨hxV, hxW⟩ := hxs x List.mem_cons_self
    obtain ⟨r1, b, d1, h1, h1', gd1⟩ := stepT_quiet' ok fresh g recT rec hp hrec gd hxV hxW d
    obtain ⟨r', d', h2, h2', gd'⟩ := ih r1 t0 d1 gd1 (fun y hy => hxs y (List.mem_cons_of_mem _ hy))
    refine ⟨r', d', ?_, ?_, gd'⟩
    · rw [foldT_cons_ok _ _ _ _ _ _ h1, List.append_nil]; exact h2
    · rw [insertAll_cons_ok _ _ _ _ _ h1']; exact h2'

/-- **The refill loop requests nothing.** -/
theorem insertAllT_quiet (ok : CfgOK c) (fresh : Bool) (g : Rng D) (recT : InsT D) (rec : Ins D)
    (hp : ProjOK recT rec) (hrec : RecOK c rec) {V : List Nat} (xs : List Nat) (r : Rp) (d : D)
    (gd : RefillGoodS c V r) (hxs : ∀ x ∈ xs, x ∈ V ∧ x < 2 ^ c.W) :
    ∃ r' d', insertAllT (insertStepT c fresh g recT) r xs d = .ok ((r', []), d') ∧ RefillGoodS c V r' := by
  obtain ⟨r', d', h1, _, h3⟩ := foldT_quiet ok fresh g recT rec hp hrec xs r [] d gd hxs
  exact ⟨r', d', h1, h3⟩

/-- `rebuildLocalT` into a good table requests nothing -/
theorem rebuildLocalT_quiet (ok : CfgOK c) (fresh : Bool) (g : Rng D) (recT : InsT D) (rec : Ins D)
    (hp : ProjOK recT rec) (hrec : RecOK c rec) {V : List Nat} {new old : Rp} {e : Nat} (gd : RefillGoodS c V new)
    (hold : ∀ x ∈ elems c old, x ∈ V ∧ x < 2 ^ c.W) (heV : e ∈ V) (he : e < 2 ^ c.W) (d : D) :
    ∃ r' d', rebuildLocalT c (insertStepT c fresh g recT) new old e d = .ok (((r', true), []), d') ∧
      rebuild c (insertStep c g rec) new old e d = .ok ((r', true), d') := by
  obtain ⟨r1, d1, h1, h1', gd1⟩ := foldT_quiet ok fresh g recT rec hp hrec (elems c old) new [] d gd hold
  obtain ⟨r2, b, d2, h2, h2', _⟩ := stepT_quiet' ok fresh g recT rec hp hrec gd1 heV he d1
  refine ⟨r2, d2, ?_, ?_⟩
  · unfold rebuildLocalT
    rw [insertAllT_eq_foldT, bind_run h1]
    dsimp only
    rw [bind_run h2]
    rfl
  · unfold rebuild
    rw [bind_run h1', bind_run h2']
    rfl

/-- `rebuildSelfT` into a good table requests nothing -/
theorem rebuildSelfT_quiet (ok : CfgOK c) (fresh : Bool) (g : Rng D) (recT : InsT D) (rec : Ins D)
    (hp : ProjOK recT rec) (hrec : RecOK c rec) {V : List Nat} {new old : Rp} {e : Nat} (gd : RefillGoodS c V new)
    (hold : ∀ x ∈ elems c old, x ∈ V ∧ x < 2 ^ c.W) (heV : e ∈ V) (he : e < 2 ^ c.W) (d : D) :
    ∃ r' d', rebuildSelfT c (insertStepT c fresh g recT) new old e d = .ok (((r', true), []), d') ∧
      rebuild c (insertStep c g rec) new old e d = .ok ((r', true), d') := by
  obtain ⟨r1, d1, h1, h1', gd1⟩ := foldT_quiet ok fresh g recT rec hp hrec (elems c old) new [] d gd hold
  obtain ⟨r2, b, d2, h2, h2', _⟩ := stepT_quiet' ok fresh g recT rec hp hrec gd1 heV he d1
  refine ⟨r2, d2, ?_, ?_⟩
  · unfold rebuildSelfT
    rw [insertAllT_eq_foldT, bind_run h1]
    dsimp only
    rw [bind_run h2]
    rfl
  · unfold rebuild
    rw [bind_run h1', bind_run h2']
    rfl

#print axioms stepT_quiet
#print axioms insertAllT_quiet
#print axioms rebuildLocalT_quiet
#print axioms rebuildSelfT_quiet
end SC
