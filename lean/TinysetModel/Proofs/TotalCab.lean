import TinysetModel.Proofs.CfgInst
import TinysetModel.Proofs.Tiny.Lemmas
/-! Totality of `insert`, part 1: what the "no growth during the refill" argument needs to know about a
configuration (`Like64`), and the proof that `cfg64` has these properties — in particular the
monotonicity of `compute_array_bits` (`cfg64_cab_mono`). -/
namespace SC

/-- `compute_array_bits` of `cfg64` is antitone: a larger value never gets a wider bitmap -/
theorem cfg64_cab_mono {x y : Nat} (h : x ≤ y) : cfg64.cab y ≤ cfg64.cab x := by
  have hl : log2 x ≤ log2 y := TinyC.log2_mono h
  rw [cfg64_cab_eq, cfg64_cab_eq]
  repeat' split
  all_goals omega

/-- `compute_array_bits` of `cfg64` is `0` (plain table) or a proper bitmap width `2 .. 62` -/
theorem cfg64_cab_range (m : Nat) : cfg64.cab m = 0 ∨ (2 ≤ cfg64.cab m ∧ cfg64.cab m ≤ 62) := by
  rw [cfg64_cab_eq]
  repeat' split
  all_goals omega

/-- the corner cases named in the task: width 62 for values below 2, width 0 from `2^62` on -/
theorem cfg64_cab_small {x : Nat} (h : x < 2) : cfg64.cab x = 62 := by
  have : x = 0 ∨ x = 1 := by omega
  rcases this with h | h <;> subst h <;> decide

theorem cfg64_cab_big {x : Nat} (h : 2 ^ 62 ≤ x) : cfg64.cab x = 0 := by
  have hx : x ≠ 0 := by
    intro h0; subst h0; exact absurd h (by decide)
  have : ¬ log2 x ≤ 62 := by
    intro hl
    have := (TinyC.log2_le_iff hx).1 hl
    omega
  rw [cfg64_cab_eq]
  repeat' split
  all_goals omega

/-- The properties of a configuration used by the totality proof.  They hold for `cfg64` (`cfg64_like`);
`cfg32` fails `room` (its room rule is "more than `cap >>> 4` buckets empty") and `cab_range`
(`cfg32.cab 0 = 62 > 32`). -/
structure Like64 (c : Cfg) : Prop where
  /-- the table "has room" as soon as one bucket is empty -/
  room : c.roomShift = none
  cab_mono : ∀ x y, x ≤ y → c.cab y ≤ c.cab x
  cab_range : ∀ m, c.cab m = 0 ∨ (0 < c.cab m ∧ c.cab m < c.W)
  /-- every value up to `mx` has its word inside `dense_with_max(mx)` -/
  dense_in : ∀ y mx, y ≤ mx → y >>> c.dShift < c.denseCap mx
  /-- the sparse fallback of the dense layout has a bucket for every member and the new value -/
  sparse_le : ∀ sz, sz + 1 ≤ c.sparseCap sz
  /-- ... and is small when the fallback is taken (`e >>> capShift > sz`) -/
  sparse_small : ∀ e sz, e < 2 ^ c.W → sz < e >>> c.capShift → c.sparseCap sz + c.W + 3 ≤ 2 ^ c.W
  /-- the slack and random part of the narrowed table -/
  narrow_le : ∀ n r, 0 < n → c.narrowExtra n + c.narrowMul * (r % n) ≤ 2 * n
  /-- the table replacing an inline value is small -/
  codec_small : c.codec.maxN + 1 + c.W + 3 ≤ 2 ^ c.W

theorem cfg64_like : Like64 cfg64 where
  room := rfl
  cab_mono := fun _ _ h => cfg64_cab_mono h
  cab_range := by
    intro m
    have : cfg64.W = 64 := rfl
    rw [this]
    rcases cfg64_cab_range m with h | h
    · exact Or.inl h
    · exact Or.inr (by omega)
  dense_in := by
    intro y mx h
    show y >>> 6 < 1 + mx / 64 + mx / 256
    rw [Nat.shiftRight_eq_div_pow]
    have : y / 2 ^ 6 ≤ mx / 2 ^ 6 := Nat.div_le_div_right h
    omega
  sparse_le := by
    intro sz
    show sz + 1 ≤ 2 * (sz + 1)
    omega
  sparse_small := by
    intro e sz he h
    have he' : e < 2 ^ 64 := he
    have h' : sz < e >>> 7 := h
    rw [Nat.shiftRight_eq_div_pow] at h'
    show 2 * (sz + 1) + 64 + 3 ≤ 2 ^ 64
    omega
  narrow_le := by
    intro n r hn
    show 0 + 2 * (r % n) ≤ 2 * n
    have := Nat.mod_lt r hn
    omega
  codec_small := by decide

#print axioms cfg64_cab_mono
#print axioms cfg64_like
end SC
