import TinysetModel.Proofs.FaultQuiet
import TinysetModel.Proofs.Total32Insert
/-! Main theorem about the failure-state model: an insert into a well-formed set requests at most one zeroed
block, and at that moment `*self` is well-formed and holds exactly its prior members. -/
namespace SC
open RH Plain2

variable {c : Cfg} {D : Type}

/-- what is claimed of a trace of an insert into `r` -/
def TrOK (c : Cfg) (r : Rp) (tr : Tr) : Prop :=
  tr.length ≤ 1 ∧ ∀ s ∈ tr, WF c s ∧ (elems c s).Perm (elems c r) ∧ len s = len r

theorem TrOK_nil (r : Rp) : TrOK c r [] := ⟨Nat.zero_le _, fun _ h => by cases h⟩

theorem TrOK_one {r s : Rp} (wf : WF c s) (hp : (elems c s).Perm (elems c r)) (hl : len s = len r) :
    TrOK c r [s] := by
  refine ⟨Nat.le_refl _, fun x hx => ?_⟩
  rw [List.mem_singleton.1 hx]
  exact ⟨wf, hp, hl⟩

theorem TrOK_self {r : Rp} (wf : WF c r) : TrOK c r [r] := TrOK_one wf (List.Perm.refl _) rfl

theorem TrOK_reqWCB {r : Rp} (wf : WF c r) (cap : Nat) : TrOK c r (reqWCB r cap) := by
  unfold reqWCB
  split
  · exact TrOK_self wf
  · exact TrOK_nil r

theorem TrOK_reqWCM {r : Rp} (wf : WF c r) (cap mx : Nat) : TrOK c r (reqWCM c r cap mx) := by
  unfold reqWCM
  split
  · exact TrOK_self wf
  · exact TrOK_reqWCB wf cap

/-- the only request of `insertPlainT` is made for the table with the placeholder already re-chosen -/
theorem insertPlainT_split (g : Rng D) {sz cap bits : Nat} {a : Tbl} {e : Nat} {d d' : D} {res : Rp × Bool} {tr : Tr}
    (h : insertPlainT c g sz cap bits a e d = .ok ((res, tr), d')) :
    ∃ a1 bits1 d1, (if e = bits then repick c g cap bits a e else pure (a, bits)) d = .ok ((a1, bits1), d1) ∧
      (tr = [] ∨ ∃ n, tr = reqWCB (.heap sz cap bits1 a1) n) := by
  unfold insertPlainT at h
  obtain ⟨⟨a1, bits1⟩, d1, h1, h2⟩ := bind_ok h
  refine ⟨a1, bits1, d1, h1, ?_⟩
  dsimp only at h2
  generalize (if e = 0 then bits1 else e) = e' at h2
  have tail : ∀ {l : RH.Looked}, (∀ i, l ≠ .found i) → RH.lookfor e' a1 0 = l →
      (tr = [] ∨ ∃ n, tr = reqWCB (.heap sz cap bits1 a1) n) := by
    intro l hl hlk
    rw [hlk] at h2
    have h3 : (match tablePlace c e' e' 0 a1 with
        | some a' => (pure ((Rp.heap (sz + 1) cap bits1 a', true), []) : M D ((Rp × Bool) × Tr))
        | none => do
          let r ← drawM c g cap bits1
          let na ← (a1.toList.filter (· ≠ 0)).foldlM (fun t v => placeRaw v t)
            (Array.replicate (cap + 1 + c.growExtra cap + r % c.bigMod cap) 0)
          let na ← placeRaw e' na
          pure ((Rp.heap (sz + 1) (cap + 1 + c.growExtra cap + r % c.bigMod cap) bits1 na, true),
            reqWCB (Rp.heap sz cap bits1 a1) (cap + 1 + c.growExtra cap + r % c.bigMod cap))) d1
        = .ok ((res, tr), d') := by
      cases l with
      | found i => exact absurd rfl (hl i)
      | empty i => exact h2
      | needInsert => exact h2
    cases ht : tablePlace c e' e' 0 a1 with
    | some a2 =>
      rw [ht] at h3
      simp only [pure, StateT.pure, Except.pure, Except.ok.injEq, Prod.mk.injEq] at h3
      exact Or.inl h3.1.2.symm
    | none =>
      rw [ht] at h3
      obtain ⟨r, d2, _, h4⟩ := bind_ok h3
      obtain ⟨na, d3, _, h5⟩ := bind_ok h4
      obtain ⟨na2, d4, _, h6⟩ := bind_ok h5
      simp only [pure, StateT.pure, Except.pure, Except.ok.injEq, Prod.mk.injEq] at h6
      exact Or.inr ⟨_, h6.1.2.symm⟩
  cases hl : RH.lookfor e' a1 0 with
  | found i =>
    rw [hl] at h2
    simp only [pure, StateT.pure, Except.pure, Except.ok.injEq, Prod.mk.injEq] at h2
    exact Or.inl h2.1.2.symm
  | empty i => exact tail (fun j hj => by cases hj) hl
  | needInsert => exact tail (fun j hj => by cases hj) hl

theorem plainT_trOK (g : Rng D) {sz cap bits : Nat} {a : Tbl} (wf : WF c (.heap sz cap bits a))
    (hpl : isPlain c bits = true) (hnd : isDense c bits = false) (e : Nat) {d d' : D} {res : Rp × Bool} {tr : Tr}
    (h : insertPlainT c g sz cap bits a e d = .ok ((res, tr), d')) : TrOK c (.heap sz cap bits a) tr := by
  obtain ⟨pw, hcap, hW, hw, hbits⟩ := plain_unfold wf hpl hnd
  obtain ⟨a1, bits1, d1, h1, htr⟩ := insertPlainT_split g h
  have key : TrOK c (.heap sz cap bits a) [.heap sz cap bits1 a1] := by
    by_cases hne : e = bits
    · subst hne
      rw [if_pos rfl] at h1
      cases hsc : repickScan c g cap e a d with
      | none => rw [repick_none g d hsc] at h1; cases h1
      | some i =>
        obtain ⟨a2, hr, pw2, s2, hWi, hilt, hie, hw2, hperm⟩ := repick_spec (cap := cap) g pw hw d hsc
        rw [hr] at h1
        simp only [Except.ok.injEq, Prod.mk.injEq] at h1
        obtain ⟨⟨h2, h3⟩, _⟩ := h1
        subst h2; subst h3
        refine TrOK_one (mkWF_plain pw2 (hcap.trans s2.symm) hWi hilt hw2) ?_ rfl
        rw [elems_plain (isPlain_of_gt hWi) (isDense_of_gt hWi), elems_plain hpl hnd]
        exact hperm
    · rw [if_neg hne] at h1
      simp only [pure, StateT.pure, Except.pure, Except.ok.injEq, Prod.mk.injEq] at h1
      obtain ⟨⟨h2, h3⟩, _⟩ := h1
      subst h2; subst h3
      exact TrOK_self wf
  rcases htr with h0 | ⟨n, hn⟩
  · rw [h0]; exact TrOK_nil _
  · rw [hn]
    unfold reqWCB
    split
    · exact key
    · exact TrOK_nil _

section sites
variable (ok : CfgOK c) (fresh : Bool) (g : Rng D) (recT : InsT D) (rec : Ins D) (hp : ProjOK recT rec)
  (hrec : RecOK c rec)
include ok hp hrec

/-- a `let mut new = ..; refill; *self = new` site whose fresh table is good: the only request is `pre` -/
theorem site_local0 {V : List Nat} {new old : Rp} {e : Nat} (gd : RefillGoodS c V new)
    (hold : ∀ x ∈ elems c old, x ∈ V ∧ x < 2 ^ c.W) (heV : e ∈ V) (he : e < 2 ^ c.W)
    {pre : Tr} (hpre : TrOK c old pre) {d d' : D} {res : Rp × Bool} {tr : Tr}
    (h : (rebuildLocalT c (insertStepT c fresh g recT) new old e >>= fun p => pure (p.1, pre ++ p.2)) d
      = .ok ((res, tr), d')) : TrOK c old tr := by
  obtain ⟨r2, d2, h2, _⟩ := rebuildLocalT_quiet ok fresh g recT rec hp hrec gd hold heV he d
  rw [bind_run h2] at h
  simp only [pure, StateT.pure, Except.pure, Except.ok.injEq, Prod.mk.injEq] at h
  obtain ⟨⟨_, h4⟩, _⟩ := h
  rw [← h4, List.append_nil]; exact hpre

theorem site_local {V : List Nat} {old : Rp} {e : Nat} {mk : M D Rp} {d : D}
    (hmk : ∃ r d1, mk d = .ok (r, d1) ∧ RefillGoodS c V r)
    (hold : ∀ x ∈ elems c old, x ∈ V ∧ x < 2 ^ c.W) (heV : e ∈ V) (he : e < 2 ^ c.W)
    {pre : Tr} (hpre : TrOK c old pre) {d' : D} {res : Rp × Bool} {tr : Tr}
    (h : (mk >>= fun new =>
        rebuildLocalT c (insertStepT c fresh g recT) new old e >>= fun p => pure (p.1, pre ++ p.2)) d
      = .ok ((res, tr), d')) : TrOK c old tr := by
  obtain ⟨r, d1, h1, gd⟩ := hmk
  rw [bind_run h1] at h
  exact site_local0 ok fresh g recT rec hp hrec gd hold heV he hpre h

theorem emptyT_trOK (lk : LikeS c) (e : Nat) (he : e < 2 ^ c.W) {d d' : D} {res : Rp × Bool} {tr : Tr}
    (h : insertStepT c fresh g (insertStepT c fresh g recT) .empty e d = .ok ((res, tr), d')) :
    TrOK c .empty tr := by
  rw [insertStepT] at h
  cases hnew : TinyC.newSortedDeduped c.codec [e] with
  | some t =>
    rw [hnew] at h
    simp only [pure, StateT.pure, Except.pure, Except.ok.injEq, Prod.mk.injEq] at h
    rw [← h.1.2]; exact TrOK_nil _
  | none =>
    rw [hnew] at h
    dsimp only at h
    have hsl : slack c 1 = 0 := lk.inline_slack 0 (Nat.zero_le _)
    obtain ⟨r, d1, h1, gd⟩ := withCapMax_goodS ok lk g (V := [e]) (cap := 1) (mx := e) (by omega)
      (fun y hy => by rw [List.mem_singleton.1 hy]; exact Nat.le_refl _)
      (by rw [List.length_singleton]; omega) (total_small_one ok) d
    obtain ⟨r2, b, d2, h2, _, _⟩ := stepT_quiet' ok fresh g recT rec hp hrec gd List.mem_cons_self he d1
    rw [bind_run h1, bind_run h2] at h
    simp only [pure, StateT.pure, Except.pure, Except.ok.injEq, Prod.mk.injEq] at h
    rw [← h.1.2, List.append_nil]
    exact TrOK_reqWCM (c := c) (r := .empty) trivial 1 e

theorem stackT_trOK (lk : LikeS c) {t : TinyC.T} (wf : StackWF c t) (e : Nat) (he : e < 2 ^ c.W) {d d' : D}
    {res : Rp × Bool} {tr : Tr}
    (h : insertStepT c fresh g (insertStepT c fresh g recT) (.stack t) e d = .ok ((res, tr), d')) :
    TrOK c (.stack t) tr := by
  rw [insertStepT] at h
  cases hins : TinyC.insert c.codec t e with
  | some t' =>
    rw [hins] at h
    simp only [pure, StateT.pure, Except.pure, Except.ok.injEq, Prod.mk.injEq] at h
    rw [← h.1.2]; exact TrOK_nil _
  | none =>
    rw [hins] at h
    dsimp only at h
    have hlenM := stack_members_length ok wf
    have hsz := wf.sz_le
    have hcs := lk.codec_small
    have hsl := lk.inline_slack t.sz hsz
    obtain ⟨r, d1, h1, gd⟩ := withCapMax_goodS ok lk g (V := t.members c.codec ++ [e]) (cap := t.sz + 1)
      (mx := if e > (t.members c.codec).getLast?.getD 0 then e else (t.members c.codec).getLast?.getD 0)
      (by omega)
      (by
        intro y hy
        rcases List.mem_append.1 hy with h | h
        · have := total_le_getLast_of_sorted _ (members_sorted (c := c) t) y h
          split <;> omega
        · rw [List.mem_singleton.1 h]
          split <;> omega)
      (by rw [List.length_append, hlenM, List.length_singleton]; omega)
      (by omega) d
    obtain ⟨r2, d2, h2, _⟩ := rebuildSelfT_quiet ok fresh g recT rec hp hrec (old := .stack t) (e := e) gd
      (fun x hx => ⟨List.mem_append_left _ hx, wf.range x hx⟩)
      (List.mem_append_right _ List.mem_cons_self) he d1
    rw [bind_run h1, bind_run h2] at h
    simp only [pure, StateT.pure, Except.pure, Except.ok.injEq, Prod.mk.injEq] at h
    rw [← h.1.2, List.append_nil]
    exact TrOK_reqWCM (c := c) (r := .stack t) wf _ _

theorem denseT_trOK (lk : LikeS c) {sz cap : Nat} {a : Tbl} (wf : WF c (.heap sz cap c.W a))
    (dw : DenseWF c sz cap a) (e : Nat) (he : e < 2 ^ c.W) {d d' : D} {res : Rp × Bool} {tr : Tr}
    (h : insertDenseT c fresh g (insertStepT c fresh g recT) sz cap a e d = .ok ((res, tr), d')) :
    TrOK c (.heap sz cap c.W a) tr := by
  by_cases hk : e >>> c.dShift < cap
  · rw [insertDenseT_tr_inrange fresh g _ hk h]; exact TrOK_nil _
  · unfold insertDenseT at h
    dsimp only at h
    rw [if_neg hk] at h
    by_cases hsp : e >>> c.capShift > sz
    · rw [if_pos hsp] at h
      have hszc := dw.szc
      have hsl := lk.sparse_fit sz
      have hdf := lk.dense_first e
      obtain ⟨KL, k1, k2, k3⟩ := total_KL_of_length (elems c (.heap sz cap c.W a) ++ [e]) (Max.max (c.cab e) 1)
      rw [List.length_append, List.length_singleton, ← hszc] at k2
      have hmk := withCapBits_goodS ok g (V := elems c (.heap sz cap c.W a) ++ [e])
        (cap := c.sparseCap sz) (bits := c.cab e) (by omega) (lk.cab_range e (by omega))
        (by
          intro y hy
          rcases List.mem_append.1 hy with h | h
          · apply lk.cab_mono
            have h1 := ((mem_elems_dense ok y).1 h).1
            have h2 := dw.cap_eq
            rw [shr_dShift ok] at hk
            exact Nat.le_of_lt (total_lt_of_div_lt_div (W := c.W) (by omega))
          · rw [List.mem_singleton.1 h]; exact Nat.le_refl _)
        (fun _ => lk.sparse_small e sz he hsp) ⟨KL, k1, by omega, k3⟩ d
      exact site_local ok fresh g recT rec hp hrec hmk
        (fun x hx => ⟨List.mem_append_left _ hx, dw.range x hx⟩)
        (List.mem_append_right _ List.mem_cons_self) he (TrOK_reqWCB wf _) h
    · rw [if_neg hsp] at h
      simp only [pure, StateT.pure, Except.pure, Except.ok.injEq, Prod.mk.injEq] at h
      rw [← h.1.2]
      split
      · exact TrOK_self wf
      · exact TrOK_nil _

/-- bitmap, the value needs a narrower width -/
theorem bitmapNarrowT_trOK (lk : LikeS c) {sz cap bits : Nat} {a : Tbl} (wf0 : WF c (.heap sz cap bits a))
    (wf : BitmapWF c sz cap bits a) (e : Nat) (he : e < 2 ^ c.W) (hsz : 3 * sz + 4 + c.W + 3 ≤ 2 ^ c.W)
    (hc : c.cab e < bits) {d d' : D} {res : Rp × Bool} {tr : Tr}
    (h : insertBitmapT c g (insertStepT c fresh g recT) sz cap bits a e d = .ok ((res, tr), d')) :
    TrOK c (.heap sz cap bits a) tr := by
  have hold : ∀ x ∈ elems c (.heap sz cap bits a),
      x ∈ elems c (.heap sz cap bits a) ++ [e] ∧ x < 2 ^ c.W :=
    fun x hx => ⟨List.mem_append_left _ hx, wf.range x hx⟩
  have heV : e ∈ elems c (.heap sz cap bits a) ++ [e] := List.mem_append_right _ List.mem_cons_self
  unfold insertBitmapT at h
  dsimp only at h
  rw [if_pos hc, bind_run (drawM_run g cap bits d)] at h
  generalize hkeys : sortDedup ((elems c (.heap sz cap bits a)).map (· / (Max.max (c.cab e) 1))) = keys at h
  obtain ⟨ks1, ks2⟩ := sortDedup_spec ((elems c (.heap sz cap bits a)).map (· / (Max.max (c.cab e) 1)))
  rw [hkeys] at ks1 ks2
  have knd : keys.Nodup := pairwise_lt_nodup ks1
  have klen : keys.length ≤ sz := by
    have h1 := knd.length_le_of_subset (fun x hx => (ks2 x).1 hx)
    rw [List.length_map, ← wf.szc] at h1
    exact h1
  have hnar := lk.narrow_le (keys.length + 1) (modW c (g.draw d cap bits).1) (by omega)
  have hnf := lk.narrow_fit (keys.length + 1) (modW c (g.draw d cap bits).1) (by omega)
  have hbl := wf.bits_lt
  have hmk := withCapBits_goodS ok g (V := elems c (.heap sz cap bits a) ++ [e])
    (cap := keys.length + 1 + 1 + c.narrowExtra (keys.length + 1) +
      c.narrowMul * (modW c (g.draw d cap bits).1 % (keys.length + 1))) (bits := c.cab e) (by omega)
    (by omega)
    (by
      intro y hy
      rcases List.mem_append.1 hy with h | h
      · have := wf.fits y h; omega
      · rw [List.mem_singleton.1 h]; exact Nat.le_refl _)
    (fun _ => by omega)
    (by
      by_cases hke : e / Max.max (c.cab e) 1 ∈ keys
      · refine ⟨keys, knd, by omega, fun y hy => ?_⟩
        rcases List.mem_append.1 hy with h | h
        · exact (ks2 _).2 (List.mem_map.2 ⟨y, h, rfl⟩)
        · rw [List.mem_singleton.1 h]; exact hke
      · refine ⟨e / Max.max (c.cab e) 1 :: keys, List.nodup_cons.2 ⟨hke, knd⟩,
          by rw [List.length_cons]; omega, fun y hy => ?_⟩
        rcases List.mem_append.1 hy with h | h
        · exact List.mem_cons_of_mem _ ((ks2 _).2 (List.mem_map.2 ⟨y, h, rfl⟩))
        · rw [List.mem_singleton.1 h]; exact List.mem_cons_self)
    (g.draw d cap bits).2
  exact site_local ok fresh g recT rec hp hrec hmk hold heV he (TrOK_reqWCB wf0 _) h

/-- the two growing branches of `insertBitmapT` (bitmap → dense, regrow with the same width) -/
theorem bitmapGrowT_trOK (lk : LikeS c) {sz cap bits : Nat} {a : Tbl} (wf0 : WF c (.heap sz cap bits a))
    (hb : isDense c bits = false) (hpl : isPlain c bits = false)
    (wf : BitmapWF c sz cap bits a) (e : Nat) (he : e < 2 ^ c.W) (hfit : ¬ c.cab e < bits)
    (hfresh : ∀ i, i < a.size → get a i ≠ 0 → K a bits i ≠ e / bits)
    (mx : Nat) (hmx : ∀ y ∈ elems c (.heap sz cap bits a) ++ [e], y ≤ mx) {d d' : D} {res : Rp × Bool} {tr : Tr}
    (h : (if cap > mx >>> 6 then
        rebuildLocalT c (insertStepT c fresh g recT) (denseWithMax c mx) (.heap sz cap bits a) e >>= fun p =>
          pure (p.1, [Rp.heap sz cap bits a] ++ p.2)
      else do
        let r ← drawM c g cap bits
        let new ← withCapBits c g (cap + 1 + c.growExtra cap + (r % cap)) bits
        rebuildLocalT c (insertStepT c fresh g recT) new (.heap sz cap bits a) e >>= fun p =>
          pure (p.1, reqWCB (.heap sz cap bits a) (cap + 1 + c.growExtra cap + (r % cap)) ++ p.2)) d
      = .ok ((res, tr), d')) : TrOK c (.heap sz cap bits a) tr := by
  have hold : ∀ x ∈ elems c (.heap sz cap bits a),
      x ∈ elems c (.heap sz cap bits a) ++ [e] ∧ x < 2 ^ c.W :=
    fun x hx => ⟨List.mem_append_left _ hx, wf.range x hx⟩
  have heV : e ∈ elems c (.heap sz cap bits a) ++ [e] := List.mem_append_right _ List.mem_cons_self
  by_cases hc : cap > mx >>> 6
  · rw [if_pos hc] at h
    exact site_local0 ok fresh g recT rec hp hrec (denseWithMax_goodS ok lk hmx) hold heV he (TrOK_self wf0) h
  · rw [if_neg hc, bind_run (drawM_run g cap bits d)] at h
    have hnd : ((e / bits) :: (nz a).map (· >>> bits)).Nodup := by
      refine List.nodup_cons.2 ⟨?_, inv_nodup wf.inv⟩
      intro hm
      obtain ⟨w, hw, hwk⟩ := List.mem_map.1 hm
      obtain ⟨h0, i, hi, hg⟩ := mem_nz.1 hw
      apply hfresh i hi (by rw [hg]; exact h0)
      unfold K
      rw [hg]; exact hwk
    have hlen : (nz a).length ≤ a.size := by
      have := List.length_filter_le (fun x => decide (x ≠ 0)) a.toList
      simpa [nz] using this
    have hcapeq := wf.cap_eq
    have hgf := lk.grow_fit cap (modW c (g.draw d cap bits).1) wf.cap_pos
    have hmk := withCapBits_goodS ok g (V := elems c (.heap sz cap bits a) ++ [e])
      (cap := cap + 1 + c.growExtra cap + modW c (g.draw d cap bits).1 % cap) (bits := bits) (by omega)
      (Or.inr ⟨wf.bits_pos, wf.bits_lt⟩)
      (by
        intro y hy
        rcases List.mem_append.1 hy with h | h
        · exact wf.fits y h
        · rw [List.mem_singleton.1 h]; omega)
      (fun h0 => by have := wf.bits_pos; omega)
      ⟨_, hnd, by rw [List.length_cons, List.length_map]; omega, by
        intro y hy
        rw [Nat.max_eq_left wf.bits_pos]
        rcases List.mem_append.1 hy with h | h
        · obtain ⟨w, hw, hk, _⟩ := (mem_elems_nz hb hpl wf.bits_pos y).1 h
          exact List.mem_cons_of_mem _ (List.mem_map.2 ⟨w, hw, hk⟩)
        · rw [List.mem_singleton.1 h]; exact List.mem_cons_self⟩
      (g.draw d cap bits).2
    exact site_local ok fresh g recT rec hp hrec hmk hold heV he (TrOK_reqWCB wf0 _) h

theorem bitmapT_trOK (lk : LikeS c) {sz cap bits : Nat} {a : Tbl} (wf0 : WF c (.heap sz cap bits a))
    (hb : isDense c bits = false) (hpl : isPlain c bits = false)
    (wf : BitmapWF c sz cap bits a) (e : Nat) (he : e < 2 ^ c.W) (hsz : 3 * sz + 4 + c.W + 3 ≤ 2 ^ c.W)
    {d d' : D} {res : Rp × Bool} {tr : Tr}
    (h : insertBitmapT c g (insertStepT c fresh g recT) sz cap bits a e d = .ok ((res, tr), d')) :
    TrOK c (.heap sz cap bits a) tr := by
  by_cases hc : c.cab e < bits
  · exact bitmapNarrowT_trOK ok fresh g recT rec hp hrec lk wf0 wf e he hsz hc h
  · rcases lookfor_cases wf.inv wf.npos (e / bits) with ⟨idx, hl, _, _, _⟩ | ⟨hnf, hfresh⟩
    · rw [insertBitmapT_tr_quiet g _ hc (Or.inl ⟨idx, hl⟩) h]; exact TrOK_nil _
    · cases hplace : tablePlace c (e / bits) (modW c ((e / bits) <<< bits) ||| (1 <<< (e % bits))) bits a with
      | some a' => rw [insertBitmapT_tr_quiet g _ hc (Or.inr ⟨a', hplace⟩) h]; exact TrOK_nil _
      | none =>
        have hmx : ∀ y ∈ elems c (.heap sz cap bits a) ++ [e],
            y ≤ (if e > (a.toList.map (fun x => (x >>> bits) * bits + bits)).foldl Max.max 0 then e
              else (a.toList.map (fun x => (x >>> bits) * bits + bits)).foldl Max.max 0) := by
          intro y hy
          rcases List.mem_append.1 hy with h | h
          · have := bitmap_mem_le_top hb hpl wf.bits_pos h
            split <;> omega
          · rw [List.mem_singleton.1 h]
            split <;> omega
        refine bitmapGrowT_trOK ok fresh g recT rec hp hrec lk wf0 hb hpl wf e he hc hfresh _ hmx (d := d) (d' := d') (res := res) ?_
        unfold insertBitmapT at h
        rw [if_neg hc] at h
        dsimp only at h
        cases hl : lookfor (e / bits) a bits with
        | found i => exact absurd hl (hnf i)
        | empty ii => rw [hl] at h; dsimp only at h; rw [hplace] at h; exact h
        | needInsert => rw [hl] at h; dsimp only at h; rw [hplace] at h; exact h

/-- the trace of one `insertStepT` whose recursive calls are `insertStepT` (over anything correct) -/
theorem insertStepT_trOK (lk : LikeS c) {r : Rp} (wf : WF c r) (e : Nat) (he : e < 2 ^ c.W)
    (hlen : 3 * len r + 4 + c.W + 3 ≤ 2 ^ c.W) {d d' : D} {res : Rp × Bool} {tr : Tr}
    (h : insertStepT c fresh g (insertStepT c fresh g recT) r e d = .ok ((res, tr), d')) : TrOK c r tr := by
  match r, wf with
  | .empty, _ => exact emptyT_trOK ok fresh g recT rec hp hrec lk e he h
  | .stack t, wf => exact stackT_trOK ok fresh g recT rec hp hrec lk wf e he h
  | .heap sz cap bits a, wf =>
    rw [insertStepT] at h
    rcases WF_heap_cases wf with ⟨hW, dw⟩ | ⟨hd, hpl⟩ | ⟨hd, hpl, bw⟩
    · subst hW
      rw [if_pos (isDense_W c)] at h
      exact denseT_trOK ok fresh g recT rec hp hrec lk wf dw e he h
    · rw [if_neg (by rw [hd]; exact Bool.false_ne_true), if_pos hpl] at h
      exact plainT_trOK g wf hpl hd e h
    · rw [if_neg (by rw [hd]; exact Bool.false_ne_true), if_neg (by rw [hpl]; exact Bool.false_ne_true)] at h
      exact bitmapT_trOK ok fresh g recT rec hp hrec lk wf hd hpl bw e he hlen h

end sites

/-- **Every insert into a well-formed set requests at most one zeroed block, and at that moment `*self` is
well-formed and holds exactly its prior members (same length); the traced reading returns what `insert`
returns.** -/
theorem insertT_contained (ok : CfgOK c) (lk : LikeS c) (fresh : Bool) (g : Rng D) (fuel : Nat) {r : Rp} (wf : WF c r)
    (e : Nat) (he : e < 2 ^ c.W) (hcap : capacity r + c.W + 3 ≤ 2 ^ c.W) (hlen : 3 * len r + 4 + c.W + 3 ≤ 2 ^ c.W)
    (d : D) :
    ∃ r' b tr d', insertT c fresh g (fuel + 2) r e d = .ok (((r', b), tr), d') ∧
      insert c g (fuel + 2) r e d = .ok ((r', b), d') ∧
      tr.length ≤ 1 ∧ ∀ s ∈ tr, WF c s ∧ (elems c s).Perm (elems c r) ∧ len s = len r := by
  obtain ⟨r', b, d', hi⟩ := insert_totalS ok lk g fuel wf e he hcap hlen d
  obtain ⟨tr, hT⟩ := (insertT_proj c fresh g (fuel + 2)).lift hi
  have hok : TrOK c r tr :=
    insertStepT_trOK ok fresh g (insertT c fresh g fuel) (insert c g fuel) (insertT_proj c fresh g fuel)
      (insert_refines ok g fuel) lk wf e he hlen (d := d) (d' := d') (res := (r', b)) hT
  exact ⟨r', b, tr, d', hT, hi, hok.1, hok.2⟩

/-- `SetU64::insert` (dense growth takes a fresh block), recursion depth 2 (fuel 3) -/
theorem insertT_contained_u64 (g : Rng D) {r : Rp} (wf : WF cfg64 r) (e : Nat) (he : e < 2 ^ 64)
    (hsize : capacity r + 64 + 3 ≤ 2 ^ 64 ∧ 3 * len r + 4 + 64 + 3 ≤ 2 ^ 64) (d : D) :
    ∃ r' b tr d', insertT cfg64 true g 3 r e d = .ok (((r', b), tr), d') ∧
      insert cfg64 g 3 r e d = .ok ((r', b), d') ∧
      tr.length ≤ 1 ∧ ∀ s ∈ tr, WF cfg64 s ∧ (elems cfg64 s).Perm (elems cfg64 r) ∧ len s = len r :=
  insertT_contained cfg64_ok cfg64_likeS true g 1 wf e he hsize.1 hsize.2 d

/-- `SetU32::insert` (dense growth reallocates in place), recursion depth 2 (fuel 3) -/
theorem insertT_contained_u32 (g : Rng D) {r : Rp} (wf : WF cfg32 r) (e : Nat) (he : e < 2 ^ 32)
    (hsize : capacity r + 32 + 3 ≤ 2 ^ 32 ∧ 3 * len r + 4 + 32 + 3 ≤ 2 ^ 32) (d : D) :
    ∃ r' b tr d', insertT cfg32 false g 3 r e d = .ok (((r', b), tr), d') ∧
      insert cfg32 g 3 r e d = .ok ((r', b), d') ∧
      tr.length ≤ 1 ∧ ∀ s ∈ tr, WF cfg32 s ∧ (elems cfg32 s).Perm (elems cfg32 r) ∧ len s = len r :=
  insertT_contained cfg32_ok cfg32_likeS false g 1 wf e he hsize.1 hsize.2 d

#print axioms insertStepT_trOK
#print axioms insertT_contained
#print axioms insertT_contained_u64
#print axioms insertT_contained_u32
end SC
