import TinysetModel.Proofs.PropsAux
import TinysetModel.Proofs.CfgInst
/-! Concrete reachable states in every layout of both configurations, with their well-formedness obtained
from the history theorem.  The property files use them in `example`s to show that the hypotheses of
their theorems (`WF c r`, "the model returns", …) are satisfiable. -/
namespace SC.Demo

/-! ### histories (run with the crate's deterministic generator, fuel 6) -/

def opsInline : List Op := [.ins 3, .ins 5, .ins 1000]
def opsBitmap : List Op := [.ins 5, .ins 1000, .ins (2 ^ 40), .rem 5, .con 1000, .con 5, .ins 1000, .len]
def opsBitmap32 : List Op := [.ins 5, .ins 1000, .ins (2 ^ 20), .rem 5, .con 1000, .con 5, .ins 1000, .len]
def opsPlain64 : List Op := [.ins (2 ^ 63), .ins (2 ^ 63 + 2 ^ 40), .ins 7, .rem 7, .len]
def opsPlain32 : List Op := [.ins (2 ^ 31), .ins (2 ^ 31 + 2 ^ 20), .ins 7, .rem 7, .len]
def opsDense : List Op := (List.range 12).map (fun i => Op.ins (3 * i))

/-! ### the states they reach -/

def inline : Rp := .stack ⟨3, 69946533860081667⟩
def bitmap64 : Rp := .heap 2 3 23 #[401016175510691840, 360712192, 0]
def bitmap32 : Rp := .heap 2 3 11 #[185344, 195225602, 0]
def plain64 : Rp := .heap 2 4 9838956529666160483 #[9223372036854775808, 9223373136366403584, 0, 0]
def plain32 : Rp := .heap 2 4 2940401507 #[2147483648, 2148532224, 0, 0]
def dense64 : Rp := .heap 12 1 64 #[9817068105]
def dense32 : Rp := .heap 12 2 32 #[1227133513, 2]

def outsBitmap : List Out :=
  [.bool true, .bool true, .bool true, .bool true, .bool true, .bool false, .bool false, .nat 2]
def outsPlain : List Out := [.bool true, .bool true, .bool true, .bool true, .nat 2]

theorem inline64_run : runOps cfg64 detRng 6 .empty opsInline () = .ok ((inline, List.replicate 3 (.bool true)), ()) := by
  decide +kernel
theorem inline32_run : runOps cfg32 detRng 6 .empty opsInline () = .ok ((inline, List.replicate 3 (.bool true)), ()) := by
  decide +kernel
theorem bitmap64_run : runOps cfg64 detRng 6 .empty opsBitmap () = .ok ((bitmap64, outsBitmap), ()) := by
  decide +kernel
theorem bitmap32_run : runOps cfg32 detRng 6 .empty opsBitmap32 () = .ok ((bitmap32, outsBitmap), ()) := by
  decide +kernel
theorem plain64_run : runOps cfg64 detRng 6 .empty opsPlain64 () = .ok ((plain64, outsPlain), ()) := by
  decide +kernel
theorem plain32_run : runOps cfg32 detRng 6 .empty opsPlain32 () = .ok ((plain32, outsPlain), ()) := by
  decide +kernel
theorem dense64_run : runOps cfg64 detRng 6 .empty opsDense () = .ok ((dense64, List.replicate 12 (.bool true)), ()) := by
  decide +kernel
theorem dense32_run : runOps cfg32 detRng 6 .empty opsDense () = .ok ((dense32, List.replicate 12 (.bool true)), ()) := by
  decide +kernel

/-! ### they are well formed (by `run_refines_empty`) -/

theorem inline64_wf : WF cfg64 inline := (run_refines_empty cfg64_ok detRng 6 opsInline (by decide) inline64_run).1
theorem inline32_wf : WF cfg32 inline := (run_refines_empty cfg32_ok detRng 6 opsInline (by decide) inline32_run).1
theorem bitmap64_wf : WF cfg64 bitmap64 := (run_refines_empty cfg64_ok detRng 6 opsBitmap (by decide) bitmap64_run).1
theorem bitmap32_wf : WF cfg32 bitmap32 := (run_refines_empty cfg32_ok detRng 6 opsBitmap32 (by decide) bitmap32_run).1
theorem plain64_wf : WF cfg64 plain64 := (run_refines_empty cfg64_ok detRng 6 opsPlain64 (by decide) plain64_run).1
theorem plain32_wf : WF cfg32 plain32 := (run_refines_empty cfg32_ok detRng 6 opsPlain32 (by decide) plain32_run).1
theorem dense64_wf : WF cfg64 dense64 := (run_refines_empty cfg64_ok detRng 6 opsDense (by decide) dense64_run).1
theorem dense32_wf : WF cfg32 dense32 := (run_refines_empty cfg32_ok detRng 6 opsDense (by decide) dense32_run).1

/-- the layouts are the ones the names say -/
theorem layouts : isPlain cfg64 23 = false ∧ isDense cfg64 23 = false ∧ isPlain cfg32 11 = false ∧ isDense cfg32 11 = false ∧
    isPlain cfg64 9838956529666160483 = true ∧ isDense cfg64 9838956529666160483 = false ∧
    isPlain cfg32 2940401507 = true ∧ isDense cfg32 2940401507 = false ∧
    isDense cfg64 64 = true ∧ isDense cfg32 32 = true := by decide

/-! ### `collect()` on concrete inputs (unsorted, with duplicates) -/

theorem sortDedup_small : sortDedup [5, 3, 5, 1000] = [3, 5, 1000] :=
  sortDedup_eq (by decide) (fun x => by simp only [List.mem_cons, List.not_mem_nil, or_false]; omega)

theorem sortDedup_big64 : sortDedup [5, 3, 5, 2 ^ 40, 2 ^ 50, 77, 2 ^ 50] = [3, 5, 77, 2 ^ 40, 2 ^ 50] :=
  sortDedup_eq (by decide) (fun x => by simp only [List.mem_cons, List.not_mem_nil, or_false]; omega)

theorem sortDedup_big32 : sortDedup [5, 3, 5, 2 ^ 30, 2 ^ 31, 77, 2 ^ 31] = [3, 5, 77, 2 ^ 30, 2 ^ 31] :=
  sortDedup_eq (by decide) (fun x => by simp only [List.mem_cons, List.not_mem_nil, or_false]; omega)

/-- collected into the inline representation -/
theorem collect_small64 : fromIter cfg64 detRng 6 [5, 3, 5, 1000] () = .ok (inline, ()) := by
  unfold fromIter; rw [sortDedup_small]; decide +kernel
theorem collect_small32 : fromIter cfg32 detRng 6 [5, 3, 5, 1000] () = .ok (inline, ()) := by
  unfold fromIter; rw [sortDedup_small]; decide +kernel

/-- collected into a pre-sized table -/
theorem collect_big64 : fromIter cfg64 detRng 6 [5, 3, 5, 2 ^ 40, 2 ^ 50, 77, 2 ^ 50] () =
    .ok (.heap 5 5 13 #[40, 45056, 709490156681134096, 692861481132040, 0], ()) := by
  unfold fromIter; rw [sortDedup_big64]; decide +kernel
theorem collect_big32 : fromIter cfg32 detRng 6 [5, 3, 5, 2 ^ 30, 2 ^ 31, 77, 2 ^ 31] () =
    .ok (.heap 5 5 1817105647 #[1073741824, 5, 77, 3, 2147483648], ()) := by
  unfold fromIter; rw [sortDedup_big32]; decide +kernel

/-- the insert loop on an unsorted input with a duplicate: leaves the inline representation -/
theorem loop_small64 : extend cfg64 detRng 6 .empty [5, 3, 5, 2 ^ 40] () =
    .ok (.heap 3 3 23 #[40, 401016175510691840, 0], ()) := by decide +kernel
theorem loop_small32 : extend cfg32 detRng 6 .empty [5, 3, 5, 2 ^ 30] () =
    .ok (.heap 3 3 1 #[7, 2147483649, 11], ()) := by decide +kernel

end SC.Demo
