import TinysetModel.Proofs.CapSpec
import TinysetModel.Proofs.CoreInst
/-! C12(b), generic part — a set all of whose members are below `n` owns a block that is small *in `n`*,
whatever the insertion order, the duplicates, and the outcomes of the random draws.

Same architecture as `Proofs/CapSpec.lean` (a bound carried through every branch of `insertStep`, with the
recursive calls abstracted as `RecFit`), with a sharper bound: instead of the member count it uses the number
of *distinct keys* a bitmap table of width `bits` can hold when every member is `< n`, which is at most
`keysMax n bits = (n - 1) / bits + 1`.

`Fit c n B Dn r`: `r` is empty / inline, or dense with `capacity ≤ Dn`, or a bitmap table of width
`B ≤ bits < W` with `capacity ≤ 3 * keysMax n bits + 5`; never the plain layout.
The arithmetic facts about a configuration are bundled in `FitCfg c n B Dn` (instances for `cfg64`, `cfg32`
in `Proofs/AnyOrderU.lean`). -/
namespace SC
namespace AnyOrder
open RH

variable {c : Cfg} {D : Type} {n B Dn : Nat}

/-- most distinct keys `x / bits` of values `x < n` -/
def keysMax (n bits : Nat) : Nat := (n - 1) / bits + 1
/-- the capacity bound of a bitmap table of width `bits` -/
def tblMax (n bits : Nat) : Nat := 3 * keysMax n bits + 5

theorem tblMax_ge (n bits : Nat) : 8 ≤ tblMax n bits := by
  unfold tblMax keysMax
  generalize (n - 1) / bits = q
  omega

/-- every member is below `n` -/
def Below (c : Cfg) (n : Nat) (r : Rp) : Prop := ∀ x ∈ elems c r, x < n

/-- the sharp ghost bound -/
def Fit (c : Cfg) (n B Dn : Nat) : Rp → Prop
  | .heap _ cap bits _ => (bits = c.W ∧ cap ≤ Dn) ∨ (B ≤ bits ∧ bits < c.W ∧ cap ≤ tblMax n bits)
  | _ => True

/-- an `insert` function that keeps `Fit` (on sets with members below `n`, inserting a value below `n`) -/
def RecFit (c : Cfg) (n B Dn : Nat) {D : Type} (rec : Ins D) : Prop :=
  ∀ r e d r' b d', WF c r → e < n → Below c n r → Fit c n B Dn r → rec r e d = .ok ((r', b), d') →
    Fit c n B Dn r'

/-- the arithmetic facts about a configuration, a bound `n` on the members, the least table width `B` and the
    dense capacity bound `Dn` -/
structure FitCfg (c : Cfg) (n B Dn : Nat) : Prop where
  n_le : n ≤ 2 ^ c.W
  B_pos : 0 < B
  /-- every value below `n` gets at least width `B` -/
  cab_ge : ∀ e, e < n → B ≤ c.cab e
  /-- where a table is created from `cab e`, `e` is not tiny, and the width is a proper bitmap width -/
  cab_lt : ∀ e, e < n → 1 ≤ e >>> c.capShift → c.cab e < c.W
  /-- inline → heap -/
  small : c.codec.maxN + 1 ≤ 8
  dense_new : ∀ mx, mx < n → c.denseCap mx ≤ Dn
  dense_grow : ∀ e, e < n → c.denseGrow e ≤ Dn
  /-- dense → sparse is only taken when the set has few members *relative to `e < n`* -/
  sparse : ∀ e sz bits, e < n → sz < e >>> c.capShift → 0 < bits → bits < c.W → c.sparseCap sz ≤ tblMax n bits
  /-- narrowing: `needed - 1` is the number of distinct keys at the new width -/
  narrow : ∀ needed K r, 0 < needed → needed ≤ K + 1 →
    needed + 1 + c.narrowExtra needed + c.narrowMul * (r % needed) ≤ 3 * K + 5
  /-- growth of a bitmap table without room holding at most `K` keys -/
  grow : ∀ cap K r, 0 < cap → cap ≤ K + slack c cap → cap + 1 + c.growExtra cap + r % cap ≤ 3 * K + 5
  /-- bitmap table without room → dense -/
  bitmap_dense : ∀ cap bits mx, B ≤ bits → cap > mx >>> 6 → cap ≤ keysMax n bits + slack c cap → c.denseCap mx ≤ Dn

theorem below_ins {r r' : Rp} {e : Nat} {b : Bool} (s : InsOK c r e r' b) (hb : Below c n r) (he : e < n) :
    Below c n r' := by
  intro x hx
  rcases (s.mem x).1 hx with h | h
  · exact hb x h
  · rw [h]; exact he

theorem below_of_empty {r : Rp} (h : elems c r = []) : Below c n r := by
  intro x hx; rw [h] at hx; cases hx

/-! ### `insertAll` and `rebuild` -/

theorem insertAll_fit (fc : FitCfg c n B Dn) {rec : Ins D} (hrec : RecOK c rec) (hfit : RecFit c n B Dn rec) :
    ∀ (xs : List Nat) (r : Rp) (d : D) (r' : Rp) (d' : D),
    WF c r → (∀ x ∈ xs, x < n) → Below c n r → Fit c n B Dn r → insertAll rec r xs d = .ok (r', d') →
    Fit c n B Dn r' ∧ WF c r' ∧ Below c n r' := by
  intro xs
  induction xs with
  | nil =>
    intro r d r' d' wf _ hb hc h
    simp only [insertAll, List.foldlM_nil, pure, StateT.pure, Except.pure] at h
    cases h
    exact ⟨hc, wf, hb⟩
  | cons x xs ih =>
    intro r d r' d' wf hx hb hc h
    simp only [insertAll, List.foldlM_cons] at h
    obtain ⟨r1, d1, h1, h2⟩ := bind_ok h
    obtain ⟨p, d2, h3, h4⟩ := bind_ok h1
    simp only [pure, StateT.pure, Except.pure] at h4
    cases h4
    have hx1 := hx x List.mem_cons_self
    have hxs : ∀ y ∈ xs, y < n := fun y hy => hx y (List.mem_cons_of_mem _ hy)
    have s1 := hrec r x d p.1 p.2 _ wf (Nat.lt_of_lt_of_le hx1 fc.n_le) (by rw [h3])
    have c1 := hfit r x d p.1 p.2 _ wf hx1 hb hc (by rw [h3])
    exact ih p.1 _ r' d' s1.wf hxs (below_ins s1 hb hx1) c1 h2

/-- `rebuild new old e`: `Fit` of the (empty) `new` carries over to the result -/
theorem rebuild_fit (fc : FitCfg c n B Dn) {rec : Ins D} (hrec : RecOK c rec) (hfit : RecFit c n B Dn rec)
    {new old : Rp} {e : Nat} {d d' : D} {r' : Rp} {b : Bool}
    (hnew : WF c new) (hempty : elems c new = []) (hold : ∀ x ∈ elems c old, x < n) (he : e < n)
    (hc : Fit c n B Dn new) (h : rebuild c rec new old e d = .ok ((r', b), d')) : Fit c n B Dn r' := by
  unfold rebuild at h
  obtain ⟨r1, d1, h1, h2⟩ := bind_ok h
  obtain ⟨p, d2, h3, h4⟩ := bind_ok h2
  simp only [pure, StateT.pure, Except.pure] at h4
  cases h4
  obtain ⟨c1, w1, b1⟩ := insertAll_fit fc hrec hfit _ _ _ _ _ hnew hold (below_of_empty hempty) hc h1
  exact hfit r1 e d1 p.1 p.2 _ w1 he b1 c1 (by rw [h3])

/-! ### the constructors -/

theorem withCapBits_fit (ok : CfgOK c) (fc : FitCfg c n B Dn) (g : Rng D) {cap bits : Nat}
    (hB : B ≤ bits) (hW : bits < c.W) (hcap : cap ≤ tblMax n bits) {d d' : D} {r : Rp}
    (h : withCapBits c g cap bits d = .ok (r, d')) : WF c r ∧ elems c r = [] ∧ Fit c n B Dn r := by
  have hlt : bits < 2 ^ c.W := Nat.lt_trans hW Nat.lt_two_pow_self
  obtain ⟨w1, w2⟩ := withCapBits_ok ok g cap bits hlt d d' r h
  refine ⟨w1, w2, ?_⟩
  rcases withCapBits_shape g cap bits d d' r h with ⟨_, rfl⟩ | ⟨_, bits', rfl, hb, _⟩
  · exact trivial
  · have : bits' = bits := hb (by have := fc.B_pos; omega)
    subst this
    exact Or.inr ⟨hB, hW, hcap⟩

theorem denseWithMax_fit (hd : c.denseCap mx ≤ Dn) : Fit c n B Dn (denseWithMax c mx) :=
  Or.inl ⟨rfl, hd⟩

theorem withCapMax_fit (ok : CfgOK c) (fc : FitCfg c n B Dn) (g : Rng D) {cap mx : Nat}
    (hpos : 1 ≤ cap) (hcap : cap ≤ 8) (hmx : mx < n) {d d' : D} {r : Rp}
    (h : withCapMax c g cap mx d = .ok (r, d')) : WF c r ∧ elems c r = [] ∧ Fit c n B Dn r := by
  obtain ⟨w1, w2⟩ := withCapMax_ok ok g cap mx d d' r h
  unfold withCapMax at h
  split at h
  · rw [pure_run] at h
    cases h
    exact ⟨w1, w2, denseWithMax_fit (fc.dense_new mx hmx)⟩
  · rename_i hgt
    exact withCapBits_fit ok fc g (fc.cab_ge mx hmx) (fc.cab_lt mx hmx (by omega))
      (Nat.le_trans hcap (tblMax_ge _ _)) h

/-! ### counting keys -/

theorem nodup_bounded_length {l : List Nat} {m : Nat} (nd : l.Nodup) (h : ∀ x ∈ l, x < m) : l.length ≤ m := by
  have := nd.length_le_of_subset (l₂ := List.range m) (fun x hx => List.mem_range.2 (h x hx))
  rwa [List.length_range] at this

theorem div_lt_keysMax {x bits : Nat} (hx : x < n) : x / bits < keysMax n bits := by
  unfold keysMax
  have : x / bits ≤ (n - 1) / bits := Nat.div_le_div_right (by omega)
  omega

/-- a bitmap table whose members are all below `n` has at most `keysMax n bits` occupied buckets -/
theorem nz_le_keys {sz cap bits : Nat} {a : Tbl} (hb : isDense c bits = false) (hp : isPlain c bits = false)
    (wf : BitmapWF c sz cap bits a) (hbel : Below c n (.heap sz cap bits a)) :
    (nz a).length ≤ keysMax n bits := by
  have nd := inv_nodup wf.inv
  have key : ∀ k ∈ (nz a).map (· >>> bits), k < keysMax n bits := by
    intro k hk
    obtain ⟨w, hw, rfl⟩ := List.mem_map.1 hk
    obtain ⟨h0, i, hi, hg⟩ := mem_nz.1 hw
    obtain ⟨b, hb1, hb2⟩ := exists_bit_of_mod_ne_zero (wf.bucket i hi (by rw [hg]; exact h0)).1
    rw [hg] at hb2
    have hx : (w >>> bits) * bits + b ∈ bk bits w := by
      unfold bk
      exact List.mem_map.2 ⟨b, mem_bitsOf.2 ⟨hb1, hb2⟩, rfl⟩
    have hmem : (w >>> bits) * bits + b ∈ elems c (.heap sz cap bits a) := by
      rw [elems_bitmap_eq hb hp, List.mem_flatMap]
      exact ⟨w, hw, hx⟩
    have hk := ((mem_bk wf.bits_pos).1 hx).1
    show w >>> bits < keysMax n bits
    rw [hk]
    exact div_lt_keysMax (hbel _ hmem)
  have := nodup_bounded_length nd key
  rwa [List.length_map] at this

/-- the distinct keys of values below `n` at a new width -/
theorem narrow_keys {l : List Nat} (hl : ∀ x ∈ l, x < n) {nb : Nat} (hnb : 0 < nb) :
    (sortDedup (l.map (· / (Max.max nb 1)))).length ≤ keysMax n nb := by
  obtain ⟨s1, s2⟩ := sortDedup_spec (l.map (· / (Max.max nb 1)))
  apply nodup_bounded_length (pairwise_lt_nodup s1)
  intro k hk
  obtain ⟨x, hx, rfl⟩ := List.mem_map.1 ((s2 k).1 hk)
  have : Max.max nb 1 = nb := Nat.max_eq_left hnb
  show x / (Max.max nb 1) < keysMax n nb
  rw [this]
  exact div_lt_keysMax (hl x hx)

/-! ### `insertStep`, case by case -/

theorem insert_empty_fit (ok : CfgOK c) (fc : FitCfg c n B Dn) (g : Rng D) {rec : Ins D} (hfit : RecFit c n B Dn rec)
    (e : Nat) (he : e < n) {d d' : D} {r' : Rp} {b : Bool}
    (h : insertStep c g rec .empty e d = .ok ((r', b), d')) : Fit c n B Dn r' := by
  rw [insertStep] at h
  cases hnew : TinyC.newSortedDeduped c.codec [e] with
  | some t =>
    rw [hnew] at h
    simp only [pure_run] at h
    cases h
    exact trivial
  | none =>
    rw [hnew] at h
    simp only at h
    obtain ⟨new, d1, h1, h2⟩ := bind_ok h
    obtain ⟨w1, w2, w3⟩ := withCapMax_fit ok fc g (Nat.le_refl 1) (by omega) he h1
    exact hfit new e d1 r' b d' w1 he (below_of_empty w2) w3 h2

theorem insert_stack_fit (ok : CfgOK c) (fc : FitCfg c n B Dn) (g : Rng D)
    {rec : Ins D} (hrec : RecOK c rec) (hfit : RecFit c n B Dn rec) {t : TinyC.T} (wf : StackWF c t)
    (hbel : Below c n (.stack t)) (e : Nat) (he : e < n) {d d' : D} {r' : Rp} {b : Bool}
    (h : insertStep c g rec (.stack t) e d = .ok ((r', b), d')) : Fit c n B Dn r' := by
  rw [insertStep] at h
  cases hins : TinyC.insert c.codec t e with
  | some t' =>
    rw [hins] at h
    simp only [pure_run] at h
    cases h
    exact trivial
  | none =>
    rw [hins] at h
    simp only at h
    obtain ⟨new, d1, h1, h2⟩ := bind_ok h
    have hmx0 : (t.members c.codec).getLast?.getD 0 < n := by
      cases hl : (t.members c.codec).getLast? with
      | none => exact Nat.lt_of_le_of_lt (Nat.zero_le _) he
      | some x => exact hbel x (List.mem_of_getLast? hl)
    have hmx : (if e > (t.members c.codec).getLast?.getD 0 then e else (t.members c.codec).getLast?.getD 0) < n := by
      split
      · exact he
      · exact hmx0
    have hsz : t.sz + 1 ≤ 8 := by have := wf.sz_le; have := fc.small; omega
    obtain ⟨w1, w2, w3⟩ := withCapMax_fit ok fc g (Nat.le_add_left 1 _) hsz hmx h1
    exact rebuild_fit fc hrec hfit (old := .stack t) w1 w2 hbel he w3 h2

theorem insertDense_fit (ok : CfgOK c) (fc : FitCfg c n B Dn) (g : Rng D)
    {rec : Ins D} (hrec : RecOK c rec) (hfit : RecFit c n B Dn rec) {sz cap : Nat} {a : Tbl}
    (hbel : Below c n (.heap sz cap c.W a)) (e : Nat) (he : e < n) {d d' : D} {r' : Rp} {b : Bool}
    (hc : cap ≤ Dn) (h : insertDense c g rec sz cap a e d = .ok ((r', b), d')) : Fit c n B Dn r' := by
  unfold insertDense at h
  dsimp only at h
  by_cases hk : e >>> c.dShift < cap
  · rw [if_pos hk, pure_run] at h
    cases h
    exact Or.inl ⟨rfl, hc⟩
  · rw [if_neg hk] at h
    by_cases hsp : e >>> c.capShift > sz
    · rw [if_pos hsp] at h
      obtain ⟨new, d1, h1, h2⟩ := bind_ok h
      have hW := fc.cab_lt e he (by omega)
      have hB := fc.cab_ge e he
      obtain ⟨w1, w2, w3⟩ := withCapBits_fit ok fc g hB hW
        (fc.sparse e sz _ he hsp (by have := fc.B_pos; omega) hW) h1
      exact rebuild_fit fc hrec hfit w1 w2 hbel he w3 h2
    · rw [if_neg hsp, pure_run] at h
      cases h
      exact Or.inl ⟨rfl, fc.dense_grow e he⟩

theorem insertBitmap_fit (ok : CfgOK c) (fc : FitCfg c n B Dn) (g : Rng D)
    {rec : Ins D} (hrec : RecOK c rec) (hfit : RecFit c n B Dn rec) {sz cap bits : Nat} {a : Tbl}
    (hb : isDense c bits = false) (hp : isPlain c bits = false) (wf : BitmapWF c sz cap bits a)
    (hbel : Below c n (.heap sz cap bits a)) (e : Nat) (he : e < n) {d d' : D} {r' : Rp} {b : Bool}
    (hB : B ≤ bits) (hc : cap ≤ tblMax n bits)
    (h : insertBitmap c g rec sz cap bits a e d = .ok ((r', b), d')) : Fit c n B Dn r' := by
  have heW : e < 2 ^ c.W := Nat.lt_of_lt_of_le he fc.n_le
  have same : ∀ sz' a', Fit c n B Dn (.heap sz' cap bits a') := fun _ _ => Or.inr ⟨hB, wf.bits_lt, hc⟩
  by_cases hcab : c.cab e < bits
  · -- narrowing
    unfold insertBitmap at h
    rw [if_pos hcab] at h
    dsimp only at h
    obtain ⟨r, d1, _, h2⟩ := bind_ok h
    obtain ⟨new, d2, h3, h4⟩ := bind_ok h2
    have hB' := fc.cab_ge e he
    have hW' : c.cab e < c.W := Nat.lt_trans hcab wf.bits_lt
    have hkeys := narrow_keys (n := n) hbel (nb := c.cab e) (by have := fc.B_pos; omega)
    obtain ⟨w1, w2, w3⟩ := withCapBits_fit ok fc g hB' hW'
      (fc.narrow _ (keysMax n (c.cab e)) _ (Nat.succ_pos _) (Nat.succ_le_succ hkeys)) h3
    exact rebuild_fit fc hrec hfit w1 w2 hbel he w3 h4
  · by_cases hf : ∃ idx, lookfor (e / bits) a bits = .found idx
    · obtain ⟨idx, hl⟩ := hf
      by_cases hbit : (get a idx).testBit (e % bits) = true
      · obtain ⟨heq, _⟩ := insertBitmap_found_set g rec hb hp wf e hcab hl hbit d
        rw [heq] at h; cases h
        exact same _ _
      · obtain ⟨heq, _⟩ := insertBitmap_found_clear g rec hb hp wf e heW hcab hl hbit d
        rw [heq] at h; cases h
        exact same _ _
    · have hnf : ∀ i, lookfor (e / bits) a bits ≠ .found i := fun i hl => hf ⟨i, hl⟩
      cases hpl : tablePlace c (e / bits) (modW c ((e / bits) <<< bits) ||| (1 <<< (e % bits))) bits a with
      | some a' =>
        obtain ⟨heq, _⟩ := insertBitmap_place g rec hb hp ok wf e heW hcab hnf hpl d
        rw [heq] at h; cases h
        exact same _ _
      | none =>
        have hfresh : ∀ i, i < a.size → get a i ≠ 0 → K a bits i ≠ e / bits := by
          intro i hi h0 hk
          exact hnf i (lookfor_complete wf.inv hi h0 hk)
        -- the table has no room, so it is (almost) full of distinct keys
        have hfull : cap ≤ keysMax n bits + slack c cap := by
          have hpos := wf.bits_pos
          have hoff : e % bits < bits := Nat.mod_lt _ hpos
          obtain ⟨hm, _⟩ := newword_facts ok hpos wf.bits_lt e heW hcab
          have hpl' := hpl
          rw [hm] at hpl'
          have hbitlt : 1 <<< (e % bits) < 2 ^ bits := by
            rw [Nat.shiftLeft_eq, Nat.one_mul]; exact Nat.pow_lt_pow_right (by omega) hoff
          have hvk : ((e / bits) <<< bits ||| (1 <<< (e % bits))) >>> bits = e / bits := key_of_word hbitlt
          have hvb : ((e / bits) <<< bits ||| (1 <<< (e % bits))).testBit (e % bits) = true := by
            rw [testBit_or_bit]; simp
          have hspec := tablePlace_spec c (k := e / bits) wf.npos wf.inv (ne_zero_of_testBit hvb) hvk hfresh
          rw [hpl'] at hspec
          have h1 := size_le_of_noRoom hspec
          have h2 := nz_le_keys hb hp wf hbel
          rw [← wf.cap_eq] at h1
          omega
        have hgrow : ∃ mx, (if cap > mx >>> 6 then
              rebuild c rec (denseWithMax c mx) (.heap sz cap bits a) e
            else do
              let r ← drawM c g cap bits
              let new ← withCapBits c g (cap + 1 + c.growExtra cap + (r % cap)) bits
              rebuild c rec new (.heap sz cap bits a) e) d = .ok ((r', b), d') := by
          unfold insertBitmap at h
          rw [if_neg hcab] at h
          dsimp only at h
          cases hl : lookfor (e / bits) a bits with
          | found i => exact absurd hl (hnf i)
          | empty ii => rw [hl] at h; dsimp only at h; rw [hpl] at h; exact ⟨_, h⟩
          | needInsert => rw [hl] at h; dsimp only at h; rw [hpl] at h; exact ⟨_, h⟩
        obtain ⟨mx, hg⟩ := hgrow
        split at hg
        · rename_i hgt
          obtain ⟨w1, w2⟩ := denseWithMax_ok ok mx
          exact rebuild_fit fc hrec hfit w1 w2 hbel he
            (denseWithMax_fit (fc.bitmap_dense cap bits mx hB hgt hfull)) hg
        · obtain ⟨r, d1, _, h2⟩ := bind_ok hg
          obtain ⟨new, d2, h3, h4⟩ := bind_ok h2
          obtain ⟨w1, w2, w3⟩ := withCapBits_fit ok fc g hB wf.bits_lt
            (fc.grow cap (keysMax n bits) r wf.cap_pos hfull) h3
          exact rebuild_fit fc hrec hfit w1 w2 hbel he w3 h4

/-! ### `insertStep`, `insert`, `insertAll` -/

theorem insertStep_fit (ok : CfgOK c) (fc : FitCfg c n B Dn) (g : Rng D)
    {rec : Ins D} (hrec : RecOK c rec) (hfit : RecFit c n B Dn rec) : RecFit c n B Dn (insertStep c g rec) := by
  intro r e d r' b d' wf he hbel hc h
  match r, wf, hbel, hc with
  | .empty, _, _, _ => exact insert_empty_fit ok fc g hfit e he h
  | .stack t, wf, hbel, _ => exact insert_stack_fit ok fc g hrec hfit wf hbel e he h
  | .heap sz cap bits a, wf, hbel, hc =>
    rcases Cap.heap_cases wf with ⟨hbits, dw⟩ | ⟨hnd, hpl, pw, hcap', hWb, _, _⟩ | ⟨hnd, hpl, bw⟩
    · subst hbits
      rw [insertStep, if_pos (isDense_W c)] at h
      rcases hc with ⟨_, hc⟩ | ⟨_, hlt, _⟩
      · exact insertDense_fit ok fc g hrec hfit hbel e he hc h
      · omega
    · -- the plain layout is excluded by `Fit`
      rcases hc with ⟨hc, _⟩ | ⟨_, hlt, _⟩ <;> omega
    · rw [insertStep, if_neg (by rw [hnd]; simp), if_neg (by rw [hpl]; simp)] at h
      rcases hc with ⟨hc, _⟩ | ⟨hB, _, hc⟩
      · rw [hc, isDense_W] at hnd; cases hnd
      · exact insertBitmap_fit ok fc g hrec hfit hnd hpl bw hbel e he hB hc h

/-- every `insert` keeps `Fit`, for every fuel and every random generator -/
theorem insert_fit (ok : CfgOK c) (fc : FitCfg c n B Dn) (g : Rng D) : ∀ fuel, RecFit c n B Dn (insert c g fuel)
  | 0 => by
    intro r e d r' b d' _ _ _ _ h
    cases h
  | fuel + 1 => insertStep_fit ok fc g (insert_refines ok g fuel) (insert_fit ok fc g fuel)

/-- inserting any list of values below `n` (any order, duplicates allowed) into the empty set, with any
    generator: the result satisfies `Fit`, is well formed, and holds exactly the listed values -/
theorem insertAll_empty_fit (ok : CfgOK c) (fc : FitCfg c n B Dn) (g : Rng D) (fuel : Nat)
    (xs : List Nat) (hx : ∀ x ∈ xs, x < n) {d d' : D} {r : Rp}
    (h : insertAll (insert c g fuel) .empty xs d = .ok (r, d')) :
    Fit c n B Dn r ∧ WF c r ∧ ∀ x, x ∈ elems c r ↔ x ∈ xs := by
  obtain ⟨f1, f2, _⟩ := insertAll_fit fc (insert_refines ok g fuel) (insert_fit ok fc g fuel) xs .empty d r d'
    trivial hx (below_of_empty rfl) trivial h
  have s := insertAll_ok (insert_refines ok g fuel) xs .empty d r d' trivial
    (fun x hx' => Nat.lt_of_lt_of_le (hx x hx') fc.n_le) h
  refine ⟨f1, f2, fun x => ?_⟩
  rw [s.2 x]
  constructor
  · rintro (h | h)
    · cases h
    · exact h
  · exact Or.inr

#print axioms insert_fit
#print axioms insertAll_empty_fit

end AnyOrder
end SC
