import TinysetModel.Proofs.Total32Sites
/-! Totality of `insert` for any room rule, part 5: the bitmap rebuild sites (narrowing, bitmap → dense, regrow
with the same width) and the theorem: `insert` returns normally with recursion depth 2 for every configuration
with the properties `LikeS` — `SetU64` and (with the repaired growth `cap + 1 + cap / 8 + r % cap`) `SetU32`. -/
namespace SC
open RH Plain2

variable {c : Cfg} {D : Type}

/-- the two growing branches of `insertBitmap` (bitmap → dense, regrow with the same width) -/
theorem bitmapGrow_totalS (ok : CfgOK c) (lk : LikeS c) (g : Rng D) (rec0 : Ins D) (hrec0 : RecOK c rec0)
    {sz cap bits : Nat} {a : Tbl} (hb : isDense c bits = false) (hp : isPlain c bits = false)
    (wf : BitmapWF c sz cap bits a) (e : Nat) (he : e < 2 ^ c.W) (hfit : ¬ c.cab e < bits)
    (hfresh : ∀ i, i < a.size → get a i ≠ 0 → K a bits i ≠ e / bits)
    (mx : Nat) (hmx : ∀ y ∈ elems c (.heap sz cap bits a) ++ [e], y ≤ mx) (d : D) :
    ∃ r' b d', (if cap > mx >>> 6 then
        rebuild c (insertStep c g rec0) (denseWithMax c mx) (.heap sz cap bits a) e
      else do
        let r ← drawM c g cap bits
        let new ← withCapBits c g (cap + 1 + c.growExtra cap + (r % cap)) bits
        rebuild c (insertStep c g rec0) new (.heap sz cap bits a) e) d = .ok ((r', b), d') := by
  have hold : ∀ x ∈ elems c (.heap sz cap bits a),
      x ∈ elems c (.heap sz cap bits a) ++ [e] ∧ x < 2 ^ c.W :=
    fun x hx => ⟨List.mem_append_left _ hx, wf.range x hx⟩
  have heV : e ∈ elems c (.heap sz cap bits a) ++ [e] := List.mem_append_right _ List.mem_cons_self
  by_cases hc : cap > mx >>> 6
  · rw [if_pos hc]
    exact rebuild_totalS ok g rec0 hrec0 (denseWithMax_goodS ok lk hmx) hold heV he d
  · rw [if_neg hc, bind_run (drawM_run g cap bits d)]
    have hnd : ((e / bits) :: (nz a).map (· >>> bits)).Nodup := by
      refine List.nodup_cons.2 ⟨?_, inv_nodup wf.inv⟩
      intro hm
      obtain ⟨w, hw, hwk⟩ := List.mem_map.1 hm
      obtain ⟨h0, i, hi, hg⟩ := mem_nz.1 hw
      apply hfresh i hi (by rw [hg]; exact h0)
      unfold K
      rw [hg]; exact hwk
    have hlen : (nz a).length ≤ a.size := by
      have := List.length_filter_le (fun x => decide (x ≠ 0)) a.toList
      simpa [nz] using this
    have hcapeq := wf.cap_eq
    have hgf := lk.grow_fit cap (modW c (g.draw d cap bits).1) wf.cap_pos
    obtain ⟨r, d1, h1, gd⟩ := withCapBits_goodS ok g (V := elems c (.heap sz cap bits a) ++ [e])
      (cap := cap + 1 + c.growExtra cap + modW c (g.draw d cap bits).1 % cap) (bits := bits) (by omega)
      (Or.inr ⟨wf.bits_pos, wf.bits_lt⟩)
      (by
        intro y hy
        rcases List.mem_append.1 hy with h | h
        · exact wf.fits y h
        · rw [List.mem_singleton.1 h]; omega)
      (fun h0 => by have := wf.bits_pos; omega)
      ⟨_, hnd, by rw [List.length_cons, List.length_map]; omega, by
        intro y hy
        rw [Nat.max_eq_left wf.bits_pos]
        rcases List.mem_append.1 hy with h | h
        · obtain ⟨w, hw, hk, _⟩ := (mem_elems_nz hb hp wf.bits_pos y).1 h
          exact List.mem_cons_of_mem _ (List.mem_map.2 ⟨w, hw, hk⟩)
        · rw [List.mem_singleton.1 h]; exact List.mem_cons_self⟩
      (g.draw d cap bits).2
    obtain ⟨r2, b, d2, h2⟩ := rebuild_totalS ok g rec0 hrec0 (old := .heap sz cap bits a) (e := e) gd
      hold heV he d1
    exact ⟨r2, b, d2, by rw [bind_run h1]; exact h2⟩

/-- the branches of `insertBitmap` when the value fits the width -/
theorem insertBitmap_total_tail (ok : CfgOK c) (lk : LikeS c) (g : Rng D) (rec0 : Ins D) (hrec0 : RecOK c rec0)
    {sz cap bits : Nat} {a : Tbl} (hb : isDense c bits = false) (hp : isPlain c bits = false)
    (wf : BitmapWF c sz cap bits a) (e : Nat) (he : e < 2 ^ c.W) (hc : ¬ c.cab e < bits) (d : D) :
    ∃ r' b d', insertBitmap c g (insertStep c g rec0) sz cap bits a e d = .ok ((r', b), d') := by
  rcases lookfor_cases wf.inv wf.npos (e / bits) with ⟨idx, hl, _, _, _⟩ | ⟨hnf, hfresh⟩
  · by_cases hbit : (get a idx).testBit (e % bits) = true
    · exact ⟨_, _, _, (insertBitmap_found_set g _ hb hp wf e hc hl hbit d).1⟩
    · exact ⟨_, _, _, (insertBitmap_found_clear g _ hb hp wf e he hc hl hbit d).1⟩
  · cases hpl : tablePlace c (e / bits) (modW c ((e / bits) <<< bits) ||| (1 <<< (e % bits))) bits a with
    | some a' => exact ⟨_, _, _, (insertBitmap_place g _ hb hp ok wf e he hc hnf hpl d).1⟩
    | none =>
      have hmx : ∀ y ∈ elems c (.heap sz cap bits a) ++ [e],
          y ≤ (if e > (a.toList.map (fun x => (x >>> bits) * bits + bits)).foldl Max.max 0 then e
            else (a.toList.map (fun x => (x >>> bits) * bits + bits)).foldl Max.max 0) := by
        intro y hy
        rcases List.mem_append.1 hy with h | h
        · have := bitmap_mem_le_top hb hp wf.bits_pos h
          split <;> omega
        · rw [List.mem_singleton.1 h]
          split <;> omega
      have hg := bitmapGrow_totalS ok lk g rec0 hrec0 hb hp wf e he hc hfresh _ hmx d
      unfold insertBitmap
      rw [if_neg hc]
      dsimp only
      cases hl : lookfor (e / bits) a bits with
      | found i => exact absurd hl (hnf i)
      | empty ii => dsimp only; rw [hpl]; exact hg
      | needInsert => dsimp only; rw [hpl]; exact hg

theorem insertBitmap_totalS (ok : CfgOK c) (lk : LikeS c) (g : Rng D) (rec0 : Ins D) (hrec0 : RecOK c rec0)
    {sz cap bits : Nat} {a : Tbl} (hb : isDense c bits = false) (hp : isPlain c bits = false)
    (wf : BitmapWF c sz cap bits a) (e : Nat) (he : e < 2 ^ c.W)
    (hsz : 3 * sz + 4 + c.W + 3 ≤ 2 ^ c.W) (d : D) :
    ∃ r' b d', insertBitmap c g (insertStep c g rec0) sz cap bits a e d = .ok ((r', b), d') := by
  have hold : ∀ x ∈ elems c (.heap sz cap bits a),
      x ∈ elems c (.heap sz cap bits a) ++ [e] ∧ x < 2 ^ c.W :=
    fun x hx => ⟨List.mem_append_left _ hx, wf.range x hx⟩
  have heV : e ∈ elems c (.heap sz cap bits a) ++ [e] := List.mem_append_right _ List.mem_cons_self
  by_cases hc : c.cab e < bits
  · -- narrowing
    unfold insertBitmap
    rw [if_pos hc]
    dsimp only
    rw [bind_run (drawM_run g cap bits d)]
    generalize hkeys : sortDedup ((elems c (.heap sz cap bits a)).map (· / (Max.max (c.cab e) 1))) = keys
    obtain ⟨ks1, ks2⟩ := sortDedup_spec ((elems c (.heap sz cap bits a)).map (· / (Max.max (c.cab e) 1)))
    rw [hkeys] at ks1 ks2
    have knd : keys.Nodup := pairwise_lt_nodup ks1
    have klen : keys.length ≤ sz := by
      have h1 := knd.length_le_of_subset (fun x hx => (ks2 x).1 hx)
      rw [List.length_map, ← wf.szc] at h1
      exact h1
    have hnar := lk.narrow_le (keys.length + 1) (modW c (g.draw d cap bits).1) (by omega)
    have hnf := lk.narrow_fit (keys.length + 1) (modW c (g.draw d cap bits).1) (by omega)
    have hbl := wf.bits_lt
    obtain ⟨r, d1, h1, gd⟩ := withCapBits_goodS ok g (V := elems c (.heap sz cap bits a) ++ [e])
      (cap := keys.length + 1 + 1 + c.narrowExtra (keys.length + 1) +
        c.narrowMul * (modW c (g.draw d cap bits).1 % (keys.length + 1))) (bits := c.cab e) (by omega)
      (by omega)
      (by
        intro y hy
        rcases List.mem_append.1 hy with h | h
        · have := wf.fits y h; omega
        · rw [List.mem_singleton.1 h]; exact Nat.le_refl _)
      (fun _ => by omega)
      (by
        by_cases hke : e / Max.max (c.cab e) 1 ∈ keys
        · refine ⟨keys, knd, by omega, fun y hy => ?_⟩
          rcases List.mem_append.1 hy with h | h
          · exact (ks2 _).2 (List.mem_map.2 ⟨y, h, rfl⟩)
          · rw [List.mem_singleton.1 h]; exact hke
        · refine ⟨e / Max.max (c.cab e) 1 :: keys, List.nodup_cons.2 ⟨hke, knd⟩,
            by rw [List.length_cons]; omega, fun y hy => ?_⟩
          rcases List.mem_append.1 hy with h | h
          · exact List.mem_cons_of_mem _ ((ks2 _).2 (List.mem_map.2 ⟨y, h, rfl⟩))
          · rw [List.mem_singleton.1 h]; exact List.mem_cons_self)
      (g.draw d cap bits).2
    obtain ⟨r2, b, d2, h2⟩ := rebuild_totalS ok g rec0 hrec0 (old := .heap sz cap bits a) (e := e) gd
      hold heV he d1
    exact ⟨r2, b, d2, by rw [bind_run h1]; exact h2⟩
  · exact insertBitmap_total_tail ok lk g rec0 hrec0 hb hp wf e he hc d

/-! ### the theorem -/

/-- one `insertStep` whose recursive `insert` is itself one `insertStep` (over anything correct) returns -/
theorem insertStep_totalS (ok : CfgOK c) (lk : LikeS c) (g : Rng D) (rec0 : Ins D) (hrec0 : RecOK c rec0)
    {r : Rp} (wf : WF c r) (e : Nat) (he : e < 2 ^ c.W)
    (hcap : capacity r + c.W + 3 ≤ 2 ^ c.W) (hlen : 3 * len r + 4 + c.W + 3 ≤ 2 ^ c.W) (d : D) :
    ∃ r' b d', insertStep c g (insertStep c g rec0) r e d = .ok ((r', b), d') := by
  match r, wf with
  | .empty, _ => exact insertEmpty_totalS ok lk g rec0 hrec0 e he d
  | .stack t, wf => exact insertStack_totalS ok lk g rec0 hrec0 wf e he d
  | .heap sz cap bits a, wf =>
    rw [insertStep]
    rcases WF_heap_cases wf with ⟨hW, dw⟩ | ⟨hd, hp⟩ | ⟨hd, hp, bw⟩
    · subst hW
      rw [if_pos (isDense_W c)]
      exact insertDense_totalS ok lk g rec0 hrec0 dw e he d
    · rw [if_neg (by rw [hd]; exact Bool.false_ne_true), if_pos hp]
      have hcapeq := (plain_unfold wf hp hd).2.1
      exact insertPlain_total ok g wf hp hd e he d (by rw [← hcapeq]; exact hcap)
    · rw [if_neg (by rw [hd]; exact Bool.false_ne_true), if_neg (by rw [hp]; exact Bool.false_ne_true)]
      exact insertBitmap_totalS ok lk g rec0 hrec0 hd hp bw e he hlen d

/-- **`insert` returns normally** (generic form, any room rule): every fuel `≥ 2` suffices — the top call may
rebuild, the refill calls take only non-growing branches. -/
theorem insert_totalS (ok : CfgOK c) (lk : LikeS c) (g : Rng D) (fuel : Nat) {r : Rp} (wf : WF c r) (e : Nat)
    (he : e < 2 ^ c.W) (hcap : capacity r + c.W + 3 ≤ 2 ^ c.W) (hlen : 3 * len r + 4 + c.W + 3 ≤ 2 ^ c.W) (d : D) :
    ∃ r' b d', insert c g (fuel + 2) r e d = .ok ((r', b), d') :=
  insertStep_totalS ok lk g (insert c g fuel) (insert_refines ok g fuel) wf e he hcap hlen d

/-- **`SetU32::insert` returns normally with recursion depth 2 (fuel 3).** -/
theorem insert_total_u32 (g : Rng D) {r : Rp} (wf : WF cfg32 r) (e : Nat) (he : e < 2 ^ 32)
    (hsize : capacity r + 32 + 3 ≤ 2 ^ 32 ∧ 3 * len r + 4 + 32 + 3 ≤ 2 ^ 32) (d : D) :
    ∃ r' b d', insert cfg32 g 3 r e d = .ok ((r', b), d') :=
  insert_totalS cfg32_ok cfg32_likeS g 1 wf e he hsize.1 hsize.2 d

/-- fuel 2 is already enough -/
theorem insert_total_u32_fuel2 (g : Rng D) {r : Rp} (wf : WF cfg32 r) (e : Nat) (he : e < 2 ^ 32)
    (hsize : capacity r + 32 + 3 ≤ 2 ^ 32 ∧ 3 * len r + 4 + 32 + 3 ≤ 2 ^ 32) (d : D) :
    ∃ r' b d', insert cfg32 g 2 r e d = .ok ((r', b), d') :=
  insert_totalS cfg32_ok cfg32_likeS g 0 wf e he hsize.1 hsize.2 d

/-- total correctness: `insert` returns, and what it returns is right (`insert_refines`) -/
theorem insert_total_correct_u32 (g : Rng D) {r : Rp} (wf : WF cfg32 r) (e : Nat) (he : e < 2 ^ 32)
    (hsize : capacity r + 32 + 3 ≤ 2 ^ 32 ∧ 3 * len r + 4 + 32 + 3 ≤ 2 ^ 32) (d : D) :
    ∃ r' b d', insert cfg32 g 3 r e d = .ok ((r', b), d') ∧ InsOK cfg32 r e r' b := by
  obtain ⟨r', b, d', h⟩ := insert_total_u32 g wf e he hsize d
  exact ⟨r', b, d', h, insert_refines cfg32_ok g 3 r e d r' b d' wf he h⟩

#print axioms bitmapGrow_totalS
#print axioms insertBitmap_totalS
#print axioms insertStep_totalS
#print axioms insert_totalS
#print axioms insert_total_u32
#print axioms insert_total_u32_fuel2
#print axioms insert_total_correct_u32
end SC
