import TinysetModel.Proofs.IterInv
/-! List/bit facts used by the iterator shortcuts (`last`, `min`, `max`). -/
namespace SC
open RH

/-! ### `listMin`/`listMax` are `List.min?`/`List.max?` -/

theorem listMin_eq (l : List Nat) : listMin l = l.min? := by cases l <;> rfl
theorem listMax_eq (l : List Nat) : listMax l = l.max? := by cases l <;> rfl

/-! ### strictly increasing lists -/

theorem sorted_min {l : List Nat} (h : l.Pairwise (· < ·)) : l.min? = l.head? := by
  cases l with
  | nil => rfl
  | cons x xs =>
    rw [List.head?_cons, List.min?_eq_some_iff]
    refine ⟨List.mem_cons_self, ?_⟩
    intro b hb
    rcases List.mem_cons.1 hb with hb | hb
    · omega
    · exact Nat.le_of_lt ((List.pairwise_cons.1 h).1 b hb)

theorem sorted_max : ∀ {l : List Nat}, l.Pairwise (· < ·) → l.max? = l.getLast?
  | [], _ => rfl
  | [x], _ => rfl
  | x :: y :: ys, h => by
    have hp := List.pairwise_cons.1 h
    have ih := sorted_max hp.2
    rw [List.getLast?_cons_cons, ← ih]
    cases hm : (y :: ys).max? with
    | none => simp at hm
    | some m =>
      obtain ⟨m1, m2⟩ := List.max?_eq_some_iff.1 hm
      rw [List.max?_eq_some_iff]
      refine ⟨List.mem_cons_of_mem _ m1, ?_⟩
      intro b hb
      rcases List.mem_cons.1 hb with hb | hb
      · have := hp.1 y List.mem_cons_self
        have := m2 y List.mem_cons_self
        omega
      · exact m2 b hb

theorem sorted_getLast {l : List Nat} (h : l.Pairwise (· < ·)) {m : Nat} (hm : m ∈ l)
    (hub : ∀ x, x ∈ l → x ≤ m) : l.getLast? = some m := by
  rw [← sorted_max h, List.max?_eq_some_iff]; exact ⟨hm, hub⟩

theorem mem'_sorted (b : Nat) (fs : List Nat) : (TinyC.mem' b fs).Pairwise (· < ·) := by
  induction fs generalizing b with
  | nil => exact List.Pairwise.nil
  | cons f fs ih =>
    simp only [TinyC.mem']
    rw [List.pairwise_cons]
    refine ⟨?_, ih _⟩
    intro x hx
    have := TinyC.mem'_ge hx
    omega

theorem seg_sorted (w L frm : Nat) : (seg w L frm).Pairwise (· < ·) :=
  (List.pairwise_lt_range' (s := frm) (n := L - frm)).filter _

theorem bitsOf_sorted (w L : Nat) : (bitsOf w L).Pairwise (· < ·) := by
  rw [bitsOf_eq_seg]; exact seg_sorted _ _ _

/-! ### highest / lowest set bit -/

/-- the highest set bit of `w` below `L` is `log2 (w % 2^L)` -/
theorem top_spec {w L : Nat} (h : w % 2 ^ L ≠ 0) :
    Nat.log2 (w % 2 ^ L) < L ∧ w.testBit (Nat.log2 (w % 2 ^ L)) = true ∧
    ∀ b, b < L → w.testBit b = true → b ≤ Nat.log2 (w % 2 ^ L) := by
  have hlt : Nat.log2 (w % 2 ^ L) < L := (Nat.log2_lt h).2 (Nat.mod_lt _ (Nat.two_pow_pos L))
  have ht := Nat.testBit_log2 h
  rw [Nat.testBit_mod_two_pow] at ht
  refine ⟨hlt, by simpa [hlt] using ht, ?_⟩
  intro b hb htb
  have : (w % 2 ^ L).testBit b = true := by rw [Nat.testBit_mod_two_pow]; simp [hb, htb]
  exact (Nat.le_log2 h).2 (Nat.ge_two_pow_of_testBit this)

theorem bitsOf_getLast {w L : Nat} (h : w % 2 ^ L ≠ 0) :
    (bitsOf w L).getLast? = some (Nat.log2 (w % 2 ^ L)) := by
  obtain ⟨h1, h2, h3⟩ := top_spec h
  apply sorted_getLast (bitsOf_sorted w L) (mem_bitsOf.2 ⟨h1, h2⟩)
  intro x hx
  obtain ⟨x1, x2⟩ := mem_bitsOf.1 hx
  exact h3 x x1 x2

theorem bitsOf_zero (L : Nat) : bitsOf 0 L = [] := by rw [bitsOf_eq_seg, seg_zero]

/-- the lowest set bit, as computed by `lowBit` -/
theorem low_spec {w L W : Nat} (h : w % 2 ^ L ≠ 0) (hL : L ≤ W) :
    lowBit w W < L ∧ w.testBit (lowBit w W) = true ∧
    ∀ b, w.testBit b = true → lowBit w W ≤ b := by
  obtain ⟨t1, t2, _⟩ := top_spec h
  unfold lowBit
  cases hf : findBit w W W 0 with
  | none =>
    have := findBit_none (by omega) hf _ (Nat.zero_le _) (show Nat.log2 (w % 2 ^ L) < W by omega)
    rw [this] at t2; cases t2
  | some b0 =>
    obtain ⟨_, f2, f3, f4⟩ := findBit_some (by omega) hf
    simp only [Option.getD_some]
    have hle : b0 ≤ Nat.log2 (w % 2 ^ L) := by
      cases Nat.lt_or_ge (Nat.log2 (w % 2 ^ L)) b0 with
      | inl hlt => have := f4 _ (Nat.zero_le _) hlt; rw [this] at t2; cases t2
      | inr hge => exact hge
    refine ⟨by omega, f3, ?_⟩
    intro b hb
    cases Nat.lt_or_ge b b0 with
    | inl hlt => have := f4 _ (Nat.zero_le _) hlt; rw [this] at hb; cases hb
    | inr hge => exact hge

/-! ### the last non-zero word -/

theorem lastNonzero_list (m : List Nat) :
    match (m.filter (· ≠ 0)).head? with
    | none => ∀ i : Nat, m[i]?.getD 0 = 0
    | some w => w ≠ 0 ∧ (m.takeWhile (· = 0)).length < m.length ∧
        m[(m.takeWhile (· = 0)).length]?.getD 0 = w ∧
        ∀ i : Nat, i < (m.takeWhile (· = 0)).length → m[i]?.getD 0 = 0 := by
  induction m with
  | nil => intro i; simp
  | cons x m ih =>
    by_cases hx : x = 0
    · subst hx
      have e1 : (List.filter (· ≠ 0) (0 :: m)) = List.filter (· ≠ 0) m := by simp
      have e2 : (List.takeWhile (· = 0) (0 :: m)) = 0 :: List.takeWhile (· = 0) m := by simp
      rw [e1, e2]
      cases hh : (m.filter (· ≠ 0)).head? with
      | none =>
        rw [hh] at ih
        intro i
        cases i with
        | zero => rfl
        | succ i => simpa using ih i
      | some w =>
        rw [hh] at ih
        obtain ⟨i1, i2, i3, i4⟩ := ih
        refine ⟨i1, by simpa using i2, by simpa using i3, ?_⟩
        intro i hi
        cases i with
        | zero => rfl
        | succ i => simpa using i4 i (by simpa using hi)
    · have e1 : (List.filter (· ≠ 0) (x :: m)) = x :: List.filter (· ≠ 0) m := by simp [hx]
      have e2 : (List.takeWhile (· = 0) (x :: m)) = [] := by simp [hx]
      rw [e1, e2]
      refine ⟨hx, by simp, by simp, ?_⟩
      intro i hi; simp at hi

theorem rev_get (a : Tbl) {i : Nat} (hi : i < a.size) :
    a.toList.reverse[i]?.getD 0 = get a (a.size - 1 - i) := by
  rw [List.getElem?_reverse (by simpa using hi)]
  unfold RH.get
  simp [Array.getD_eq_getD_getElem?]

theorem lastNonzero_none {a : Tbl} (h : lastNonzero a = none) : ∀ i, get a i = 0 := by
  intro i
  by_cases hi : i < a.size
  · have := lastNonzero_list a.toList.reverse
    unfold lastNonzero at h
    rw [h] at this
    have h2 := this (a.size - 1 - i)
    rw [rev_get a (by omega)] at h2
    have : a.size - 1 - (a.size - 1 - i) = i := by omega
    rw [this] at h2; exact h2
  · exact get_oob (by omega)

/-- position of the last non-zero word -/
theorem lastNonzero_some {a : Tbl} {w : Nat} (h : lastNonzero a = some w) :
    w ≠ 0 ∧ (a.toList.reverse.takeWhile (· = 0)).length < a.size ∧
      get a (a.size - 1 - (a.toList.reverse.takeWhile (· = 0)).length) = w ∧
      ∀ j, a.size - 1 - (a.toList.reverse.takeWhile (· = 0)).length < j → get a j = 0 := by
  have := lastNonzero_list a.toList.reverse
  unfold lastNonzero at h
  rw [h] at this
  obtain ⟨h1, h2, h3, h4⟩ := this
  have h2' : (a.toList.reverse.takeWhile (· = 0)).length < a.size := by simpa using h2
  refine ⟨h1, h2', ?_, ?_⟩
  · rw [rev_get a h2'] at h3; exact h3
  · intro j hj
    by_cases hjs : j < a.size
    · have := h4 (a.size - 1 - j) (by omega)
      rw [rev_get a (by omega)] at this
      have e : a.size - 1 - (a.size - 1 - j) = j := by omega
      rw [e] at this; exact this
    · exact get_oob (by omega)

theorem lastNonzero_eq_nz (a : Tbl) : lastNonzero a = (nz a).getLast? := by
  unfold lastNonzero nz
  rw [List.filter_reverse, List.getLast?_eq_head?_reverse]

/-! ### rows -/

theorem mem_rows {L : Nat} {f : Nat → Nat → Nat} {a : Tbl} {e : Nat} :
    e ∈ rows L f a 0 a.size ↔ ∃ i, i < a.size ∧ ∃ b, b < L ∧ (get a i).testBit b = true ∧ e = f i b := by
  unfold rows row
  rw [List.mem_flatMap]
  constructor
  · rintro ⟨i, hi, he⟩
    rw [List.mem_map] at he
    obtain ⟨b, hb, rfl⟩ := he
    obtain ⟨b1, b2⟩ := mem_bitsOf.1 hb
    exact ⟨i, by have := List.mem_range'_1.1 hi; omega, b, b1, b2, rfl⟩
  · rintro ⟨i, hi, b, b1, b2, rfl⟩
    exact ⟨i, List.mem_range'_1.2 ⟨by omega, by omega⟩, List.mem_map.2 ⟨b, mem_bitsOf.2 ⟨b1, b2⟩, rfl⟩⟩

theorem rows_nil_of_zero {L : Nat} {f : Nat → Nat → Nat} {a : Tbl} (h : ∀ i, get a i = 0) :
    rows L f a 0 a.size = [] := by
  unfold rows
  rw [List.flatMap_eq_nil_iff]
  intro i _
  unfold row; rw [h i, bitsOf_zero]; rfl

theorem rows_last {L : Nat} {f : Nat → Nat → Nat} {a : Tbl} {p : Nat} (hp : p < a.size)
    (hz : ∀ j, p < j → get a j = 0) (hne : row L f a p ≠ []) :
    (rows L f a 0 a.size).getLast? = (row L f a p).getLast? := by
  unfold rows
  have e1 : List.range' 0 a.size = List.range' 0 p ++ List.range' p (a.size - p) := by
    have := List.range'_append (s := 0) (m := p) (n := a.size - p) (step := 1)
    rw [show 0 + 1 * p = p by omega, show p + (a.size - p) = a.size by omega] at this
    exact this.symm
  have e2 : a.size - p = (a.size - p - 1) + 1 := by omega
  rw [e1, e2, List.range'_succ, List.flatMap_append, List.flatMap_cons]
  have e3 : (List.range' (p + 1) (a.size - p - 1)).flatMap (row L f a) = [] := by
    rw [List.flatMap_eq_nil_iff]
    intro j hj
    have := List.mem_range'_1.1 hj
    unfold row; rw [hz j (by omega), bitsOf_zero]; rfl
  rw [e3, List.append_nil, List.getLast?_append]
  cases hl : (row L f a p).getLast? with
  | none => exact absurd (List.getLast?_eq_none_iff.1 hl) hne
  | some x => rfl

/-- the dense enumeration is strictly increasing -/
theorem rows_dense_sorted (c : Cfg) (a : Tbl) (i n : Nat) : (rows c.W (fun i b => i * c.W + b) a i n).Pairwise (· < ·) := by
  unfold rows
  rw [List.pairwise_flatMap]
  constructor
  · intro j _
    unfold row
    rw [List.pairwise_map]
    exact (bitsOf_sorted _ _).imp (by intro x y h; dsimp only; omega)
  · apply (List.pairwise_lt_range' (s := i) (n := n)).imp
    intro i j hij x hx y hy
    unfold row at hx hy
    rw [List.mem_map] at hx hy
    obtain ⟨b, hb, rfl⟩ := hx
    obtain ⟨b', hb', rfl⟩ := hy
    have h1 := (mem_bitsOf.1 hb).1
    have h2 : (i + 1) * c.W ≤ j * c.W := Nat.mul_le_mul_right _ hij
    rw [Nat.succ_mul] at h2
    dsimp only
    omega

end SC
