import TinysetModel.Proofs.Stack
import TinysetModel.Proofs.Bitmap
import TinysetModel.Proofs.Plain2
/-! Assembly of the per-layout results into the set-level refinement theorems:
`insert_refines`, `remove_refines`, `contains_refines`, `absOK_of_wf`, `len_insert`, `len_remove`,
and the history theorem `run_refines` ("whenever a run of the model returns, every answer is the
answer of the ideal set"). -/
namespace SC
open RH

variable {c : Cfg} {D : Type}

/-! ### 0. dispatch on the layout, exactly as `insertStep`, `remove`, `contains` and `WF` do -/

theorem eq_W_of_isDense {bits : Nat} (h : isDense c bits = true) : bits = c.W := by
  unfold isDense at h
  exact of_decide_eq_true h

/-- the three heap layouts, with the clause of `WF` that belongs to each -/
theorem WF_heap_cases {sz cap bits : Nat} {a : Tbl} (wf : WF c (.heap sz cap bits a)) :
    (bits = c.W ∧ DenseWF c sz cap a) ∨
    (isDense c bits = false ∧ isPlain c bits = true) ∨
    (isDense c bits = false ∧ isPlain c bits = false ∧ BitmapWF c sz cap bits a) := by
  cases hd : isDense c bits with
  | true =>
    have := eq_W_of_isDense hd
    subst this
    rw [WF_dense] at wf
    exact Or.inl ⟨rfl, wf⟩
  | false =>
    cases hp : isPlain c bits with
    | true => exact Or.inr (Or.inl ⟨rfl, rfl⟩)
    | false => exact Or.inr (Or.inr ⟨rfl, rfl, (WF_bitmap hd hp).1 wf⟩)

/-! ### 1. the heap cases of `insertStep` and `remove` -/

theorem heapIns_ok (ok : CfgOK c) (g : Rng D) (rec : Ins D) (hrec : RecOK c rec) : HeapInsOK c g rec := by
  intro sz cap bits a e d r' b d' wf he h
  rw [insertStep] at h
  rcases WF_heap_cases wf with ⟨hW, dw⟩ | ⟨hd, hp⟩ | ⟨hd, hp, bw⟩
  · subst hW
    rw [if_pos (isDense_W c)] at h
    exact insertDense_ok ok g rec hrec dw e he d d' r' b h
  · rw [if_neg (by rw [hd]; exact Bool.false_ne_true), if_pos hp] at h
    exact insertPlain_ok ok g wf hp hd e he d d' r' b h
  · rw [if_neg (by rw [hd]; exact Bool.false_ne_true), if_neg (by rw [hp]; exact Bool.false_ne_true)] at h
    exact insertBitmap_ok g rec hd hp ok hrec bw e he h

theorem heapRem_ok (ok : CfgOK c) (g : Rng D) (fuel : Nat) : HeapRemOK c g fuel := by
  intro sz cap bits a e d r' b d' wf he h
  rcases WF_heap_cases wf with ⟨hW, dw⟩ | ⟨hd, hp⟩ | ⟨hd, hp, bw⟩
  · subst hW
    obtain ⟨r1, b1, h1, s⟩ := remove_dense ok g fuel dw e d
    rw [h1] at h; cases h; exact s
  · obtain ⟨r1, b1, h1, s⟩ := remove_plain_wf c g fuel wf hp hd e d
    rw [h1] at h; cases h; exact s
  · obtain ⟨r1, b1, h1, s⟩ := remove_bitmap hd hp ok g fuel bw e he d
    rw [h1] at h; cases h; exact s

/-! ### 2. `insert`, `remove`, `contains` against the abstraction `elems` -/

/-- whenever `insert` returns: the result is well formed, the flag is "was absent", exactly `e` was added -/
theorem insert_refines (ok : CfgOK c) (g : Rng D) (fuel : Nat) : RecOK c (insert c g fuel) :=
  insert_ok ok g (fun rec hrec => heapIns_ok ok g rec hrec) fuel

/-- whenever `remove` returns: the result is well formed, the flag is "was present", exactly `e` was removed -/
theorem remove_refines (ok : CfgOK c) (g : Rng D) (fuel : Nat) {r : Rp} (wf : WF c r) (e : Nat) (he : e < 2 ^ c.W)
    {d d' : D} {r' : Rp} {b : Bool} (h : remove c g fuel r e d = .ok ((r', b), d')) : RemOK c r e r' b :=
  remove_ok ok g fuel (insert_refines ok g fuel) (heapRem_ok ok g fuel) r wf e he d d' r' b h

/-- `contains` is membership in the abstraction, for all five shapes -/
theorem contains_refines (ok : CfgOK c) {r : Rp} (wf : WF c r) (e : Nat) (he : e < 2 ^ c.W) :
    contains c r e = true ↔ e ∈ elems c r := by
  match r, wf with
  | .empty, _ => exact contains_empty e
  | .stack t, wf => exact contains_stack wf e
  | .heap sz cap bits a, wf =>
    rcases WF_heap_cases wf with ⟨hW, dw⟩ | ⟨hd, hp⟩ | ⟨hd, hp, bw⟩
    · subst hW; exact contains_dense ok dw e
    · exact contains_plain_wf c wf hp hd e
    · exact contains_bitmap hd hp ok bw e he

/-! ### 3. what every well-formed value satisfies -/

theorem absOK_plain {sz cap bits : Nat} {a : Tbl} (wf : WF c (.heap sz cap bits a))
    (hp : isPlain c bits = true) (hd : isDense c bits = false) : AbsOK c (.heap sz cap bits a) := by
  obtain ⟨pw, _, _, hw, hbits⟩ := Plain2.plain_unfold wf hp hd
  refine ⟨?_, ?_, ?_⟩
  · rw [elems_plain hp hd]; exact plainElems_nodup pw
  · rw [elems_plain hp hd]
    show sz = (plainElems bits a).length
    unfold plainElems
    rw [List.length_map]; exact pw.szc
  · intro x hx
    rw [elems_plain hp hd] at hx
    obtain ⟨w, hw', hdec⟩ := List.mem_map.1 hx
    rw [← hdec]
    unfold dec
    split
    · exact Nat.two_pow_pos _
    · exact hw w hw'

theorem absOK_of_wf (ok : CfgOK c) {r : Rp} (wf : WF c r) : AbsOK c r := by
  match r, wf with
  | .empty, _ => exact absOK_empty
  | .stack t, wf => exact absOK_stack ok wf
  | .heap sz cap bits a, wf =>
    rcases WF_heap_cases wf with ⟨hW, dw⟩ | ⟨hd, hp⟩ | ⟨hd, hp, bw⟩
    · subst hW; exact ⟨elems_dense_nodup ok, dw.szc, dw.range⟩
    · exact absOK_plain wf hp hd
    · exact ⟨elems_bitmap_nodup hd hp bw, bw.szc, bw.range⟩

/-! ### 4. `len` after `insert` / `remove` -/

theorem len_of_InsOK (ok : CfgOK c) {r r' : Rp} {e : Nat} {b : Bool} (wf : WF c r) (h : InsOK c r e r' b) :
    len r' = if b = true then len r + 1 else len r := by
  have a1 := absOK_of_wf ok wf
  have a2 := absOK_of_wf ok h.wf
  have hl := length_of_insert a1.nodup a2.nodup h.mem
  rw [a1.len, a2.len, hl]
  by_cases hb : b = true
  · rw [if_pos hb, if_neg (h.ret.1 hb)]
  · rw [if_neg hb, if_pos (Classical.not_not.1 (fun hn => hb (h.ret.2 hn)))]; rfl

theorem len_of_RemOK (ok : CfgOK c) {r r' : Rp} {e : Nat} {b : Bool} (wf : WF c r) (h : RemOK c r e r' b) :
    len r' = if b = true then len r - 1 else len r := by
  have a1 := absOK_of_wf ok wf
  have a2 := absOK_of_wf ok h.wf
  have hl := length_of_remove a1.nodup a2.nodup h.mem
  rw [a1.len, a2.len, hl]
  by_cases hb : b = true
  · rw [if_pos hb, if_pos (h.ret.1 hb)]; omega
  · rw [if_neg hb, if_neg (fun hn => hb (h.ret.2 hn))]; rfl

/-- `len` counts: a successful `insert` adds one exactly when it reports "was absent" -/
theorem len_insert (ok : CfgOK c) (g : Rng D) (fuel : Nat) {r : Rp} (wf : WF c r) (e : Nat) (he : e < 2 ^ c.W)
    {d d' : D} {r' : Rp} {b : Bool} (h : insert c g fuel r e d = .ok ((r', b), d')) :
    len r' = if b = true then len r + 1 else len r :=
  len_of_InsOK ok wf (insert_refines ok g fuel r e d r' b d' wf he h)

/-- `len` counts: a successful `remove` subtracts one exactly when it reports "was present" -/
theorem len_remove (ok : CfgOK c) (g : Rng D) (fuel : Nat) {r : Rp} (wf : WF c r) (e : Nat) (he : e < 2 ^ c.W)
    {d d' : D} {r' : Rp} {b : Bool} (h : remove c g fuel r e d = .ok ((r', b), d')) :
    len r' = if b = true then len r - 1 else len r :=
  len_of_RemOK ok wf (remove_refines ok g fuel wf e he h)

/-! ### 5. histories: the model against the ideal set -/

/-- one operation of the set interface -/
inductive Op
  | ins (e : Nat)
  | rem (e : Nat)
  | con (e : Nat)
  | len
  deriving DecidableEq, Repr

/-- one answer -/
inductive Out
  | bool (b : Bool)
  | nat (n : Nat)
  deriving DecidableEq, Repr

/-- the argument of the operation (if any) is a `W`-bit value -/
def Op.InRange (W : Nat) : Op → Prop
  | .ins e => e < 2 ^ W
  | .rem e => e < 2 ^ W
  | .con e => e < 2 ^ W
  | .len => True

instance (W : Nat) : DecidablePred (Op.InRange W) := fun op => by
  cases op <;> unfold Op.InRange <;> infer_instance

-- decidable equality of results, so that concrete runs can be checked by `decide +kernel`
deriving instance DecidableEq for Rp
deriving instance DecidableEq for Except

/-- one operation of the model -/
def stepOp (c : Cfg) (g : Rng D) (fuel : Nat) (r : Rp) : Op → M D (Rp × Out)
  | .ins e => do
    let p ← insert c g fuel r e
    pure (p.1, .bool p.2)
  | .rem e => do
    let p ← remove c g fuel r e
    pure (p.1, .bool p.2)
  | .con e => pure (r, .bool (contains c r e))
  | .len => pure (r, .nat (len r))

/-- one operation of the ideal set, kept as a duplicate-free list -/
def specStep (s : List Nat) : Op → List Nat × Out
  | .ins e => if e ∈ s then (s, .bool false) else (s ++ [e], .bool true)
  | .rem e => (s.erase e, .bool (decide (e ∈ s)))
  | .con e => (s, .bool (decide (e ∈ s)))
  | .len => (s, .nat s.length)

/-- a history, run on the model -/
def runOps (c : Cfg) (g : Rng D) (fuel : Nat) : Rp → List Op → M D (Rp × List Out)
  | r, [] => pure (r, [])
  | r, op :: ops => do
    let p ← stepOp c g fuel r op
    let q ← runOps c g fuel p.1 ops
    pure (q.1, p.2 :: q.2)

/-- a history, run on the ideal set -/
def specRun : List Nat → List Op → List Nat × List Out
  | s, [] => (s, [])
  | s, op :: ops => ((specRun (specStep s op).1 ops).1, (specStep s op).2 :: (specRun (specStep s op).1 ops).2)

theorem specStep_ins (s : List Nat) (e : Nat) :
    specStep s (.ins e) = if e ∈ s then (s, .bool false) else (s ++ [e], .bool true) := rfl

theorem specStep_nodup {s : List Nat} (hs : s.Nodup) (op : Op) : (specStep s op).1.Nodup := by
  cases op with
  | ins e =>
    rw [specStep_ins]
    split
    · exact hs
    · rename_i hne
      rw [List.nodup_append]
      exact ⟨hs, List.nodup_cons.2 ⟨List.not_mem_nil, List.nodup_nil⟩, fun a ha b hb => by
        rw [List.mem_singleton.1 hb]; exact fun h => hne (h ▸ ha)⟩
  | rem e => exact hs.erase e
  | con e => exact hs
  | len => exact hs

theorem specRun_nodup (ops : List Op) : ∀ {s : List Nat}, s.Nodup → (specRun s ops).1.Nodup := by
  induction ops with
  | nil => intro s hs; exact hs
  | cons op ops ih => intro s hs; exact ih (specStep_nodup hs op)

/-- one step of the model, whenever it returns, is the step of the ideal set -/
theorem step_refines (ok : CfgOK c) (g : Rng D) (fuel : Nat) (op : Op) (hop : op.InRange c.W)
    {r : Rp} (wf : WF c r) (s : List Nat) (hs : s.Nodup) (hrs : ∀ x, x ∈ elems c r ↔ x ∈ s)
    {d d' : D} {r' : Rp} {o : Out} (h : stepOp c g fuel r op d = .ok ((r', o), d')) :
    WF c r' ∧ o = (specStep s op).2 ∧ (∀ x, x ∈ elems c r' ↔ x ∈ (specStep s op).1) := by
  cases op with
  | ins e =>
    obtain ⟨p, d1, h1, h2⟩ := bind_ok (m := insert c g fuel r e) h
    rw [pure_run] at h2
    cases h2
    have sp := insert_refines ok g fuel r e d p.1 p.2 _ wf hop (by rw [h1])
    rw [specStep_ins]
    refine ⟨sp.wf, ?_, fun x => ?_⟩
    · by_cases hm : e ∈ s
      · rw [if_pos hm]
        have : p.2 = false := by
          cases hb : p.2 with
          | false => rfl
          | true => exact absurd ((hrs e).2 hm) (sp.ret.1 hb)
        rw [this]
      · rw [if_neg hm]
        have : p.2 = true := sp.ret.2 (fun hx => hm ((hrs e).1 hx))
        rw [this]
    · rw [sp.mem x, hrs x]
      by_cases hm : e ∈ s
      · rw [if_pos hm]
        constructor
        · rintro (hx | hx)
          · exact hx
          · exact hx ▸ hm
        · exact Or.inl
      · rw [if_neg hm, List.mem_append, List.mem_singleton]
  | rem e =>
    obtain ⟨p, d1, h1, h2⟩ := bind_ok (m := remove c g fuel r e) h
    rw [pure_run] at h2
    cases h2
    have sp := remove_refines ok g fuel wf e hop (r' := p.1) (b := p.2) (by rw [h1])
    refine ⟨sp.wf, ?_, fun x => ?_⟩
    · show Out.bool p.2 = Out.bool (decide (e ∈ s))
      congr 1
      rw [Bool.eq_iff_iff, sp.ret, hrs e, decide_eq_true_iff]
    · show x ∈ elems c p.1 ↔ x ∈ s.erase e
      rw [sp.mem x, hrs x, hs.mem_erase_iff, and_comm]
  | con e =>
    cases h
    refine ⟨wf, ?_, hrs⟩
    show Out.bool (contains c r e) = Out.bool (decide (e ∈ s))
    congr 1
    rw [Bool.eq_iff_iff, contains_refines ok wf e hop, hrs e, decide_eq_true_iff]
  | len =>
    cases h
    refine ⟨wf, ?_, hrs⟩
    show Out.nat (len r) = Out.nat s.length
    congr 1
    have ab := absOK_of_wf ok wf
    rw [ab.len]
    exact ((List.perm_ext_iff_of_nodup ab.nodup hs).2 hrs).length_eq

/-- **Refinement of histories.** For every configuration satisfying `CfgOK`, every RNG oracle `g`, every
fuel and every history `ops` of in-range operations: if the run of the model from a well-formed `r`
(representing the ideal set `s`) returns, then the final value is well formed, every answer is the
answer of the ideal set, and the final value represents the final ideal set. -/
theorem run_refines (ok : CfgOK c) (g : Rng D) (fuel : Nat) (ops : List Op) (hops : ∀ op ∈ ops, op.InRange c.W)
    {r : Rp} (wf : WF c r) (s : List Nat) (hs : s.Nodup) (hrs : ∀ x, x ∈ elems c r ↔ x ∈ s)
    {d d' : D} {r' : Rp} {outs : List Out} (h : runOps c g fuel r ops d = .ok ((r', outs), d')) :
    WF c r' ∧ outs = (specRun s ops).2 ∧ (∀ x, x ∈ elems c r' ↔ x ∈ (specRun s ops).1) := by
  induction ops generalizing r s d d' r' outs with
  | nil =>
    cases h
    exact ⟨wf, rfl, hrs⟩
  | cons op ops ih =>
    obtain ⟨p, d1, h1, h2⟩ := bind_ok (m := stepOp c g fuel r op) h
    obtain ⟨q, d2, h3, h4⟩ := bind_ok h2
    rw [pure_run] at h4
    cases h4
    obtain ⟨w1, o1, m1⟩ := step_refines ok g fuel op (hops op List.mem_cons_self) wf s hs hrs
      (r' := p.1) (o := p.2) (by rw [h1])
    obtain ⟨w2, o2, m2⟩ := ih (fun op' h' => hops op' (List.mem_cons_of_mem _ h')) w1 _ (specStep_nodup hs op) m1
      (r' := q.1) (outs := q.2) (by rw [h3])
    exact ⟨w2, by rw [o1, o2]; rfl, m2⟩

/-- the instance the crate's users see: a history starting from the empty set -/
theorem run_refines_empty (ok : CfgOK c) (g : Rng D) (fuel : Nat) (ops : List Op) (hops : ∀ op ∈ ops, op.InRange c.W)
    {d d' : D} {r' : Rp} {outs : List Out} (h : runOps c g fuel .empty ops d = .ok ((r', outs), d')) :
    WF c r' ∧ outs = (specRun [] ops).2 ∧ (∀ x, x ∈ elems c r' ↔ x ∈ (specRun [] ops).1) :=
  run_refines ok g fuel ops hops (r := .empty) trivial [] List.nodup_nil (fun x => by simp [elems]) h

#print axioms heapIns_ok
#print axioms heapRem_ok
#print axioms insert_refines
#print axioms remove_refines
#print axioms contains_refines
#print axioms absOK_of_wf
#print axioms len_insert
#print axioms len_remove
#print axioms step_refines
#print axioms run_refines
#print axioms run_refines_empty
end SC
