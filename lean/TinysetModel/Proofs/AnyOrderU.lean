import TinysetModel.Proofs.AnyOrder
import TinysetModel.Proofs.TotalCab
/-! C12(b) — "a set holding the integers `0..n` (`n ≤ 2^22`) owns at most two bytes per member plus 256 bytes,
whatever the insertion order and the outcomes of the randomized growth", for `SetU64` (`cfg64`) and `SetU32`
(`cfg32`): the two instances of `AnyOrder.FitCfg` and the final arithmetic.

Widths: all values are `< n ≤ 2^22`, so `compute_array_bits` is at least `64 - 22 = 42` (`cfg64`) resp.
`32 - 22 = 10` (`cfg32`); a bitmap table therefore holds at most `(n-1)/42 + 1` (resp. `(n-1)/10 + 1`) keys. -/
namespace SC
namespace AnyOrder
open RH

variable {D : Type}

/-! ### `log2` (bit length) of small values -/

theorem log2_le_22 {e n : Nat} (he : e < n) (hn : n ≤ 2 ^ 22) : log2 e ≤ 22 := by
  by_cases h0 : e = 0
  · subst h0; decide
  · exact (TinyC.log2_le_iff h0).2 (by omega)

theorem log2_ge_of_shift {e : Nat} (h : 32 ≤ e) : 2 ≤ log2 e := two_le_log2 (by omega)

/-! ### dense capacity bounds -/

/-- words of a dense `SetU64` block with members below `n` -/
def dn64 (n : Nat) : Nat := n / 32 + 2
/-- words of a dense `SetU32` block with members below `n` -/
def dn32 (n : Nat) : Nat := 3 * n / 11 + 4

theorem keysMax_le {n B bits : Nat} (hB : 0 < B) (h : B ≤ bits) : keysMax n bits ≤ (n - 1) / B + 1 := by
  unfold keysMax
  exact Nat.succ_le_succ (Nat.div_le_div_left h hB)

theorem keysMax_ge {n bits W : Nat} (hb : 0 < bits) (h : bits ≤ W) : (n - 1) / W + 1 ≤ keysMax n bits := by
  unfold keysMax
  exact Nat.succ_le_succ (Nat.div_le_div_left h hb)

/-! ### `cfg64` -/

theorem fitCfg64 {n : Nat} (hn : n ≤ 2 ^ 22) : FitCfg cfg64 n 42 (dn64 n) where
  n_le := by
    show n ≤ 2 ^ 64
    omega
  B_pos := by omega
  cab_ge := by
    intro e he
    have hl := log2_le_22 he hn
    rw [cfg64_cab_eq]
    repeat' split
    all_goals omega
  cab_lt := by
    intro e _ _
    show cfg64.cab e < 64
    rcases cfg64_cab_range e with h | h <;> omega
  small := by decide
  dense_new := by
    intro mx h
    show 1 + mx / 64 + mx / 256 ≤ n / 32 + 2
    omega
  dense_grow := by
    intro e h
    show 1 + (e >>> 6) + (e >>> 6) / 4 ≤ n / 32 + 2
    rw [Nat.shiftRight_eq_div_pow]
    omega
  sparse := by
    intro e sz bits he hsz hb hW
    have hW' : bits < 64 := hW
    have hsz' : sz < e >>> 7 := hsz
    rw [Nat.shiftRight_eq_div_pow] at hsz'
    have hk := keysMax_ge (n := n) hb (Nat.le_of_lt hW')
    show 2 * (sz + 1) ≤ 3 * keysMax n bits + 5
    omega
  narrow := by
    intro needed K r h0 h
    show needed + 1 + 0 + 2 * (r % needed) ≤ 3 * K + 5
    have := Nat.mod_lt r h0
    omega
  grow := by
    intro cap K r h0 h
    rw [slack64] at h
    show cap + 1 + 0 + r % cap ≤ 3 * K + 5
    have := Nat.mod_lt r h0
    omega
  bitmap_dense := by
    intro cap bits mx hB h1 h
    rw [slack64] at h
    have hk := keysMax_le (n := n) (by omega : 0 < 42) hB
    rw [Nat.shiftRight_eq_div_pow] at h1
    show 1 + mx / 64 + mx / 256 ≤ n / 32 + 2
    omega

/-! ### `cfg32` -/

theorem fitCfg32 {n : Nat} (hn : n ≤ 2 ^ 22) : FitCfg cfg32 n 10 (dn32 n) where
  n_le := by
    show n ≤ 2 ^ 32
    omega
  B_pos := by omega
  cab_ge := by
    intro e he
    have hl := log2_le_22 he hn
    rw [cfg32_cab_eq]
    repeat' split
    all_goals omega
  cab_lt := by
    intro e he h1
    have h1' : 1 ≤ e >>> 5 := h1
    rw [Nat.shiftRight_eq_div_pow] at h1'
    have h2 : 2 ≤ log2 e := log2_ge_of_shift (by omega)
    have hl := log2_le_22 he hn
    show cfg32.cab e < 32
    rw [cfg32_cab_eq]
    repeat' split
    all_goals omega
  small := by decide
  dense_new := by
    intro mx h
    show 1 + mx / 32 + mx / 128 ≤ 3 * n / 11 + 4
    omega
  dense_grow := by
    intro e h
    show 1 + e / 32 + e / 128 ≤ 3 * n / 11 + 4
    omega
  sparse := by
    intro e sz bits he hsz hb hW
    have hW' : bits < 32 := hW
    have hsz' : sz < e >>> 5 := hsz
    rw [Nat.shiftRight_eq_div_pow] at hsz'
    have hk := keysMax_ge (n := n) hb (Nat.le_of_lt hW')
    show 1 + 2 * sz ≤ 3 * keysMax n bits + 5
    omega
  narrow := by
    intro needed K r h0 h
    show needed + 1 + needed / 8 + 1 * (r % needed) ≤ 3 * K + 5
    have := Nat.mod_lt r h0
    omega
  grow := by
    intro cap K r h0 h
    rw [slack32] at h
    show cap + 1 + cap / 8 + r % cap ≤ 3 * K + 5
    have := Nat.mod_lt r h0
    omega
  bitmap_dense := by
    intro cap bits mx hB h1 h
    rw [slack32] at h
    have hk := keysMax_le (n := n) (by omega : 0 < 10) hB
    rw [Nat.shiftRight_eq_div_pow] at h1
    show 1 + mx / 32 + mx / 128 ≤ 3 * n / 11 + 4
    omega

/-! ### from `Fit` to bytes -/

theorem bytes64 (cap : Nat) : blockBytes cfg64 (.heap sz cap bits a) = cap * 8 + 24 := rfl
theorem bytes32 (cap : Nat) : blockBytes cfg32 (.heap sz cap bits a) = cap * 4 + 12 := rfl

/-- `SetU64`, members below `n ≤ 2^22`: the block has at most `4 n / 7 + 88` bytes -/
theorem fit_bytes64 {n : Nat} {r : Rp} (h : Fit cfg64 n 42 (dn64 n) r) : blockBytes cfg64 r ≤ 4 * n / 7 + 88 := by
  cases r with
  | empty => exact Nat.zero_le _
  | stack t => exact Nat.zero_le _
  | heap sz cap bits a =>
    rw [bytes64]
    rcases h with ⟨_, h⟩ | ⟨hB, _, h⟩
    · unfold dn64 at h
      omega
    · have hk := keysMax_le (n := n) (by omega : 0 < 42) hB
      unfold tblMax at h
      omega

/-- `SetU32`, members below `n ≤ 2^22`: the block has at most `6 n / 5 + 44` bytes -/
theorem fit_bytes32 {n : Nat} {r : Rp} (h : Fit cfg32 n 10 (dn32 n) r) : blockBytes cfg32 r ≤ 6 * n / 5 + 44 := by
  cases r with
  | empty => exact Nat.zero_le _
  | stack t => exact Nat.zero_le _
  | heap sz cap bits a =>
    rw [bytes32]
    rcases h with ⟨_, h⟩ | ⟨hB, _, h⟩
    · unfold dn32 at h
      omega
    · have hk := keysMax_le (n := n) (by omega : 0 < 10) hB
      unfold tblMax at h
      omega

end AnyOrder

open AnyOrder

/-! ### the theorems -/

/-- sharp form for `SetU64`: any list of values below `n ≤ 2^22` (any order, duplicates allowed), any generator,
    any fuel: the block owns at most `4 n / 7 + 88` bytes -/
theorem any_order_u64_sharp {D : Type} (g : Rng D) (fuel : Nat) (n : Nat) (hn' : n ≤ 2 ^ 22) (xs : List Nat)
    (hx : ∀ x ∈ xs, x < n) (d d' : D) (r : Rp)
    (h : insertAll (insert cfg64 g fuel) .empty xs d = .ok (r, d')) :
    blockBytes cfg64 r ≤ 4 * n / 7 + 88 ∧ WF cfg64 r ∧ ∀ x, x ∈ elems cfg64 r ↔ x ∈ xs := by
  obtain ⟨f1, f2, f3⟩ := insertAll_empty_fit cfg64_ok (fitCfg64 hn') g fuel xs hx h
  exact ⟨fit_bytes64 f1, f2, f3⟩

/-- sharp form for `SetU32`: at most `6 n / 5 + 44` bytes -/
theorem any_order_u32_sharp {D : Type} (g : Rng D) (fuel : Nat) (n : Nat) (hn' : n ≤ 2 ^ 22) (xs : List Nat)
    (hx : ∀ x ∈ xs, x < n) (d d' : D) (r : Rp)
    (h : insertAll (insert cfg32 g fuel) .empty xs d = .ok (r, d')) :
    blockBytes cfg32 r ≤ 6 * n / 5 + 44 ∧ WF cfg32 r ∧ ∀ x, x ∈ elems cfg32 r ↔ x ∈ xs := by
  obtain ⟨f1, f2, f3⟩ := insertAll_empty_fit cfg32_ok (fitCfg32 hn') g fuel xs hx h
  exact ⟨fit_bytes32 f1, f2, f3⟩

set_option linter.unusedVariables false in
/-- C12(b), `SetU64`: at most two bytes per member plus 256 (`hn` is not needed) -/
theorem any_order_u64 {D : Type} (g : Rng D) (fuel : Nat) (n : Nat) (hn : 64 ≤ n) (hn' : n ≤ 2 ^ 22) (xs : List Nat)
    (hx : ∀ x ∈ xs, x < n) (d d' : D) (r : Rp)
    (h : insertAll (insert cfg64 g fuel) .empty xs d = .ok (r, d')) : blockBytes cfg64 r ≤ 2 * n + 256 := by
  have := (any_order_u64_sharp g fuel n hn' xs hx d d' r h).1
  omega

set_option linter.unusedVariables false in
/-- C12(b), `SetU32`: at most two bytes per member plus 256 (`hn` is not needed) -/
theorem any_order_u32 {D : Type} (g : Rng D) (fuel : Nat) (n : Nat) (hn : 64 ≤ n) (hn' : n ≤ 2 ^ 22) (xs : List Nat)
    (hx : ∀ x ∈ xs, x < n) (d d' : D) (r : Rp)
    (h : insertAll (insert cfg32 g fuel) .empty xs d = .ok (r, d')) : blockBytes cfg32 r ≤ 2 * n + 256 := by
  have := (any_order_u32_sharp g fuel n hn' xs hx d d' r h).1
  omega

#print axioms AnyOrder.fitCfg64
#print axioms AnyOrder.fitCfg32
#print axioms any_order_u64_sharp
#print axioms any_order_u32_sharp
#print axioms any_order_u64
#print axioms any_order_u32

end SC
