import TinysetModel.Model.Set
/-! Termination of the placeholder scan (`scanUp`): one draw, then upward (wrapping) to the first
value that is above `W`, is not the value being inserted and is not in the table. -/
namespace SC

variable (c : Cfg)

def scanBad (a : List Nat) (e x : Nat) : Prop := x ≤ c.W ∨ x = e ∨ a.contains x = true

theorem step_iter (M i j : Nat) : ((i + j) % M + 1) % M = (i + (j + 1)) % M := by
  rw [Nat.add_mod, Nat.mod_mod, ← Nat.add_mod]; congr 1

theorem scanUp_none_all_bad (a : List Nat) (e : Nat) : ∀ (f i0 j0 : Nat),
    scanUp c a e f ((i0 + j0) % 2 ^ c.W) = none →
    ∀ j, j0 ≤ j → j < j0 + f → scanBad c a e ((i0 + j) % 2 ^ c.W) := by
  intro f
  induction f with
  | zero => intro i0 j0 _ j h1 h2; omega
  | succ f ih =>
    intro i0 j0 h j h1 h2
    unfold scanUp at h
    by_cases hb : (i0 + j0) % 2 ^ c.W ≤ c.W ∨ (i0 + j0) % 2 ^ c.W = e ∨ a.contains ((i0 + j0) % 2 ^ c.W) = true
    · rw [if_pos hb, step_iter] at h
      by_cases hj : j = j0
      · subst hj; exact hb
      · exact ih i0 (j0 + 1) h j (by omega) (by omega)
    · rw [if_neg hb] at h; cases h

/-- whatever the scan returns is usable -/
theorem scanUp_some_good (a : List Nat) (e : Nat) : ∀ (f i r : Nat), scanUp c a e f i = some r →
    c.W < r ∧ r ≠ e ∧ r ∉ a := by
  intro f
  induction f with
  | zero => intro i r h; cases h
  | succ f ih =>
    intro i r h
    unfold scanUp at h
    by_cases hb : i ≤ c.W ∨ i = e ∨ a.contains i = true
    · rw [if_pos hb] at h; exact ih _ _ h
    · rw [if_neg hb] at h
      cases h
      refine ⟨by omega, fun h => hb (Or.inr (Or.inl h)), ?_⟩
      intro hm; exact hb (Or.inr (Or.inr (by simpa using hm)))

/-- the scan needs at most `|table| + W + 3` steps, whatever the draw and whatever the table holds -/
theorem scanUp_terminates (a : List Nat) (e i : Nat) (hi : i < 2 ^ c.W) (hsmall : a.length + c.W + 3 ≤ 2 ^ c.W) :
    ∃ r, scanUp c a e (a.length + c.W + 3) i = some r ∧ c.W < r ∧ r ≠ e ∧ r ∉ a := by
  cases h : scanUp c a e (a.length + c.W + 3) i with
  | some r => exact ⟨r, rfl, scanUp_some_good c a e _ _ _ h⟩
  | none =>
    exfalso
    have h' : scanUp c a e (a.length + c.W + 3) ((i + 0) % 2 ^ c.W) = none := by
      have e0 : (i + 0) % 2 ^ c.W = i := by simp [Nat.mod_eq_of_lt hi]
      rw [e0]; exact h
    have hall := scanUp_none_all_bad c a e (a.length + c.W + 3) i 0 h'
    let L := (List.range (a.length + c.W + 3)).map (fun j => (i + j) % 2 ^ c.W)
    have hM : 0 < 2 ^ c.W := Nat.two_pow_pos _
    have hinj : ∀ x y, x < a.length + c.W + 3 → y < a.length + c.W + 3 → x < y →
        (i + x) % 2 ^ c.W ≠ (i + y) % 2 ^ c.W := by
      intro x y hx hy hlt e'
      have h1 : (i + y) % 2 ^ c.W = ((i + x) % 2 ^ c.W + (y - x)) % 2 ^ c.W := by
        rw [Nat.mod_add_mod]; congr 1; omega
      rw [← e'] at h1
      have hr := Nat.mod_lt (i + x) hM
      by_cases hc : (i + x) % 2 ^ c.W + (y - x) < 2 ^ c.W
      · rw [Nat.mod_eq_of_lt hc] at h1; omega
      · have hge : (i + x) % 2 ^ c.W + (y - x) ≥ 2 ^ c.W := by omega
        have hlt2 : (i + x) % 2 ^ c.W + (y - x) - 2 ^ c.W < 2 ^ c.W := by omega
        rw [Nat.mod_eq_sub_mod hge, Nat.mod_eq_of_lt hlt2] at h1; omega
    have hnodup : L.Nodup := by
      show List.Pairwise (· ≠ ·) _
      rw [List.pairwise_map]
      apply List.Pairwise.imp_of_mem _ (List.pairwise_lt_range (n := a.length + c.W + 3))
      intro x y hx hy hlt
      exact hinj x y (List.mem_range.1 hx) (List.mem_range.1 hy) hlt
    have hsub : L ⊆ List.range (c.W + 1) ++ (e :: a) := by
      intro v hv
      obtain ⟨j, hj, rfl⟩ := List.mem_map.1 hv
      have hj' := List.mem_range.1 hj
      rcases hall j (Nat.zero_le _) (by omega) with hb | hb | hb
      · exact List.mem_append.2 (Or.inl (List.mem_range.2 (by omega)))
      · exact List.mem_append.2 (Or.inr (by rw [hb]; exact List.mem_cons_self))
      · exact List.mem_append.2 (Or.inr (List.mem_cons_of_mem _ (by simpa using hb)))
    have hlen := hnodup.length_le_of_subset hsub
    simp [L] at hlen
    omega

end SC
