import TinysetModel.Proofs.Dense
/-! The constructors `denseWithMax` and `withCapMax` return well-formed empty sets. -/
namespace SC
open RH

variable {c : Cfg}

theorem denseWithMax_ok (ok : CfgOK c) (mx : Nat) :
    WF c (denseWithMax c mx) ∧ elems c (denseWithMax c mx) = [] := by
  unfold denseWithMax
  have hW : c.W ≠ 0 := by have := ok.W_pos; omega
  exact ⟨WF_replicate c (ok.denseCap_pos mx) hW Nat.lt_two_pow_self, elems_zero c (fun w hw => replicate_zero_mem hw)⟩

theorem withCapMax_ok (ok : CfgOK c) {D : Type} (g : Rng D)
    (cap mx : Nat) (d d' : D) (r : Rp) (h : withCapMax c g cap mx d = .ok (r, d')) :
    WF c r ∧ elems c r = [] := by
  unfold withCapMax at h
  split at h
  · rw [pure_run] at h
    cases h
    have hW : c.W ≠ 0 := by have := ok.W_pos; omega
    exact ⟨WF_replicate c (ok.denseCap_pos mx) hW Nat.lt_two_pow_self, elems_zero c (fun w hw => replicate_zero_mem hw)⟩
  · exact withCapBits_ok ok g _ _ (ok.cab_lt mx) _ _ _ h

#print axioms denseWithMax_ok
#print axioms withCapMax_ok
end SC
