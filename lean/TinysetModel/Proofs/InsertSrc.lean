import TinysetModel.Proofs.RemoveSrc
import TinysetModel.Proofs.Repick
import TinysetModel.Proofs.Plain2
/-! The in-place paths of `insert` of the model ARE those of the current source: `Generated/Loops.lean` holds the `Dense`
and `Heap` arms of `SetU64::insert` / `SetU32::insert` translated on every run up to the points where the set has to
grow or change layout (those parts are replaced by an `.error`).  Here: whenever the translated arm returns — the bit
was set in the bitmap; the key was found, an empty bucket was taken, or `p_insert` made room (under the room rule of
the type) — the model's `insert` returns the same answer, member count and slice.  (Growth, conversions and the plain
table's placeholder handling stay hand-modelled and tied by runs.) -/
namespace SC
open RH (Tbl get put)
open Plain2

variable {D : Type}

theorem or_bit_testBit (w off : Nat) : (decide ((w &&& (1 <<< off)) ≠ 0)) = w.testBit off := and_bit_ne_zero w off

/-! ### `setu64.rs` -/

theorem insert_dense_64_eq (g : Rng D) (rec : Ins D) (e sz cap : Nat) (a : Tbl) (hc : cap = a.size) (d : D)
    {res : (Bool × Nat) × Array Nat} (h : Gen.insert_dense_64 e sz a = .ok res) :
    insertDense cfg64 g rec sz cap a e d = armOut cap 64 d (.ok res) := by
  subst hc
  simp only [Gen.insert_dense_64, Gen.RI.idx, Gen.RI.set, and_bit_ne_zero, and_63] at h
  simp only [insertDense, show cfg64.dShift = 6 from rfl, show cfg64.W = 64 from rfl, RH.get.eq_1, RH.put.eq_1]
  by_cases hk : e >>> 6 < a.size
  · simp only [hk, if_true] at h ⊢
    cases hp : (a.getD (e >>> 6) 0).testBit (e % 64) <;> simp only [hp] at h ⊢ <;>
      simp only [Bool.not_false, Bool.not_true, if_true, Bool.false_eq_true, if_false, Except.ok.injEq] at h <;>
      subst h <;> rfl
  · simp only [hk, if_false] at h
    cases h

theorem insert_heap_64_eq (g : Rng D) (rec : Ins D) (e sz cap bits : Nat) (a : Tbl) (he : e < 2 ^ 64)
    (hb : 0 < bits ∧ bits < 64) (d : D) {res : (Bool × Nat) × Array Nat} (h : Gen.insert_heap_64 e sz bits a = .ok res) :
    insertBitmap cfg64 g rec sz cap bits a e d = armOut cap bits d (.ok res) := by
  simp only [Gen.insert_heap_64, compute_array_bits_64_eq e he, split_64_eq e bits hb.1, RH.p_lookfor_64_eq,
    RH.p_insert_64_eq, Gen.RI.idx, Gen.RI.set] at h
  unfold insertBitmap
  dsimp only
  by_cases hcab : cfg64.cab e < bits
  · simp only [hcab, if_true] at h
    cases h
  · simp only [hcab, if_false] at h ⊢
    have hlt : e / bits < 2 ^ (64 - bits) := by
      have h' := cfg64_ok.cab_bound e bits he hb.1 hb.2 (by omega)
      have h64 : cfg64.W = 64 := rfl
      rw [h64] at h'
      exact Nat.lt_of_le_of_lt (Nat.div_le_self e bits) h'
    have hmod : modW cfg64 ((e / bits) <<< bits) = (e / bits) <<< bits :=
      shiftLeft_mod_of_lt (W := 64) (by omega) hlt
    rw [hmod]
    cases hl : RH.lookfor (e / bits) a bits with
    | found idx =>
      simp only [hl, RH.convLooked, RH.get.eq_1, RH.put.eq_1] at h ⊢
      have hbit := and_bit_ne_zero (a.getD idx 0) (e % bits)
      cases ht : (a.getD idx 0).testBit (e % bits)
      · have heq : (a.getD idx 0 &&& (1 <<< (e % bits))) = 0 := by
          rw [ht] at hbit; simpa using hbit
        simp only [heq, ne_eq, not_true_eq_false, if_false, Except.ok.injEq] at h
        subst h
        simp [armOut, pure, StateT.pure, Except.pure]
      · have hne : (a.getD idx 0 &&& (1 <<< (e % bits))) ≠ 0 := by
          rw [ht] at hbit; exact of_decide_eq_true hbit
        simp only [hne, ne_eq, not_false_eq_true, if_true, Except.ok.injEq] at h
        subst h
        simp [armOut, pure, StateT.pure, Except.pure]
    | empty idx =>
      simp only [hl, RH.convLooked, RH.put.eq_1, Except.ok.injEq] at h
      subst h
      simp [tablePlace, hl, armOut, pure, StateT.pure, Except.pure, RH.put.eq_1]
    | needInsert =>
      simp only [hl, RH.convLooked] at h
      have hroom : hasRoom cfg64 a = Gen.RI.anyzero a := rfl
      by_cases hr : Gen.RI.anyzero a = true
      · simp only [hr, if_true] at h
        cases hp : RH.pinsert (e / bits) a bits with
        | error x => rw [hp] at h; cases x <;> cases h
        | ok q =>
          obtain ⟨idx, a'⟩ := q
          rw [hp] at h
          simp only [RH.convErr, Except.ok.injEq] at h
          subst h
          simp [tablePlace, hl, hroom, hr, hp, armOut, pure, StateT.pure, Except.pure, RH.put.eq_1]
      · simp only [hr, Bool.false_eq_true, if_false] at h
        cases h

/-! ### `setu32.rs` (tables below 2^32 buckets; the room rule is "more than 1/16 of the buckets empty") -/

theorem insert_dense_32_eq (g : Rng D) (rec : Ins D) (e sz cap : Nat) (a : Tbl) (hc : cap = a.size) (d : D)
    {res : (Bool × Nat) × Array Nat} (h : Gen.insert_dense_32 e sz a = .ok res) :
    insertDense cfg32 g rec sz cap a e d = armOut cap 32 d (.ok res) := by
  subst hc
  simp only [Gen.insert_dense_32, Gen.RI.idx, Gen.RI.set, and_bit_ne_zero, and_31] at h
  simp only [insertDense, show cfg32.dShift = 5 from rfl, show cfg32.W = 32 from rfl, RH.get.eq_1, RH.put.eq_1]
  by_cases hk : e >>> 5 < a.size
  · simp only [hk, if_true] at h ⊢
    cases hp : (a.getD (e >>> 5) 0).testBit (e % 32) <;> simp only [hp] at h ⊢ <;>
      simp only [Bool.not_false, Bool.not_true, if_true, Bool.false_eq_true, if_false, Except.ok.injEq] at h <;>
      subst h <;> rfl
  · simp only [hk, if_false] at h
    cases h

theorem insert_heap_32_eq (g : Rng D) (rec : Ins D) (e sz cap bits : Nat) (a : Tbl) (he : e < 2 ^ 32)
    (hb : 0 < bits ∧ bits < 32)
    (hn : a.size < 2 ^ 32) (d : D) {res : (Bool × Nat) × Array Nat} (h : Gen.insert_heap_32 e sz bits a = .ok res) :
    insertBitmap cfg32 g rec sz cap bits a e d = armOut cap bits d (.ok res) := by
  simp only [Gen.insert_heap_32, compute_array_bits_32_eq e he, split_32_eq e bits hb.1, RH.p_lookfor_32_eq _ a _ hn,
    RH.p_insert_32_eq _ a _ hn, Gen.RI.idx, Gen.RI.set] at h
  unfold insertBitmap
  dsimp only
  by_cases hcab : cfg32.cab e < bits
  · simp only [hcab, if_true] at h
    cases h
  · simp only [hcab, if_false] at h ⊢
    have hlt : e / bits < 2 ^ (32 - bits) := by
      have h' := cfg32_ok.cab_bound e bits he hb.1 hb.2 (by omega)
      have h32w : cfg32.W = 32 := rfl
      rw [h32w] at h'
      exact Nat.lt_of_le_of_lt (Nat.div_le_self e bits) h'
    have hmod : modW cfg32 ((e / bits) <<< bits) = (e / bits) <<< bits :=
      shiftLeft_mod_of_lt (W := 32) (by omega) hlt
    rw [hmod]
    cases hl : RH.lookfor (e / bits) a bits with
    | found idx =>
      simp only [hl, RH.convLooked, RH.get.eq_1, RH.put.eq_1] at h ⊢
      have hbit := and_bit_ne_zero (a.getD idx 0) (e % bits)
      cases ht : (a.getD idx 0).testBit (e % bits)
      · have heq : (a.getD idx 0 &&& (1 <<< (e % bits))) = 0 := by
          rw [ht] at hbit; simpa using hbit
        simp only [heq, ne_eq, not_true_eq_false, if_false, Except.ok.injEq] at h
        subst h
        simp [armOut, pure, StateT.pure, Except.pure]
      · have hne : (a.getD idx 0 &&& (1 <<< (e % bits))) ≠ 0 := by
          rw [ht] at hbit; exact of_decide_eq_true hbit
        simp only [hne, ne_eq, not_false_eq_true, if_true, Except.ok.injEq] at h
        subst h
        simp [armOut, pure, StateT.pure, Except.pure]
    | empty idx =>
      simp only [hl, RH.convLooked, RH.put.eq_1, Except.ok.injEq] at h
      subst h
      simp [tablePlace, hl, armOut, pure, StateT.pure, Except.pure, RH.put.eq_1]
    | needInsert =>
      simp only [hl, RH.convLooked] at h
      have hroom : hasRoom cfg32 a = Gen.RI.room16 a := rfl
      by_cases hr : Gen.RI.room16 a = true
      · simp only [hr, if_true] at h
        cases hp : RH.pinsert (e / bits) a bits with
        | error x => rw [hp] at h; cases x <;> cases h
        | ok q =>
          obtain ⟨idx, a'⟩ := q
          rw [hp] at h
          simp only [RH.convErr, Except.ok.injEq] at h
          subst h
          simp [tablePlace, hl, hroom, hr, hp, armOut, pure, StateT.pure, Except.pure, RH.put.eq_1]
      · simp only [hr, Bool.false_eq_true, if_false] at h
        cases h


/-! ### at the level of `insert` -/

/-- `SetU64::insert` on a dense set: if the translated arm returns (the element's word exists), `insert` of the model
returns the same answer, member count and slice -/
theorem insert_dense_is_the_source_u64 (g : Rng D) (fuel e sz cap : Nat) (a : Tbl) (hc : cap = a.size) (d : D)
    {res : (Bool × Nat) × Array Nat} (h : Gen.insert_dense_64 e sz a = .ok res) :
    insert cfg64 g (fuel + 1) (.heap sz cap 64 a) e d = armOut cap 64 d (.ok res) := by
  have hd : isDense cfg64 64 = true := by simp [isDense, cfg64]
  simp only [insert, insertStep, hd, if_true]
  exact insert_dense_64_eq g _ e sz cap a hc d h
/-- … on a bitmap table: the key was found, an empty bucket was taken, or `p_insert` made room -/
theorem insert_heap_is_the_source_u64 (g : Rng D) (fuel e sz cap bits : Nat) (a : Tbl) (he : e < 2 ^ 64)
    (hb : 0 < bits ∧ bits < 64) (d : D) {res : (Bool × Nat) × Array Nat} (h : Gen.insert_heap_64 e sz bits a = .ok res) :
    insert cfg64 g (fuel + 1) (.heap sz cap bits a) e d = armOut cap bits d (.ok res) := by
  have h1 : isDense cfg64 bits = false := by simp [isDense, cfg64]; omega
  have h2 : isPlain cfg64 bits = false := by simp [isPlain, cfg64]; omega
  simp only [insert, insertStep, h1, h2, Bool.false_eq_true, if_false]
  exact insert_heap_64_eq g _ e sz cap bits a he hb d h
theorem insert_dense_is_the_source_u32 (g : Rng D) (fuel e sz cap : Nat) (a : Tbl) (hc : cap = a.size) (d : D)
    {res : (Bool × Nat) × Array Nat} (h : Gen.insert_dense_32 e sz a = .ok res) :
    insert cfg32 g (fuel + 1) (.heap sz cap 32 a) e d = armOut cap 32 d (.ok res) := by
  have hd : isDense cfg32 32 = true := by simp [isDense, cfg32]
  simp only [insert, insertStep, hd, if_true]
  exact insert_dense_32_eq g _ e sz cap a hc d h
theorem insert_heap_is_the_source_u32 (g : Rng D) (fuel e sz cap bits : Nat) (a : Tbl) (he : e < 2 ^ 32)
    (hb : 0 < bits ∧ bits < 32) (hn : a.size < 2 ^ 32) (d : D) {res : (Bool × Nat) × Array Nat}
    (h : Gen.insert_heap_32 e sz bits a = .ok res) :
    insert cfg32 g (fuel + 1) (.heap sz cap bits a) e d = armOut cap bits d (.ok res) := by
  have h1 : isDense cfg32 bits = false := by simp [isDense, cfg32]; omega
  have h2 : isPlain cfg32 bits = false := by simp [isPlain, cfg32]; omega
  simp only [insert, insertStep, h1, h2, Bool.false_eq_true, if_false]
  exact insert_heap_32_eq g _ e sz cap bits a he hb hn d h


/-! ### the plain table (`Big`) arm -/

/-- (answer, member count, placeholder, slice) of the plain-table arm as a set -/
def armOutB (cap : Nat) (d : D) : Except String ((Bool × Nat × Nat) × Array Nat) → Except Err ((Rp × Bool) × D)
  | .ok ((b, sz, bits), a) => .ok ((.heap sz cap bits a, b), d)
  | .error _ => .error .unreachable

theorem insert_big_64_eq (g : Rng D) (e sz cap bits : Nat) (a : Tbl) (d : D) {res : (Bool × Nat × Nat) × Array Nat}
    (h : Gen.insert_big_64 e sz bits a = .ok res) :
    insertPlain cfg64 g sz cap bits a e d = armOutB cap d (.ok res) := by
  simp only [Gen.insert_big_64, Gen.insert_big_64_join1, RH.p_lookfor_64_eq, RH.p_insert_64_eq, Gen.RI.set] at h
  by_cases hp : e = bits
  · simp only [hp, if_true] at h
    cases h
  · simp only [hp, if_false] at h
    unfold insertPlain
    simp only [hp, if_false, bind, StateT.bind, Except.bind, pure, StateT.pure, Except.pure]
    generalize (if e = 0 then bits else e) = e' at h ⊢
    cases hl : RH.lookfor e' a 0 with
    | found idx =>
      simp only [hl, RH.convLooked, Except.ok.injEq] at h
      subst h
      rfl
    | empty idx =>
      simp only [hl, RH.convLooked, Except.ok.injEq] at h
      subst h
      simp [tablePlace, hl, armOutB, RH.put.eq_1, pure, StateT.pure, Except.pure]
    | needInsert =>
      simp only [hl, RH.convLooked] at h
      have hroom : hasRoom cfg64 a = Gen.RI.anyzero a := rfl
      by_cases hr : Gen.RI.anyzero a = true
      · simp only [hr, if_true] at h
        cases hpi : RH.pinsert e' a 0 with
        | error x => rw [hpi] at h; cases x <;> cases h
        | ok q =>
          obtain ⟨idx, a'⟩ := q
          rw [hpi] at h
          simp only [RH.convErr, Except.ok.injEq] at h
          subst h
          simp [tablePlace, hl, hroom, hr, hpi, armOutB, RH.put.eq_1, pure, StateT.pure, Except.pure]
      · simp only [hr, Bool.false_eq_true, if_false, Gen.insert_big_64_join2] at h
        cases h

theorem insert_big_32_eq (g : Rng D) (e sz cap bits : Nat) (a : Tbl) (hn : a.size < 2 ^ 32) (d : D)
    {res : (Bool × Nat × Nat) × Array Nat} (h : Gen.insert_big_32 e sz bits a = .ok res) :
    insertPlain cfg32 g sz cap bits a e d = armOutB cap d (.ok res) := by
  simp only [Gen.insert_big_32, Gen.insert_big_32_join1, RH.p_lookfor_32_eq _ a _ hn, RH.p_insert_32_eq _ a _ hn, Gen.RI.set] at h
  by_cases hp : e = bits
  · simp only [hp, if_true] at h
    cases h
  · simp only [hp, if_false] at h
    unfold insertPlain
    simp only [hp, if_false, bind, StateT.bind, Except.bind, pure, StateT.pure, Except.pure]
    generalize (if e = 0 then bits else e) = e' at h ⊢
    cases hl : RH.lookfor e' a 0 with
    | found idx =>
      simp only [hl, RH.convLooked, Except.ok.injEq] at h
      subst h
      rfl
    | empty idx =>
      simp only [hl, RH.convLooked, Except.ok.injEq] at h
      subst h
      simp [tablePlace, hl, armOutB, RH.put.eq_1, pure, StateT.pure, Except.pure]
    | needInsert =>
      simp only [hl, RH.convLooked] at h
      have hroom : hasRoom cfg32 a = Gen.RI.room16 a := rfl
      by_cases hr : Gen.RI.room16 a = true
      · simp only [hr, if_true] at h
        cases hpi : RH.pinsert e' a 0 with
        | error x => rw [hpi] at h; cases x <;> cases h
        | ok q =>
          obtain ⟨idx, a'⟩ := q
          rw [hpi] at h
          simp only [RH.convErr, Except.ok.injEq] at h
          subst h
          simp [tablePlace, hl, hroom, hr, hpi, armOutB, RH.put.eq_1, pure, StateT.pure, Except.pure]
      · simp only [hr, Bool.false_eq_true, if_false, Gen.insert_big_32_join2] at h
        cases h

/-- `SetU64::insert` on a plain table, for an element other than the placeholder: if the translated arm returns,
`insert` of the model returns the same -/
theorem insert_big_is_the_source_u64 (g : Rng D) (fuel e sz cap bits : Nat) (a : Tbl) (hb : bits = 0 ∨ bits > 64) (d : D)
    {res : (Bool × Nat × Nat) × Array Nat} (h : Gen.insert_big_64 e sz bits a = .ok res) :
    insert cfg64 g (fuel + 1) (.heap sz cap bits a) e d = armOutB cap d (.ok res) := by
  have h1 : isDense cfg64 bits = false := by simp [isDense, cfg64]; omega
  have h2 : isPlain cfg64 bits = true := by simp [isPlain, cfg64]; omega
  simp only [insert, insertStep, h1, h2, Bool.false_eq_true, if_false, if_true]
  exact insert_big_64_eq g e sz cap bits a d h
theorem insert_big_is_the_source_u32 (g : Rng D) (fuel e sz cap bits : Nat) (a : Tbl) (hb : bits = 0 ∨ bits > 32)
    (hn : a.size < 2 ^ 32) (d : D) {res : (Bool × Nat × Nat) × Array Nat} (h : Gen.insert_big_32 e sz bits a = .ok res) :
    insert cfg32 g (fuel + 1) (.heap sz cap bits a) e d = armOutB cap d (.ok res) := by
  have h1 : isDense cfg32 bits = false := by simp [isDense, cfg32]; omega
  have h2 : isPlain cfg32 bits = true := by simp [isPlain, cfg32]; omega
  simp only [insert, insertStep, h1, h2, Bool.false_eq_true, if_false, if_true]
  exact insert_big_32_eq g e sz cap bits a hn d h


/-! ### the plain table arm when the element IS the placeholder: re-selection, then the in-place paths -/

theorem cascade_size (off n stolen : Nat) : ∀ (fuel j : Nat) (a : Tbl) (dd pd : Nat) (a' : Tbl),
    RH.cascade off n stolen fuel j a dd pd = .ok a' → a'.size = a.size := by
  intro fuel
  induction fuel with
  | zero => intro j a dd pd a' h; cases h
  | succ f ih =>
    intro j a dd pd a' h
    simp only [RH.cascade] at h
    split at h
    · cases h; simp [RH.put]
    · split at h
      · have := ih _ _ _ _ _ h; simpa [RH.put] using this
      · exact ih _ _ _ _ _ h

theorem pinsertAux_size (k off n : Nat) : ∀ (fuel p : Nat) (a : Tbl) (idx : Nat) (a' : Tbl),
    RH.pinsertAux k off n fuel p a = .ok (idx, a') → a'.size = a.size := by
  intro fuel
  induction fuel with
  | zero => intro p a idx a' h; cases h
  | succ f ih =>
    intro p a idx a' h
    simp only [RH.pinsertAux] at h
    split at h
    · cases h; rfl
    · split at h
      · cases hc : RH.cascade off n (RH.slot n (k % n) p) (n - 1) 1 (RH.put a (RH.slot n (k % n) p) 0)
            (RH.get a (RH.slot n (k % n) p)) (RH.pov (RH.get a (RH.slot n (k % n) p) >>> off) (RH.slot n (k % n) p) n) with
        | error x => rw [hc] at h; cases h
        | ok a2 =>
          rw [hc] at h
          simp only [Except.map, Except.ok.injEq, Prod.mk.injEq] at h
          obtain ⟨_, rfl⟩ := h
          have := cascade_size _ _ _ _ _ _ _ _ _ hc
          simpa [RH.put] using this
      · exact ih _ _ _ _ h

theorem pinsert_size {k : Nat} {a : Tbl} {off idx : Nat} {a' : Tbl} (h : RH.pinsert k a off = .ok (idx, a')) :
    a'.size = a.size := pinsertAux_size k off a.size a.size 0 a idx a' h

theorem scan_while_64 (a1 : Tbl) (e : Nat) : ∀ (fuel i j : Nat), scanUp cfg64 a1.toList e fuel i = some j →
    Gen.RI.whileN fuel (fun i => decide (((i ≤ 64) ∨ (i = e)) ∨ (Gen.RI.hasWord a1 i))) (fun i => (i + 1) % 18446744073709551616) i = j := by
  intro fuel
  induction fuel with
  | zero => intro i j h; cases h
  | succ f ih =>
    intro i j h
    simp only [scanUp, show cfg64.W = 64 from rfl] at h
    simp only [Gen.RI.whileN]
    by_cases hc : i ≤ 64 ∨ i = e ∨ a1.toList.contains i = true
    · rw [if_pos hc] at h
      have hc' : decide ((i ≤ 64 ∨ i = e) ∨ Gen.RI.hasWord a1 i = true) = true := by
        rw [decide_eq_true_eq, or_assoc]; exact hc
      rw [if_pos hc']
      exact ih _ _ h
    · rw [if_neg hc] at h
      have hc' : ¬ decide ((i ≤ 64 ∨ i = e) ∨ Gen.RI.hasWord a1 i = true) = true := by
        rw [decide_eq_true_eq, or_assoc]; exact hc
      rw [if_neg hc']
      exact (Option.some.inj h)

theorem scan_while_32 (a1 : Tbl) (e : Nat) : ∀ (fuel i j : Nat), scanUp cfg32 a1.toList e fuel i = some j →
    Gen.RI.whileN fuel (fun i => decide (((i ≤ 32) ∨ (i = e)) ∨ (Gen.RI.hasWord a1 i))) (fun i => (i + 1) % 4294967296) i = j := by
  intro fuel
  induction fuel with
  | zero => intro i j h; cases h
  | succ f ih =>
    intro i j h
    simp only [scanUp, show cfg32.W = 32 from rfl] at h
    simp only [Gen.RI.whileN]
    by_cases hc : i ≤ 32 ∨ i = e ∨ a1.toList.contains i = true
    · rw [if_pos hc] at h
      have hc' : decide ((i ≤ 32 ∨ i = e) ∨ Gen.RI.hasWord a1 i = true) = true := by
        rw [decide_eq_true_eq, or_assoc]; exact hc
      rw [if_pos hc']
      exact ih _ _ h
    · rw [if_neg hc] at h
      have hc' : ¬ decide ((i ≤ 32 ∨ i = e) ∨ Gen.RI.hasWord a1 i = true) = true := by
        rw [decide_eq_true_eq, or_assoc]; exact hc
      rw [if_neg hc']
      exact (Option.some.inj h)

/-- model side: after a successful re-selection `insertPlain` continues exactly as `insertPlain` on the new slice and
    placeholder (the element is no longer the placeholder) -/
theorem insertPlain_repick (c : Cfg) (g : Rng D) (sz cap bits : Nat) (a : Tbl) (d : D) {hz : Bool} {a1 a2 : Tbl} {i : Nat}
    (hprem : RH.premove bits a 0 = (hz, a1))
    (hscan : scanUp c a1.toList bits (a1.size + c.W + 3) (modW c (g.draw d cap bits).1) = some i)
    (hplace : if hz = true then placeRaw (D := D) i a1 (g.draw d cap bits).2 = .ok (a2, (g.draw d cap bits).2) else a2 = a1)
    (hne : bits ≠ i) :
    insertPlain c g sz cap bits a bits d = insertPlain c g sz cap i a2 bits (g.draw d cap bits).2 := by
  unfold insertPlain
  simp only [if_true, if_neg hne, hprem, bind, StateT.bind, Except.bind, drawM_run, hscan, pure, StateT.pure, Except.pure]
  cases hz
  · simp only [Bool.false_eq_true, if_false] at hplace ⊢
    subst hplace
    rfl
  · simp only [if_true] at hplace ⊢
    simp only [StateT.bind, Except.bind, hplace, pure, StateT.pure, Except.pure]
    rfl

theorem bigfull_join_64 (e sz bits : Nat) (a : Tbl) (r : Nat) (hne : e ≠ bits) :
    Gen.insert_bigfull_64_join1 e sz bits a r = Gen.insert_big_64 e sz bits a := by
  unfold Gen.insert_big_64 Gen.insert_bigfull_64_join1 Gen.insert_big_64_join1 Gen.insert_bigfull_64_join2 Gen.insert_big_64_join2
  rw [if_neg hne]
theorem bigfull_join_32 (e sz bits : Nat) (a : Tbl) (r : Nat) (hne : e ≠ bits) :
    Gen.insert_bigfull_32_join1 e sz bits a r = Gen.insert_big_32 e sz bits a := by
  unfold Gen.insert_big_32 Gen.insert_bigfull_32_join1 Gen.insert_big_32_join1 Gen.insert_bigfull_32_join2 Gen.insert_big_32_join2
  rw [if_neg hne]

/-- `SetU64::insert` of the placeholder value itself: remove the stand-in for 0 if present, one draw, scan upward to the
first usable value (not ≤ 64, not the old placeholder, not a word of the table), re-insert the stand-in, then the
in-place paths — as translated; whenever it returns, the model's `insertPlain` returns the same set, answer and
generator state (tables of fewer than 2^64 − 67 buckets) -/
theorem insert_bigfull_64_eq (g : Rng D) (sz cap bits : Nat) (a : Tbl) (d : D) (hsmall : a.size + 64 + 3 ≤ 2 ^ 64)
    {res : (Bool × Nat × Nat) × Array Nat}
    (h : Gen.insert_bigfull_64 bits sz bits a (modW cfg64 (g.draw d cap bits).1) = .ok res) :
    insertPlain cfg64 g sz cap bits a bits d = armOutB cap (g.draw d cap bits).2 (.ok res) := by
  simp only [Gen.insert_bigfull_64, if_true, RH.p_remove_64_eq, RH.p_insert_64_eq, Gen.RI.set] at h
  cases hpm : RH.premove bits a 0 with
  | mk hz a1 =>
    have hsz : a1.size = a.size := by have := premove_size bits a 0; rw [hpm] at this; exact this
    obtain ⟨i, hs, hgt, hne, _⟩ := scanUp_terminates cfg64 a1.toList bits (modW cfg64 (g.draw d cap bits).1)
      (modW_lt _) (by simp only [Array.length_toList, hsz]; exact hsmall)
    simp only [Array.length_toList, show cfg64.W = 64 from rfl] at hs
    have hw := scan_while_64 a1 bits _ _ _ hs
    rw [hpm] at h
    simp only [hw] at h
    cases hz
    · simp only [Bool.false_eq_true, if_false] at h
      rw [bigfull_join_64 bits sz i a1 _ (Ne.symm hne)] at h
      rw [insertPlain_repick cfg64 g sz cap bits a d (a2 := a1) hpm hs (by simp) (Ne.symm hne)]
      exact insert_big_64_eq g bits sz cap i a1 _ h
    · simp only [if_true] at h
      cases hpi : RH.pinsert i a1 0 with
      | error x => rw [hpi] at h; cases x <;> cases h
      | ok q =>
        obtain ⟨idx0, a1'⟩ := q
        rw [hpi] at h
        simp only [RH.convErr] at h
        rw [bigfull_join_64 bits sz i _ _ (Ne.symm hne)] at h
        rw [insertPlain_repick cfg64 g sz cap bits a d (a2 := RH.put a1' idx0 i) hpm hs
          (by simp [placeRaw, hpi, pure, StateT.pure, Except.pure]) (Ne.symm hne)]
        exact insert_big_64_eq g bits sz cap i _ _ h

theorem insert_bigfull_32_eq (g : Rng D) (sz cap bits : Nat) (a : Tbl) (d : D) (hsmall : a.size + 32 + 3 ≤ 2 ^ 31)
    {res : (Bool × Nat × Nat) × Array Nat}
    (h : Gen.insert_bigfull_32 bits sz bits a (modW cfg32 (g.draw d cap bits).1) = .ok res) :
    insertPlain cfg32 g sz cap bits a bits d = armOutB cap (g.draw d cap bits).2 (.ok res) := by
  simp only [Gen.insert_bigfull_32, if_true, RH.p_remove_32_eq _ a _ (by omega), Gen.RI.set] at h
  cases hpm : RH.premove bits a 0 with
  | mk hz a1 =>
    have hsz : a1.size = a.size := by have := premove_size bits a 0; rw [hpm] at this; exact this
    obtain ⟨i, hs, hgt, hne, _⟩ := scanUp_terminates cfg32 a1.toList bits (modW cfg32 (g.draw d cap bits).1)
      (modW_lt _) (by simp only [Array.length_toList, hsz, show cfg32.W = 32 from rfl]; omega)
    simp only [Array.length_toList, show cfg32.W = 32 from rfl] at hs
    have hw := scan_while_32 a1 bits _ _ _ hs
    rw [hpm] at h
    simp only [hw] at h
    cases hz
    · simp only [Bool.false_eq_true, if_false] at h
      rw [bigfull_join_32 bits sz i a1 _ (Ne.symm hne)] at h
      rw [insertPlain_repick cfg32 g sz cap bits a d (a2 := a1) hpm hs (by simp) (Ne.symm hne)]
      exact insert_big_32_eq g bits sz cap i a1 (by omega) _ h
    · simp only [if_true] at h
      rw [RH.p_insert_32_eq _ a1 _ (by omega)] at h
      cases hpi : RH.pinsert i a1 0 with
      | error x => rw [hpi] at h; cases x <;> cases h
      | ok q =>
        obtain ⟨idx0, a1'⟩ := q
        rw [hpi] at h
        simp only [RH.convErr] at h
        rw [bigfull_join_32 bits sz i _ _ (Ne.symm hne)] at h
        rw [insertPlain_repick cfg32 g sz cap bits a d (a2 := RH.put a1' idx0 i) hpm hs
          (by simp [placeRaw, hpi, pure, StateT.pure, Except.pure]) (Ne.symm hne)]
        have hsz2 : (RH.put a1' idx0 i).size < 2 ^ 32 := by
          have := pinsert_size hpi
          simp only [RH.put, Array.size_setIfInBounds]
          omega
        exact insert_big_32_eq g bits sz cap i _ hsz2 _ h

/-- `SetU64::insert` of the placeholder value itself on a plain table: whenever the translated arm (re-selection
included, the draw a parameter) returns, the model's `insert` returns the same set, answer and generator state -/
theorem insert_placeholder_is_the_source_u64 (g : Rng D) (fuel sz cap bits : Nat) (a : Tbl)
    (hb : bits = 0 ∨ bits > 64) (d : D) (hsmall : a.size + 64 + 3 ≤ 2 ^ 64) {res : (Bool × Nat × Nat) × Array Nat}
    (h : Gen.insert_bigfull_64 bits sz bits a (modW cfg64 (g.draw d cap bits).1) = .ok res) :
    insert cfg64 g (fuel + 1) (.heap sz cap bits a) bits d = armOutB cap (g.draw d cap bits).2 (.ok res) := by
  have h1 : isDense cfg64 bits = false := by simp [isDense, cfg64]; omega
  have h2 : isPlain cfg64 bits = true := by simp [isPlain, cfg64]; omega
  simp only [insert, insertStep, h1, h2, Bool.false_eq_true, if_false, if_true]
  exact insert_bigfull_64_eq g sz cap bits a d hsmall h

/-- `SetU32::insert` of the placeholder value itself on a plain table: whenever the translated arm (re-selection
included, the draw a parameter) returns, the model's `insert` returns the same set, answer and generator state -/
theorem insert_placeholder_is_the_source_u32 (g : Rng D) (fuel sz cap bits : Nat) (a : Tbl)
    (hb : bits = 0 ∨ bits > 32) (d : D) (hsmall : a.size + 32 + 3 ≤ 2 ^ 31) {res : (Bool × Nat × Nat) × Array Nat}
    (h : Gen.insert_bigfull_32 bits sz bits a (modW cfg32 (g.draw d cap bits).1) = .ok res) :
    insert cfg32 g (fuel + 1) (.heap sz cap bits a) bits d = armOutB cap (g.draw d cap bits).2 (.ok res) := by
  have h1 : isDense cfg32 bits = false := by simp [isDense, cfg32]; omega
  have h2 : isPlain cfg32 bits = true := by simp [isPlain, cfg32]; omega
  simp only [insert, insertStep, h1, h2, Bool.false_eq_true, if_false, if_true]
  exact insert_bigfull_32_eq g sz cap bits a d hsmall h

end SC

#print axioms SC.insert_heap_64_eq
#print axioms SC.insert_heap_is_the_source_u32
#print axioms SC.insert_big_is_the_source_u32
#print axioms SC.insert_bigfull_64_eq
#print axioms SC.insert_bigfull_32_eq
#print axioms SC.insert_placeholder_is_the_source_u64
#print axioms SC.insert_placeholder_is_the_source_u32
