import TinysetModel.Proofs.Plain2
import TinysetModel.Proofs.Bitmap
import TinysetModel.Proofs.Stack
import TinysetModel.Model.Ops
/-! The few facts of `Proofs/CapSpec.lean` that depend on the exact shape of `WF` and on the exact
hypotheses of the constructor lemmas (`withCapBits_ok`, `withCapMax_ok`, `WF_replicate`).  They are kept
in this file so that a change of the plain clause of `WF` (the extra conjunct `bits < 2 ^ c.W`) only
touches these wrappers: every wrapper already carries the hypothesis `bits < 2 ^ c.W` it would then need. -/
namespace SC
namespace Cap
open RH

variable {c : Cfg} {D : Type}

/-- `withCapBits` returns a well-formed set (`_hb` is unused today; it is what the constructor lemma is
    about to require) -/
theorem withCapBits_wf (ok : CfgOK c) (g : Rng D) (cap bits : Nat) (hb : bits < 2 ^ c.W) {d d' : D} {r : Rp}
    (h : withCapBits c g cap bits d = .ok (r, d')) : WF c r :=
  (withCapBits_ok ok g _ _ hb _ _ _ h).1

theorem withCapMax_wf (ok : CfgOK c) (g : Rng D) (cap mx : Nat) (_hb : c.cab mx < 2 ^ c.W) {d d' : D} {r : Rp}
    (h : withCapMax c g cap mx d = .ok (r, d')) : WF c r :=
  (withCapMax_ok ok g _ _ _ _ _ h).1

theorem denseWithMax_wf (ok : CfgOK c) (mx : Nat) : WF c (denseWithMax c mx) := (denseWithMax_ok ok mx).1

/-- the three heap layouts, from `WF` -/
theorem heap_cases {sz cap bits : Nat} {a : Tbl} (wf : WF c (.heap sz cap bits a)) :
    (bits = c.W ∧ DenseWF c sz cap a) ∨
    (isDense c bits = false ∧ isPlain c bits = true ∧ PlainWF bits sz a ∧ cap = a.size ∧ c.W < bits ∧
      (∀ x ∈ nz a, x < 2 ^ c.W) ∧ bits < 2 ^ c.W) ∨
    (isDense c bits = false ∧ isPlain c bits = false ∧ BitmapWF c sz cap bits a) := by
  by_cases hd : isDense c bits = true
  · have hb : bits = c.W := of_decide_eq_true hd
    subst hb
    rw [WF_dense] at wf
    exact Or.inl ⟨rfl, wf⟩
  · have hd' : isDense c bits = false := by simpa using hd
    by_cases hp : isPlain c bits = true
    · exact Or.inr (Or.inl ⟨hd', hp, Plain2.plain_unfold wf hp hd'⟩)
    · have hp' : isPlain c bits = false := by simpa using hp
      exact Or.inr (Or.inr ⟨hd', hp', (WF_bitmap hd' hp').1 wf⟩)

/-- `with_capacity_of` of a well-formed set is well formed -/
theorem withCapOf_wf (ok : CfgOK c) {r : Rp} (wf : WF c r) : WF c (withCapOf r) := by
  match r, wf with
  | .empty, _ => exact trivial
  | .stack _, _ => exact trivial
  | .heap sz cap bits a, wf =>
    show WF c (.heap 0 cap bits (Array.replicate cap 0))
    have hWlt : c.W < 2 ^ c.W := Nat.lt_two_pow_self
    rcases heap_cases wf with ⟨hb, dw⟩ | ⟨_, _, pw, hcap, hW, _, hlt⟩ | ⟨_, _, bw⟩
    · exact WF_replicate c dw.cap_pos (by have := ok.W_pos; omega) (by omega)
    · exact WF_replicate c (by have := pw.npos; omega) (by omega) hlt
    · exact WF_replicate c bw.cap_pos (by have := bw.bits_pos; omega) (by have := bw.bits_lt; omega)

end Cap
end SC
