import TinysetModel.Proofs.Rebuild
/-! The dense-bitset layout `Rp.heap sz cap c.W a`: word `i` of `a` holds the members `i*W .. i*W+W-1`. -/
namespace SC
open RH

variable {c : Cfg}

/-! ### basic facts -/

theorem isDense_W (c : Cfg) : isDense c c.W = true := by simp [isDense]

theorem isPlain_W (ok : CfgOK c) : isPlain c c.W = false := by
  have := ok.W_pos
  simp [isPlain]; omega

theorem W_pos' (ok : CfgOK c) : 0 < c.W := by have := ok.W_pos; omega

theorem shr_dShift (ok : CfgOK c) (e : Nat) : e >>> c.dShift = e / c.W := by
  rw [Nat.shiftRight_eq_div_pow, ← ok.W_eq]

theorem WF_dense (c : Cfg) {sz cap : Nat} {a : Tbl} : WF c (.heap sz cap c.W a) = DenseWF c sz cap a := by
  simp [WF, isDense_W]

theorem toList_getElem?_eq_some {a : Tbl} {i w : Nat} : a.toList[i]? = some w ↔ (i < a.size ∧ get a i = w) := by
  by_cases hi : i < a.size
  · simp [RH.get, Array.getD_eq_getD_getElem?, hi]
  · simp [hi]

theorem elems_dense_eq (ok : CfgOK c) {sz cap : Nat} {a : Tbl} :
    elems c (.heap sz cap c.W a) =
      (a.toList.zipIdx).flatMap (fun (w, i) => (bitsOf w c.W).map (fun b => i * c.W + b)) := by
  simp [elems, isDense_W, isPlain_W ok]

/-! ### 1. membership -/

theorem mem_elems_dense (ok : CfgOK c) {sz cap : Nat} {a : Tbl} (x : Nat) :
    x ∈ elems c (.heap sz cap c.W a) ↔ (x / c.W < a.size ∧ (get a (x / c.W)).testBit (x % c.W) = true) := by
  rw [elems_dense_eq ok, List.mem_flatMap]
  have hW := W_pos' ok
  constructor
  · rintro ⟨⟨w, i⟩, hp, hx⟩
    rw [List.mem_zipIdx_iff_getElem?] at hp
    obtain ⟨hi, hg⟩ := toList_getElem?_eq_some.1 hp
    simp only [List.mem_map] at hx
    obtain ⟨b, hb, rfl⟩ := hx
    obtain ⟨hbW, hbt⟩ := mem_bitsOf.1 hb
    obtain ⟨h1, h2⟩ := (split_unique (e := i * c.W + b) hW hbW).1 rfl
    dsimp only at hi hg
    rw [← h1, ← h2, hg]
    exact ⟨hi, hbt⟩
  · rintro ⟨hi, ht⟩
    refine ⟨(get a (x / c.W), x / c.W), ?_, ?_⟩
    · rw [List.mem_zipIdx_iff_getElem?]
      exact toList_getElem?_eq_some.2 ⟨hi, rfl⟩
    · simp only [List.mem_map]
      refine ⟨x % c.W, mem_bitsOf.2 ⟨Nat.mod_lt _ hW, ht⟩, ?_⟩
      rw [Nat.mul_comm]; exact Nat.div_add_mod x c.W

/-! ### 2. no duplicates -/

theorem zipIdx_pairwise_lt : ∀ (l : List Nat) (k : Nat), (l.zipIdx k).Pairwise (fun p q => p.2 < q.2)
  | [], _ => by simp
  | x :: l, k => by
    rw [List.zipIdx_cons, List.pairwise_cons]
    refine ⟨?_, zipIdx_pairwise_lt l (k + 1)⟩
    rintro ⟨w, i⟩ hp
    have := (List.mem_zipIdx hp).1
    show k < i
    omega

theorem elems_dense_nodup (ok : CfgOK c) {sz cap : Nat} {a : Tbl} : (elems c (.heap sz cap c.W a)).Nodup := by
  rw [elems_dense_eq ok]
  have hW := W_pos' ok
  show List.Pairwise (· ≠ ·) _
  rw [List.pairwise_flatMap]
  constructor
  · rintro ⟨w, i⟩ _
    show List.Pairwise (· ≠ ·) _
    rw [List.pairwise_map]
    apply List.Pairwise.imp _ (bitsOf_nodup w c.W)
    intro b b' hne h
    exact hne (by omega)
  · apply List.Pairwise.imp _ (zipIdx_pairwise_lt a.toList 0)
    rintro ⟨w, i⟩ ⟨w', j⟩ hlt x hx y hy hxy
    simp only [List.mem_map] at hx hy
    obtain ⟨b, hb, rfl⟩ := hx
    obtain ⟨b', hb', rfl⟩ := hy
    have h1 := (split_unique (e := i * c.W + b) hW (mem_bitsOf.1 hb).1).1 rfl
    have h2 := (split_unique (e := j * c.W + b') hW (mem_bitsOf.1 hb').1).1 rfl
    have : i = j := by rw [h1.1, h2.1, hxy]
    dsimp only at hlt
    omega

/-! ### 3. range -/

theorem elems_dense_range (_ok : CfgOK c) {sz cap : Nat} {a : Tbl} (wf : DenseWF c sz cap a) :
    ∀ x ∈ elems c (.heap sz cap c.W a), x < 2 ^ c.W := wf.range

/-- a sufficient condition for the `range` clause (not an invariant: the growth branch of `cfg64` can break it) -/
theorem elems_dense_range_of_cap (ok : CfgOK c) {sz cap : Nat} {a : Tbl}
    (hcap : a.size * c.W ≤ 2 ^ c.W) : ∀ x ∈ elems c (.heap sz cap c.W a), x < 2 ^ c.W := by
  intro x hx
  obtain ⟨hi, _⟩ := (mem_elems_dense ok x).1 hx
  have hW := W_pos' ok
  have h1 : (x / c.W + 1) * c.W ≤ a.size * c.W := Nat.mul_le_mul_right _ hi
  have h2 : x < (x / c.W + 1) * c.W := by
    rw [Nat.mul_comm]; exact Nat.lt_mul_div_succ x hW
  omega

/-! ### 4. contains -/

theorem contains_dense (ok : CfgOK c) {sz cap : Nat} {a : Tbl} (wf : DenseWF c sz cap a) (e : Nat) :
    contains c (.heap sz cap c.W a) e = true ↔ e ∈ elems c (.heap sz cap c.W a) := by
  rw [mem_elems_dense ok]
  unfold contains
  simp only [isDense_W, if_true, shr_dShift ok, wf.cap_eq]
  by_cases h : e / c.W < a.size
  · simp [h]
  · simp [h]

/-! ### counting through `Nodup` + membership (layout independent) -/

theorem length_of_remove {L L' : List Nat} {e : Nat} (nd : L.Nodup) (nd' : L'.Nodup)
    (hmem : ∀ x, x ∈ L' ↔ (x ∈ L ∧ x ≠ e)) : L.length = L'.length + (if e ∈ L then 1 else 0) := by
  by_cases he : e ∈ L
  · rw [if_pos he]
    have hne : e ∉ L' := fun h => ((hmem e).1 h).2 rfl
    have nd2 : (e :: L').Nodup := List.nodup_cons.2 ⟨hne, nd'⟩
    have : L.Perm (e :: L') := by
      rw [List.perm_ext_iff_of_nodup nd nd2]
      intro x
      rw [List.mem_cons, hmem]
      by_cases hx : x = e
      · subst hx; simp [he]
      · simp [hx]
    rw [this.length_eq, List.length_cons]
  · rw [if_neg he]
    have : L.Perm L' := by
      rw [List.perm_ext_iff_of_nodup nd nd']
      intro x
      rw [hmem]
      constructor
      · intro hx; exact ⟨hx, fun h => he (h ▸ hx)⟩
      · intro hx; exact hx.1
    rw [this.length_eq]; rfl

theorem length_of_insert {L L' : List Nat} {e : Nat} (nd : L.Nodup) (nd' : L'.Nodup)
    (hmem : ∀ x, x ∈ L' ↔ (x ∈ L ∨ x = e)) : L'.length = L.length + (if e ∈ L then 0 else 1) := by
  by_cases he : e ∈ L
  · rw [if_pos he]
    have : L'.Perm L := by
      rw [List.perm_ext_iff_of_nodup nd' nd]
      intro x
      rw [hmem]
      constructor
      · rintro (hx | hx)
        · exact hx
        · exact hx ▸ he
      · intro hx; exact Or.inl hx
    rw [this.length_eq]; rfl
  · rw [if_neg he]
    have nd2 : (e :: L).Nodup := List.nodup_cons.2 ⟨he, nd⟩
    have : L'.Perm (e :: L) := by
      rw [List.perm_ext_iff_of_nodup nd' nd2]
      intro x
      rw [List.mem_cons, hmem]
      exact Or.comm
    rw [this.length_eq, List.length_cons]

/-! ### bit lemmas for `clearBit` -/

theorem testBit_clearBit {w off : Nat} (ho : off < c.W) (j : Nat) :
    (clearBit c w off).testBit j = (w.testBit j && (decide (j < c.W) && !decide (j = off))) := by
  unfold clearBit
  rw [Nat.testBit_and]
  congr 1
  have h1 : 2 ^ c.W - 1 - 1 <<< off = 2 ^ c.W - (2 ^ off + 1) := by
    rw [Nat.shiftLeft_eq, Nat.one_mul]; omega
  rw [h1, Nat.testBit_two_pow_sub_succ (Nat.pow_lt_pow_right (by omega) ho), Nat.testBit_two_pow]
  congr 2
  by_cases h : off = j <;> simp [h, eq_comm]

theorem clearBit_le (w off : Nat) : clearBit c w off ≤ w := Nat.and_le_left

/-- two numbers in the same word are equal iff their offsets agree -/
theorem eq_iff_mod_eq {x e W : Nat} (h : x / W = e / W) : x = e ↔ x % W = e % W := by
  constructor
  · intro h; rw [h]
  · intro h2
    have h3 := Nat.div_add_mod x W
    have h4 := Nat.div_add_mod e W
    rw [h, h2] at h3
    omega

/-! ### 5. remove -/

theorem remove_dense (ok : CfgOK c) {D : Type} (g : Rng D) (fuel : Nat) {sz cap : Nat} {a : Tbl}
    (wf : DenseWF c sz cap a) (e : Nat) (d : D) :
    ∃ r' b, remove c g fuel (.heap sz cap c.W a) e d = .ok ((r', b), d) ∧ RemOK c (.heap sz cap c.W a) e r' b := by
  have hW := W_pos' ok
  unfold remove
  simp only [isDense_W, if_true, shr_dShift ok, wf.cap_eq]
  by_cases hk : e / c.W < a.size
  · simp only [hk, if_true, pure_run]
    refine ⟨_, _, rfl, ?_⟩
    have ho : e % c.W < c.W := Nat.mod_lt _ hW
    -- membership in the new array
    have hmem : ∀ x, x ∈ elems c (.heap (if (get a (e / c.W)).testBit (e % c.W) = true then sz - 1 else sz) a.size c.W
          (put a (e / c.W) (clearBit c (get a (e / c.W)) (e % c.W)))) ↔
        (x ∈ elems c (.heap sz a.size c.W a) ∧ x ≠ e) := by
      intro x
      rw [mem_elems_dense ok, mem_elems_dense ok, size_put]
      by_cases hx : x / c.W = e / c.W
      · rw [hx, get_put_eq _ hk, testBit_clearBit ho, Ne, eq_iff_mod_eq hx]
        have : x % c.W < c.W := Nat.mod_lt _ hW
        simp [this, hk]
      · rw [get_put_ne _ (fun h => hx h.symm)]
        have : x ≠ e := fun h => hx (by rw [h])
        simp [this]
    have hret : (get a (e / c.W)).testBit (e % c.W) = true ↔ e ∈ elems c (.heap sz a.size c.W a) := by
      rw [mem_elems_dense ok]; simp [hk]
    refine ⟨?_, hret, hmem⟩
    rw [WF_dense]
    refine ⟨by rw [size_put], by rw [← wf.cap_eq]; exact wf.cap_pos, ?_, ?_,
      fun x hx => wf.range x ((hmem x).1 hx).1⟩
    · intro i hi
      rw [size_put] at hi
      by_cases hik : e / c.W = i
      · subst hik
        rw [get_put_eq _ hk]
        exact Nat.lt_of_le_of_lt (clearBit_le _ _) (wf.words _ hk)
      · rw [get_put_ne _ hik]; exact wf.words i hi
    · have hlen := length_of_remove (elems_dense_nodup ok) (elems_dense_nodup ok) hmem
      have hs := wf.szc
      rw [wf.cap_eq] at hs
      have e1 : ∀ s, elems c (.heap s a.size c.W (put a (e / c.W) (clearBit c (get a (e / c.W)) (e % c.W)))) =
          elems c (.heap 0 a.size c.W (put a (e / c.W) (clearBit c (get a (e / c.W)) (e % c.W)))) := fun _ => rfl
      rw [e1] at hlen ⊢
      by_cases hp : (get a (e / c.W)).testBit (e % c.W) = true
      · rw [if_pos hp]; rw [if_pos (hret.1 hp)] at hlen; omega
      · rw [if_neg hp]; rw [if_neg (fun h => hp (hret.2 h))] at hlen; omega
  · simp only [hk, if_false, pure_run]
    refine ⟨_, _, rfl, ?_⟩
    have hnot : e ∉ elems c (.heap sz a.size c.W a) := by
      rw [mem_elems_dense ok]; exact fun h => hk h.1
    refine ⟨?_, by simp [hnot], ?_⟩
    · rw [WF_dense, ← wf.cap_eq]; exact wf
    · intro x
      constructor
      · intro hx; exact ⟨hx, fun h => hnot (h ▸ hx)⟩
      · intro hx; exact hx.1

/-! ### all-zero tables: `withCapBits` -/

theorem bitsOf_zero (n : Nat) : bitsOf 0 n = [] := by simp [bitsOf]

/-- an all-zero array is the empty set in every layout -/
theorem elems_zero (c : Cfg) {sz cap bits : Nat} {a : Tbl} (hz : ∀ w ∈ a.toList, w = 0) :
    elems c (.heap sz cap bits a) = [] := by
  simp only [elems]
  split
  · have : a.toList.filter (· ≠ 0) = [] := by
      rw [List.filter_eq_nil_iff]
      intro w hw; simp [hz w hw]
    rw [this]; rfl
  · split
    · rw [List.flatMap_eq_nil_iff]
      rintro ⟨w, i⟩ hp
      have hw : w ∈ a.toList := by
        obtain ⟨_, h2, h3⟩ := List.mem_zipIdx hp
        rw [h3]; exact List.getElem_mem _
      dsimp only
      rw [hz w hw, bitsOf_zero]; rfl
    · rw [List.flatMap_eq_nil_iff]
      intro w hw
      rw [hz w hw, bitsOf_zero]; rfl

theorem replicate_zero_mem {n w : Nat} (h : w ∈ (Array.replicate n 0).toList) : w = 0 := by
  rw [Array.toList_replicate] at h
  exact (List.mem_replicate.1 h).2

theorem get_replicate_zero (n i : Nat) : get (Array.replicate n 0) i = 0 := by
  by_cases h : i < n
  · simp [RH.get, Array.getD_eq_getD_getElem?, h]
  · simp [RH.get, Array.getD_eq_getD_getElem?, h]

theorem nz_replicate_zero (n : Nat) : nz (Array.replicate n 0) = [] := by
  rw [List.eq_nil_iff_forall_not_mem]
  intro x hx
  obtain ⟨h0, i, _, hg⟩ := mem_nz.1 hx
  rw [get_replicate_zero] at hg
  exact h0 hg.symm

theorem inv_replicate_zero (n off : Nat) : Inv (Array.replicate n 0) off :=
  ⟨fun i _ _ _ h => absurd (get_replicate_zero n i) h, fun i _ h => absurd (get_replicate_zero n i) h⟩

/-- a fresh all-zero table of positive capacity is well formed for every non-zero `bits`
    (`bits = W`: dense; `bits > W`: plain with placeholder `bits`; `0 < bits < W`: bitmap) -/
theorem WF_replicate (c : Cfg) {cap bits : Nat} (hc : 0 < cap) (hb : bits ≠ 0) (hlt : bits < 2 ^ c.W) :
    WF c (.heap 0 cap bits (Array.replicate cap 0)) := by
  have hsize : (Array.replicate cap 0 : Tbl).size = cap := Array.size_replicate
  have hel : ∀ sz cap' bits', elems c (.heap sz cap' bits' (Array.replicate cap 0)) = [] :=
    fun _ _ _ => elems_zero c (fun w hw => replicate_zero_mem hw)
  have hwords : ∀ i, i < (Array.replicate cap 0 : Tbl).size → get (Array.replicate cap 0) i < 2 ^ c.W := by
    intro i _; rw [get_replicate_zero]; exact Nat.two_pow_pos _
  by_cases hd : bits = c.W
  · subst hd
    rw [WF_dense]
    exact ⟨hsize.symm, hc, hwords, by rw [hel]; rfl, fun x hx => by rw [hel] at hx; cases hx⟩
  · have hnd : isDense c bits = false := by simp [isDense, hd]
    by_cases hp : bits > c.W
    · have hpl : isPlain c bits = true := by simp [isPlain, hp]
      simp only [WF, hnd, hpl, if_true, Bool.false_eq_true, if_false]
      refine ⟨⟨by rw [hsize]; exact hc, inv_replicate_zero _ _,
        ⟨0, by rw [hsize]; exact hc, Lin_zero (fun i _ => get_replicate_zero _ i)⟩,
        by rw [nz_replicate_zero]; rfl, hb⟩, hsize.symm, hp, hwords, hlt⟩
    · have hpl : isPlain c bits = false := by simp [isPlain, hp, hb]
      simp only [WF, hnd, hpl, Bool.false_eq_true, if_false]
      refine ⟨hsize.symm, hc, by omega, by omega, inv_replicate_zero _ _,
        ⟨0, by rw [hsize]; exact hc, Lin_zero (fun i _ => get_replicate_zero _ i)⟩, ?_, ?_, by rw [hel]; rfl, ?_⟩
      · intro i _ h; exact absurd (get_replicate_zero _ i) h
      · intro x hx; rw [hel] at hx; cases hx
      · intro x hx; rw [hel] at hx; cases hx

theorem two_mul_succ_lt_two_pow : ∀ n, 4 ≤ n → 2 * n + 1 < 2 ^ n
  | 0, h | 1, h | 2, h | 3, h => by omega
  | 4, _ => by decide
  | n + 5, _ => by
    have := two_mul_succ_lt_two_pow (n + 4) (by omega)
    rw [Nat.pow_succ]; omega

/-- the placeholder drawn by `withCapBits _ 0` is a `W`-bit value above `W` -/
theorem placeholder_lt (ok : CfgOK c) {b : Nat} (hb : b < 2 ^ c.W) :
    (if b ≤ c.W then b + c.W + 1 else b) < 2 ^ c.W := by
  have := two_mul_succ_lt_two_pow c.W ok.W_pos
  split <;> omega

theorem drawM_lt {D : Type} (g : Rng D) (cap bits : Nat) (d d' : D) (v : Nat)
    (h : drawM c g cap bits d = .ok (v, d')) : v < 2 ^ c.W := by
  unfold drawM at h
  cases h
  exact Nat.mod_lt _ (Nat.two_pow_pos _)

/-- what `withCapBits` returns is well formed and empty, for every `cap` and every `W`-bit `bits`
    (`bits = 0`: the placeholder is drawn, and is a `W`-bit value because `4 ≤ W`) -/
theorem withCapBits_ok (ok : CfgOK c) {D : Type} (g : Rng D) (cap bits : Nat) (hbits : bits < 2 ^ c.W) (d d' : D) (r : Rp)
    (h : withCapBits c g cap bits d = .ok (r, d')) : WF c r ∧ elems c r = [] := by
  unfold withCapBits at h
  by_cases hc : cap > 0
  · rw [if_pos hc] at h
    by_cases hb : bits = 0
    · rw [if_pos hb] at h
      obtain ⟨v, d1, h1, h2⟩ := bind_ok h
      rw [pure_run] at h2
      cases h2
      refine ⟨WF_replicate c hc ?_ (placeholder_lt ok (drawM_lt g _ _ _ _ _ h1)),
        elems_zero c (fun w hw => replicate_zero_mem hw)⟩
      split <;> omega
    · rw [if_neg hb, pure_run] at h
      cases h
      exact ⟨WF_replicate c hc hb hbits, elems_zero c (fun w hw => replicate_zero_mem hw)⟩
  · rw [if_neg hc, pure_run] at h
    cases h
    exact ⟨trivial, rfl⟩

/-- shape of the result (for callers that need the capacity) -/
theorem withCapBits_shape {D : Type} (g : Rng D) (cap bits : Nat) (d d' : D) (r : Rp)
    (h : withCapBits c g cap bits d = .ok (r, d')) :
    (cap = 0 ∧ r = .empty) ∨ (0 < cap ∧ ∃ bits', r = .heap 0 cap bits' (Array.replicate cap 0) ∧
      (bits ≠ 0 → bits' = bits) ∧ (bits = 0 → c.W < bits')) := by
  unfold withCapBits at h
  by_cases hc : cap > 0
  · rw [if_pos hc] at h
    right
    by_cases hb : bits = 0
    · rw [if_pos hb] at h
      obtain ⟨v, d1, _, h2⟩ := bind_ok h
      rw [pure_run] at h2
      cases h2
      refine ⟨hc, _, rfl, fun h => absurd hb h, fun _ => ?_⟩
      split <;> omega
    · rw [if_neg hb, pure_run] at h
      cases h
      exact ⟨hc, _, rfl, fun _ => rfl, fun h => absurd h hb⟩
  · rw [if_neg hc, pure_run] at h
    cases h
    exact Or.inl ⟨by omega, rfl⟩

/-! ### 6. insert -/

/-- the copy loop of the growth branch -/
theorem copy_spec (a : Tbl) : ∀ (n : Nat) (na : Tbl), n ≤ na.size → (∀ j, get na j = 0) →
    ((List.range n).foldl (fun acc i => put acc i (get a i)) na).size = na.size ∧
    ∀ j, get ((List.range n).foldl (fun acc i => put acc i (get a i)) na) j = if j < n then get a j else 0
  | 0, na, _, hz => by
    refine ⟨rfl, fun j => ?_⟩
    simp [hz j]
  | n + 1, na, hn, hz => by
    obtain ⟨h1, h2⟩ := copy_spec a n na (by omega) hz
    rw [List.range_succ, List.foldl_append]
    simp only [List.foldl_cons, List.foldl_nil]
    refine ⟨by rw [size_put, h1], fun j => ?_⟩
    rw [get_put _ _ _ _ (by rw [h1]; omega), h2 j]
    by_cases hj : n = j
    · subst hj; simp
    · rw [if_neg hj]
      by_cases hj2 : j < n
      · rw [if_pos hj2, if_pos (by omega)]
      · rw [if_neg hj2, if_neg (by omega)]

theorem insertDense_ok (ok : CfgOK c) {D : Type} (g : Rng D) (rec : Ins D) (hrec : RecOK c rec)
    {sz cap : Nat} {a : Tbl} (wf : DenseWF c sz cap a)
    (e : Nat) (he : e < 2 ^ c.W)
    (d d' : D) (r' : Rp) (b : Bool)
    (h : insertDense c g rec sz cap a e d = .ok ((r', b), d')) : InsOK c (.heap sz cap c.W a) e r' b := by
  have hW := W_pos' ok
  have ho : e % c.W < c.W := Nat.mod_lt _ hW
  have hpow : 1 <<< (e % c.W) = 2 ^ (e % c.W) := by rw [Nat.shiftLeft_eq, Nat.one_mul]
  have hpowlt : 2 ^ (e % c.W) < 2 ^ c.W := Nat.pow_lt_pow_right (by omega) ho
  have hcap := wf.cap_eq
  have hrange := wf.range
  have hgrow := ok.grow e
  have hins : ∀ {L : List Nat}, (∀ x, x ∈ L ↔ (x ∈ elems c (.heap sz cap c.W a) ∨ x = e)) → ∀ x, x ∈ L → x < 2 ^ c.W := by
    intro L hm x hx
    rcases (hm x).1 hx with h1 | h1
    · exact hrange x h1
    · exact h1 ▸ he
  unfold insertDense at h
  dsimp only at h
  rw [shr_dShift ok] at h hgrow
  by_cases hk : e / c.W < cap
  · -- (i) set the bit in place
    rw [if_pos hk, pure_run] at h
    cases h
    have hk' : e / c.W < a.size := by omega
    have hmem : ∀ x, x ∈ elems c (.heap (if (get a (e / c.W)).testBit (e % c.W) = true then sz else sz + 1) cap c.W
          (put a (e / c.W) (get a (e / c.W) ||| 1 <<< (e % c.W)))) ↔
        (x ∈ elems c (.heap sz cap c.W a) ∨ x = e) := by
      intro x
      rw [mem_elems_dense ok, mem_elems_dense ok, size_put]
      by_cases hx : x / c.W = e / c.W
      · rw [hx, get_put_eq _ hk', testBit_or_bit, eq_iff_mod_eq hx]
        simp [hk']
      · rw [get_put_ne _ (fun h => hx h.symm)]
        have : x ≠ e := fun h => hx (by rw [h])
        simp [this]
    have hret : (get a (e / c.W)).testBit (e % c.W) = true ↔ e ∈ elems c (.heap sz cap c.W a) := by
      rw [mem_elems_dense ok]; simp [hk']
    refine ⟨?_, ?_, hmem⟩
    · rw [WF_dense]
      refine ⟨by rw [size_put]; exact hcap, wf.cap_pos, ?_, ?_, hins hmem⟩
      · intro i hi
        rw [size_put] at hi
        by_cases hik : e / c.W = i
        · subst hik
          rw [get_put_eq _ hk', hpow]
          exact Nat.or_lt_two_pow (wf.words _ hk') hpowlt
        · rw [get_put_ne _ hik]; exact wf.words i hi
      · have hlen := length_of_insert (elems_dense_nodup ok) (elems_dense_nodup ok) hmem
        have hs := wf.szc
        have e1 : ∀ s, elems c (.heap s cap c.W (put a (e / c.W) (get a (e / c.W) ||| 1 <<< (e % c.W)))) =
            elems c (.heap 0 cap c.W (put a (e / c.W) (get a (e / c.W) ||| 1 <<< (e % c.W)))) := fun _ => rfl
        rw [e1] at hlen ⊢
        by_cases hp : (get a (e / c.W)).testBit (e % c.W) = true
        · rw [if_pos hp]; rw [if_pos (hret.1 hp)] at hlen; omega
        · rw [if_neg hp]; rw [if_neg (fun h => hp (hret.2 h))] at hlen; omega
    · rw [← hret]; simp
  · rw [if_neg hk] at h
    have hnot : e ∉ elems c (.heap sz cap c.W a) := by
      rw [mem_elems_dense ok]; exact fun h => hk (by omega)
    by_cases hsp : e >>> c.capShift > sz
    · -- (ii) fall back to a sparse table
      rw [if_pos hsp] at h
      obtain ⟨new, d1, h1, h2⟩ := bind_ok h
      obtain ⟨hnew, hempty⟩ := withCapBits_ok ok g _ _ (ok.cab_lt e) _ _ _ h1
      obtain ⟨s1, s2, s3⟩ := rebuild_ok hrec hnew hempty hrange he h2
      exact ⟨s1, by simp [s2, hnot], s3⟩
    · -- (iii) grow the bitset
      rw [if_neg hsp, pure_run] at h
      cases h
      obtain ⟨c1, c2⟩ := copy_spec a cap (Array.replicate (c.denseGrow e) 0)
        (by rw [Array.size_replicate]; omega) (get_replicate_zero _)
      rw [Array.size_replicate] at c1
      generalize (List.range cap).foldl (fun acc i => put acc i (get a i)) (Array.replicate (c.denseGrow e) 0) = na at c1 c2
      have hk' : e / c.W < na.size := by omega
      have hmem : ∀ x, x ∈ elems c (.heap (sz + 1) (c.denseGrow e) c.W (put na (e / c.W) (1 <<< (e % c.W)))) ↔
          (x ∈ elems c (.heap sz cap c.W a) ∨ x = e) := by
        intro x
        rw [mem_elems_dense ok, mem_elems_dense ok, size_put]
        by_cases hx : x / c.W = e / c.W
        · rw [hx, get_put_eq _ hk', hpow, Nat.testBit_two_pow, eq_iff_mod_eq hx]
          have : ¬ e / c.W < a.size := by omega
          simp only [hk', this, true_and, false_and, false_or, decide_eq_true_eq]
          exact eq_comm
        · rw [get_put_ne _ (fun h => hx h.symm), c2]
          have : x ≠ e := fun h => hx (by rw [h])
          by_cases hx2 : x / c.W < cap
          · have h3 : x / c.W < na.size := by omega
            have h4 : x / c.W < a.size := by omega
            simp [this, hx2, h3, h4]
          · have h4 : ¬ x / c.W < a.size := by omega
            simp [this, hx2, h4]
      refine ⟨?_, by simp [hnot], hmem⟩
      rw [WF_dense]
      refine ⟨by rw [size_put, c1], by omega, ?_, ?_, hins hmem⟩
      · intro i hi
        rw [size_put] at hi
        by_cases hik : e / c.W = i
        · subst hik
          rw [get_put_eq _ hk', hpow]; exact hpowlt
        · rw [get_put_ne _ hik, c2]
          split
          · exact wf.words i (by omega)
          · exact Nat.two_pow_pos _
      · have hlen := length_of_insert (elems_dense_nodup ok) (elems_dense_nodup ok) hmem
        rw [if_neg hnot] at hlen
        have hs := wf.szc
        have e1 : ∀ s, elems c (.heap s (c.denseGrow e) c.W (put na (e / c.W) (1 <<< (e % c.W)))) =
            elems c (.heap 0 (c.denseGrow e) c.W (put na (e / c.W) (1 <<< (e % c.W)))) := fun _ => rfl
        rw [e1] at hlen ⊢
        omega

/-! ### the range clause is preserved by any correct insert / remove (layout independent) -/

theorem InsOK.range {r r' : Rp} {e : Nat} {b : Bool} (h : InsOK c r e r' b)
    (hr : ∀ x ∈ elems c r, x < 2 ^ c.W) (he : e < 2 ^ c.W) : ∀ x ∈ elems c r', x < 2 ^ c.W := by
  intro x hx
  rcases (h.mem x).1 hx with h1 | h1
  · exact hr x h1
  · exact h1 ▸ he

theorem RemOK.range {r r' : Rp} {e : Nat} {b : Bool} (h : RemOK c r e r' b)
    (hr : ∀ x ∈ elems c r, x < 2 ^ c.W) : ∀ x ∈ elems c r', x < 2 ^ c.W :=
  fun x hx => hr x ((h.mem x).1 hx).1

#print axioms mem_elems_dense
#print axioms elems_dense_nodup
#print axioms elems_dense_range
#print axioms contains_dense
#print axioms remove_dense
#print axioms withCapBits_ok
#print axioms withCapBits_shape
#print axioms WF_replicate
#print axioms insertDense_ok
end SC
