import TinysetModel.Proofs.IterDrainSrc
/-! `<Tiny as Iterator>::next` of the current source — the iterator over an inline word that the conversion of an
inline set to a table (`for x in t` in `insert`), the inline `remove`, `max` and the operators use — translated on every
run (`Generated/Loops.lean`): it is the `Stack` arm of `Inner::next` with the counter running upwards, and iterating it
yields exactly the members of the word. -/
namespace SC
open TinyC

/-- one step: `sz_spent` counts up where the set iterator's `sz_left` counts down -/
theorem tiny_next_64_eq (sz spent bits last : Nat) (h : spent ≤ sz) :
    Gen.tiny_next_64 sz spent bits last =
      (match Gen.iter_next_stack_64 sz (sz - spent) bits last with
       | (out, left, b, l) => (out, sz - left, b, l)) := by
  simp only [Gen.tiny_next_64, Gen.iter_next_stack_64]
  by_cases hlt : spent < sz
  · have h1 : sz - spent > 0 := by omega
    have h2 : sz - (sz - spent) = spent := by omega
    have h3 : (sz - spent = sz) = (spent = 0) := by apply propext; omega
    have h4 : sz - (sz - spent - 1) = spent + 1 := by omega
    simp only [hlt, h1, if_true, h2, h3]
    by_cases h0 : spent = 0 <;> simp only [h0, if_true, if_false, h4] <;> simp
    omega
  · have h1 : ¬ sz - spent > 0 := by omega
    have h2 : sz - (sz - spent) = spent := by omega
    simp only [hlt, h1, if_false, h2]

theorem tiny_next_32_eq (sz spent bits last : Nat) (h : spent ≤ sz) :
    Gen.tiny_next_32 sz spent bits last =
      (match Gen.iter_next_stack_32 sz (sz - spent) bits last with
       | (out, left, b, l) => (out, sz - left, b, l)) := by
  simp only [Gen.tiny_next_32, Gen.iter_next_stack_32]
  by_cases hlt : spent < sz
  · have h1 : sz - spent > 0 := by omega
    have h2 : sz - (sz - spent) = spent := by omega
    have h3 : (sz - spent = sz) = (spent = 0) := by apply propext; omega
    have h4 : sz - (sz - spent - 1) = spent + 1 := by omega
    simp only [hlt, h1, if_true, h2, h3]
    by_cases h0 : spent = 0 <;> simp only [h0, if_true, if_false, h4] <;> simp
    omega
  · have h1 : ¬ sz - spent > 0 := by omega
    have h2 : sz - (sz - spent) = spent := by omega
    simp only [hlt, h1, if_false, h2]

theorem tinyDrain64_eq_srcDrain (t : T) : ∀ (fuel : Nat) (k : Cursor), k.sz = t.sz → k.szLeft ≤ k.sz →
    Gen.tiny_drain_64 t.sz fuel (k.sz - k.szLeft) k.sbits k.last = srcDrain64 (.stack t) fuel k := by
  intro fuel
  induction fuel with
  | zero => intro k _ _; rfl
  | succ f ih =>
    intro k hsz hle
    unfold Gen.tiny_drain_64 srcDrain64
    simp only [srcNext64]
    rw [← hsz, tiny_next_64_eq k.sz (k.sz - k.szLeft) k.sbits k.last (by omega)]
    have h2 : k.sz - (k.sz - k.szLeft) = k.szLeft := by omega
    rw [h2]
    rcases hr : Gen.iter_next_stack_64 k.sz k.szLeft k.sbits k.last with ⟨out, left, b, l⟩
    simp only []
    cases out with
    | none => rfl
    | some x =>
      simp only []
      have hleft : left ≤ k.sz := by
        simp only [Gen.iter_next_stack_64] at hr
        split at hr
        · split at hr <;> (simp only [Prod.mk.injEq] at hr; omega)
        · simp only [Prod.mk.injEq] at hr; omega
      have := ih { k with szLeft := left, sbits := b, last := l } hsz hleft
      simp only at this
      rw [hsz] at this ⊢
      rw [this]

/-- **iterating `Tiny::next` of the source over the inline word of a well-formed set yields exactly its members** -/
theorem tinyDrain64_eq_members (t : T) (wf : WF cfg64 (.stack t)) :
    Gen.tiny_drain_64 t.sz (t.sz + 1) 0 t.bits 0 = t.members codec64 := by
  have h := tinyDrain64_eq_srcDrain t (t.sz + 1) (cursorOf (.stack t)) rfl (Nat.le_refl _)
  simp only [cursorOf, Nat.sub_self] at h
  rw [h]
  have hlen : (elems cfg64 (.stack t)).length = t.sz := by
    have := (absOK_of_wf cfg64_ok wf).len
    simp only [len] at this
    exact this.symm
  have := srcDrain64_eq_elems wf
  rw [hlen] at this
  exact this

theorem tinyDrain32_eq_srcDrain (t : T) : ∀ (fuel : Nat) (k : Cursor), k.sz = t.sz → k.szLeft ≤ k.sz →
    Gen.tiny_drain_32 t.sz fuel (k.sz - k.szLeft) k.sbits k.last = srcDrain32 (.stack t) fuel k := by
  intro fuel
  induction fuel with
  | zero => intro k _ _; rfl
  | succ f ih =>
    intro k hsz hle
    unfold Gen.tiny_drain_32 srcDrain32
    simp only [srcNext32]
    rw [← hsz, tiny_next_32_eq k.sz (k.sz - k.szLeft) k.sbits k.last (by omega)]
    have h2 : k.sz - (k.sz - k.szLeft) = k.szLeft := by omega
    rw [h2]
    rcases hr : Gen.iter_next_stack_32 k.sz k.szLeft k.sbits k.last with ⟨out, left, b, l⟩
    simp only []
    cases out with
    | none => rfl
    | some x =>
      simp only []
      have hleft : left ≤ k.sz := by
        simp only [Gen.iter_next_stack_32] at hr
        split at hr
        · split at hr <;> (simp only [Prod.mk.injEq] at hr; omega)
        · simp only [Prod.mk.injEq] at hr; omega
      have := ih { k with szLeft := left, sbits := b, last := l } hsz hleft
      simp only at this
      rw [hsz] at this ⊢
      rw [this]

/-- **iterating `Tiny::next` of the source over the inline word of a well-formed set yields exactly its members** -/
theorem tinyDrain32_eq_members (t : T) (wf : WF cfg32 (.stack t)) :
    Gen.tiny_drain_32 t.sz (t.sz + 1) 0 t.bits 0 = t.members codec32 := by
  have h := tinyDrain32_eq_srcDrain t (t.sz + 1) (cursorOf (.stack t)) rfl (Nat.le_refl _)
  simp only [cursorOf, Nat.sub_self] at h
  rw [h]
  have hlen : (elems cfg32 (.stack t)).length = t.sz := by
    have := (absOK_of_wf cfg32_ok wf).len
    simp only [len] at this
    exact this.symm
  have := srcDrain32_eq_elems wf (fun _ _ _ h => by cases h)
  rw [hlen] at this
  exact this

end SC
#print axioms SC.tinyDrain64_eq_members
#print axioms SC.tinyDrain32_eq_members
