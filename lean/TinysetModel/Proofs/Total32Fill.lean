import TinysetModel.Proofs.Total32Step
/-! Totality of `insert` for any room rule, part 2: the refill invariant of `TotalFill.lean` with the room
rule as a parameter: "the distinct keys that will ever be placed, plus the `slack` the room rule demands,
fit into the capacity".  (`slack = 0` gives back `RefillGood`.) -/
namespace SC
open RH Plain2

variable {c : Cfg} {D : Type}

/-- layout part of the refill invariant, for the set `V` of all values that will be inserted -/
def RefillShapeS (c : Cfg) (V : List Nat) : Rp → Prop
  | .heap _ cap bits _ =>
    if isDense c bits then ∀ y ∈ V, y >>> c.dShift < cap
    else if isPlain c bits then
      cap + c.W + 3 ≤ 2 ^ c.W ∧ ∃ KL : List Nat, KL.Nodup ∧ KL.length + slack c cap ≤ cap ∧ ∀ y ∈ V, y ∈ KL
    else
      (∀ y ∈ V, bits ≤ c.cab y) ∧
        ∃ KL : List Nat, KL.Nodup ∧ KL.length + slack c cap ≤ cap ∧ ∀ y ∈ V, y / bits ∈ KL
  | _ => False

structure RefillGoodS (c : Cfg) (V : List Nat) (r : Rp) : Prop where
  wf : WF c r
  sub : ∀ y ∈ elems c r, y ∈ V
  shape : RefillShapeS c V r

theorem RefillShapeS_dense {V : List Nat} {sz cap : Nat} {a : Tbl} :
    RefillShapeS c V (.heap sz cap c.W a) ↔ ∀ y ∈ V, y >>> c.dShift < cap := by
  simp only [RefillShapeS, isDense_W, if_true]

theorem RefillShapeS_plain {V : List Nat} {sz cap bits : Nat} {a : Tbl} (hd : isDense c bits = false)
    (hp : isPlain c bits = true) :
    RefillShapeS c V (.heap sz cap bits a) ↔
      (cap + c.W + 3 ≤ 2 ^ c.W ∧
        ∃ KL : List Nat, KL.Nodup ∧ KL.length + slack c cap ≤ cap ∧ ∀ y ∈ V, y ∈ KL) := by
  simp only [RefillShapeS, hd, hp, Bool.false_eq_true, if_false, if_true]

theorem RefillShapeS_bitmap {V : List Nat} {sz cap bits : Nat} {a : Tbl} (hd : isDense c bits = false)
    (hp : isPlain c bits = false) :
    RefillShapeS c V (.heap sz cap bits a) ↔
      ((∀ y ∈ V, bits ≤ c.cab y) ∧
        ∃ KL : List Nat, KL.Nodup ∧ KL.length + slack c cap ≤ cap ∧ ∀ y ∈ V, y / bits ∈ KL) := by
  simp only [RefillShapeS, hd, hp, Bool.false_eq_true, if_false]

/-- **One refill step never grows** (any room rule). -/
theorem step_totalS (ok : CfgOK c) (g : Rng D) (rec : Ins D) (hrec : RecOK c rec)
    {V : List Nat} {r : Rp} (gd : RefillGoodS c V r) {x : Nat} (hx : x ∈ V) (hxW : x < 2 ^ c.W) (d : D) :
    ∃ r' b d', insertStep c g rec r x d = .ok ((r', b), d') ∧ RefillGoodS c V r' := by
  match r, gd with
  | .empty, gd => exact gd.shape.elim
  | .stack t, gd => exact gd.shape.elim
  | .heap sz cap bits a, gd =>
    have hsubV : ∀ {r' : Rp} {b : Bool}, InsOK c (.heap sz cap bits a) x r' b → ∀ y ∈ elems c r', y ∈ V := by
      intro r' b h y hy
      rcases (h.mem y).1 hy with h1 | h1
      · exact gd.sub y h1
      · exact h1 ▸ hx
    rcases WF_heap_cases gd.wf with ⟨hW, dw⟩ | ⟨hd, hp⟩ | ⟨hd, hp, bw⟩
    · subst hW
      have hs := RefillShapeS_dense.1 gd.shape
      obtain ⟨sz', a', b, heq, hok⟩ := insertDense_inrange ok g rec hrec dw x hxW (hs x hx) d
      refine ⟨_, b, d, ?_, hok.wf, hsubV hok, RefillShapeS_dense.2 hs⟩
      rw [insertStep, if_pos (isDense_W c)]; exact heq
    · obtain ⟨hsmall, KL, hnd, hlen, hKL⟩ := (RefillShapeS_plain hd hp).1 gd.shape
      have ab := absOK_of_wf ok gd.wf
      obtain ⟨sz', bits', a', b, d', heq, hok, hWb, hbW⟩ := insertPlain_slack g gd.wf hp hd x hxW d hsmall
        (by
          intro hnot
          have := total_length_lt_of_fresh ab.nodup hnd (fun y hy => hKL y (gd.sub y hy)) (hKL x hx) hnot
          have hl : sz = (elems c (.heap sz cap bits a)).length := ab.len
          omega)
      refine ⟨_, b, d', ?_, hok.wf, hsubV hok,
        (RefillShapeS_plain (isDense_of_gt hWb) (isPlain_of_gt hWb)).2 ⟨hsmall, KL, hnd, hlen, hKL⟩⟩
      rw [insertStep, if_neg (by rw [hd]; exact Bool.false_ne_true), if_pos hp]; exact heq
    · obtain ⟨hfit, KL, hnd, hlen, hKL⟩ := (RefillShapeS_bitmap hd hp).1 gd.shape
      obtain ⟨sz', a', b, heq, hok⟩ := insertBitmap_slack ok g rec hd hp bw x hxW
        (by have := hfit x hx; omega) hnd hlen (fun y hy => hKL y (gd.sub y hy)) (hKL x hx) d
      refine ⟨_, b, d, ?_, hok.wf, hsubV hok, (RefillShapeS_bitmap hd hp).2 ⟨hfit, KL, hnd, hlen, hKL⟩⟩
      rw [insertStep, if_neg (by rw [hd]; exact Bool.false_ne_true), if_neg (by rw [hp]; exact Bool.false_ne_true)]
      exact heq

/-- the refill loop into a good table returns, and the table stays good -/
theorem insertAll_totalS (ok : CfgOK c) (g : Rng D) (rec : Ins D) (hrec : RecOK c rec)
    {V : List Nat} : ∀ (xs : List Nat) (r : Rp) (d : D), RefillGoodS c V r → (∀ x ∈ xs, x ∈ V ∧ x < 2 ^ c.W) →
    ∃ r' d', insertAll (insertStep c g rec) r xs d = .ok (r', d') ∧ RefillGoodS c V r' := by
  intro xs
  induction xs with
  | nil => intro r d gd _; exact ⟨r, d, rfl, gd⟩
  | cons x xs ih =>
    intro r d gd hxs
    obtain ⟨hxV, hxW⟩ := hxs x List.mem_cons_self
    obtain ⟨r1, b, d1, h1, gd1⟩ := step_totalS ok g rec hrec gd hxV hxW d
    obtain ⟨r', d', h2, gd'⟩ := ih r1 d1 gd1 (fun y hy => hxs y (List.mem_cons_of_mem _ hy))
    exact ⟨r', d', by rw [insertAll_cons_ok _ _ _ _ _ h1]; exact h2, gd'⟩

/-- **`rebuild` into a good table returns** (any room rule) -/
theorem rebuild_totalS (ok : CfgOK c) (g : Rng D) (rec : Ins D) (hrec : RecOK c rec)
    {V : List Nat} {new old : Rp} {e : Nat} (gd : RefillGoodS c V new)
    (hold : ∀ x ∈ elems c old, x ∈ V ∧ x < 2 ^ c.W) (heV : e ∈ V) (he : e < 2 ^ c.W) (d : D) :
    ∃ r' b d', rebuild c (insertStep c g rec) new old e d = .ok ((r', b), d') := by
  obtain ⟨r1, d1, h1, gd1⟩ := insertAll_totalS ok g rec hrec (elems c old) new d gd hold
  obtain ⟨r2, b, d2, h2, _⟩ := step_totalS ok g rec hrec gd1 heV he d1
  refine ⟨r2, true, d2, ?_⟩
  unfold rebuild
  rw [bind_run h1, bind_run h2]
  rfl

#print axioms step_totalS
#print axioms rebuild_totalS
end SC
