import TinysetModel.Model.Fault
import TinysetModel.Proofs.Rebuild
/-! The traced reading of `insert` (`Model/Fault.lean`) computes the same result as `insert`: forgetting the
trace of `insertT` gives `insert`, for every input and generator state, including the failures. -/
namespace SC
open RH (Tbl get put)

variable {D : Type}

/-- forget the trace -/
def dropTr {D : Type} : Except Err (((Rp × Bool) × Tr) × D) → Except Err ((Rp × Bool) × D)
  | .ok ((res, _), d) => .ok (res, d)
  | .error e => .error e

/-- forget the trace (result of `insertAllT`) -/
def dropTr1 {D : Type} : Except Err ((Rp × Tr) × D) → Except Err (Rp × D)
  | .ok ((res, _), d) => .ok (res, d)
  | .error e => .error e

def ProjOK {D : Type} (recT : InsT D) (rec : Ins D) : Prop := ∀ r e d, dropTr (recT r e d) = rec r e d

theorem ProjOK.ok {recT : InsT D} {rec : Ins D} (h : ProjOK recT rec) {r : Rp} {e : Nat} {d d1 : D}
    {res : Rp × Bool} {t : Tr} (hr : recT r e d = .ok ((res, t), d1)) : rec r e d = .ok (res, d1) := by
  have := h r e d
  rw [hr] at this
  exact this.symm

theorem ProjOK.err {recT : InsT D} {rec : Ins D} (h : ProjOK recT rec) {r : Rp} {e : Nat} {d : D}
    {x : Err} (hr : recT r e d = .error x) : rec r e d = .error x := by
  have := h r e d
  rw [hr] at this
  exact this.symm

/-- a bind whose first action is common to both readings -/
theorem dropTr_bind {α : Type} (m : M D α) (f : α → M D ((Rp × Bool) × Tr)) (f' : α → M D (Rp × Bool))
    (h : ∀ x d, dropTr (f x d) = f' x d) (d : D) : dropTr ((m >>= f) d) = (m >>= f') d := by
  simp only [bind, StateT.bind, Except.bind]
  cases m d with
  | error e => rfl
  | ok p => exact h p.1 p.2

/-- a recursive call whose trace is post-processed -/
theorem dropTr_rec {recT : InsT D} {rec : Ins D} (h : ProjOK recT rec) (r : Rp) (e : Nat) (k : Tr → Tr) (d : D) :
    dropTr ((recT r e >>= fun p => pure (p.1, k p.2)) d) = rec r e d := by
  simp only [bind, StateT.bind, Except.bind]
  cases hr : recT r e d with
  | error x => rw [h.err hr]; rfl
  | ok p =>
    obtain ⟨⟨res, t⟩, d1⟩ := p
    rw [h.ok hr]; rfl

theorem insertAllT_proj_aux {recT : InsT D} {rec : Ins D} (h : ProjOK recT rec) (xs : List Nat) :
    ∀ (r : Rp) (t0 : Tr) (d : D),
      dropTr1 (xs.foldlM (fun (acc : Rp × Tr) x => (do
          let ((r', _), t) ← recT acc.1 x
          pure (r', acc.2 ++ t) : M D (Rp × Tr))) (r, t0) d)
        = insertAll rec r xs d := by
  induction xs with
  | nil => intro r t0 d; rfl
  | cons x xs ih =>
    intro r t0 d
    simp only [insertAll, List.foldlM_cons, bind, StateT.bind, Except.bind]
    cases hr : recT r x d with
    | error y => rw [h.err hr]; rfl
    | ok p =>
      obtain ⟨⟨⟨r1, b⟩, t⟩, d1⟩ := p
      rw [h.ok hr]
      exact ih r1 (t0 ++ t) d1

theorem insertAllT_proj {recT : InsT D} {rec : Ins D} (h : ProjOK recT rec) (r : Rp) (xs : List Nat) (d : D) :
    dropTr1 (insertAllT recT r xs d) = insertAll rec r xs d :=
  insertAllT_proj_aux h xs r [] d

theorem rebuildLocalT_proj (c : Cfg) {recT : InsT D} {rec : Ins D} (h : ProjOK recT rec) (new old : Rp) (e : Nat)
    (d : D) : dropTr (rebuildLocalT c recT new old e d) = rebuild c rec new old e d := by
  have h1 := insertAllT_proj h new (elems c old) d
  simp only [rebuildLocalT, rebuild, bind, StateT.bind, Except.bind]
  cases ha : insertAllT recT new (elems c old) d with
  | error y => rw [ha] at h1; rw [← h1]; rfl
  | ok p =>
    obtain ⟨⟨r1, t1⟩, d1⟩ := p
    rw [ha] at h1; rw [← h1]
    simp only [dropTr1]
    cases hr : recT r1 e d1 with
    | error y => rw [h.err hr]; rfl
    | ok q =>
      obtain ⟨⟨⟨r2, b⟩, t2⟩, d2⟩ := q
      rw [h.ok hr]; rfl

theorem rebuildSelfT_proj (c : Cfg) {recT : InsT D} {rec : Ins D} (h : ProjOK recT rec) (new old : Rp) (e : Nat)
    (d : D) : dropTr (rebuildSelfT c recT new old e d) = rebuild c rec new old e d := by
  have h1 := insertAllT_proj h new (elems c old) d
  simp only [rebuildSelfT, rebuild, bind, StateT.bind, Except.bind]
  cases ha : insertAllT recT new (elems c old) d with
  | error y => rw [ha] at h1; rw [← h1]; rfl
  | ok p =>
    obtain ⟨⟨r1, t1⟩, d1⟩ := p
    rw [ha] at h1; rw [← h1]
    simp only [dropTr1]
    cases hr : recT r1 e d1 with
    | error y => rw [h.err hr]; rfl
    | ok q =>
      obtain ⟨⟨⟨r2, b⟩, t2⟩, d2⟩ := q
      rw [h.ok hr]; rfl

/-- post-processing the trace does not change the result -/
theorem dropTr_post (m : M D ((Rp × Bool) × Tr)) (k : Tr → Tr) (d : D) :
    dropTr ((m >>= fun p => pure (p.1, k p.2)) d) = dropTr (m d) := by
  simp only [bind, StateT.bind, Except.bind]
  cases m d with
  | error x => rfl
  | ok p => rfl

theorem insertDenseT_proj (c : Cfg) (fresh : Bool) (g : Rng D) {recT : InsT D} {rec : Ins D} (h : ProjOK recT rec)
    (sz cap : Nat) (a : Tbl) (e : Nat) (d : D) :
    dropTr (insertDenseT c fresh g recT sz cap a e d) = insertDense c g rec sz cap a e d := by
  unfold insertDenseT insertDense
  dsimp only
  split
  · rfl
  · split
    · refine dropTr_bind _ _ _ (fun new d1 => ?_) d
      rw [← rebuildLocalT_proj c h]
      exact dropTr_post _ (fun t => reqWCB (.heap sz cap c.W a) (c.sparseCap sz) ++ t) d1
    · rfl

theorem insertPlainT_proj (c : Cfg) (g : Rng D) (sz cap bits : Nat) (a : Tbl) (e : Nat) (d : D) :
    dropTr (insertPlainT c g sz cap bits a e d) = insertPlain c g sz cap bits a e d := by
  unfold insertPlainT insertPlain
  refine dropTr_bind _ _ _ (fun ab d1 => ?_) d
  obtain ⟨a1, bits1⟩ := ab
  dsimp only
  generalize (if e = 0 then bits1 else e) = e'
  have key : dropTr ((match tablePlace c e' e' 0 a1 with
        | some a' => (pure ((Rp.heap (sz + 1) cap bits1 a', true), []) : M D ((Rp × Bool) × Tr))
        | none => do
          let r ← drawM c g cap bits1
          let na ← (a1.toList.filter (· ≠ 0)).foldlM (fun t v => placeRaw v t)
            (Array.replicate (cap + 1 + c.growExtra cap + r % c.bigMod cap) 0)
          let na ← placeRaw e' na
          pure ((Rp.heap (sz + 1) (cap + 1 + c.growExtra cap + r % c.bigMod cap) bits1 na, true),
            reqWCB (Rp.heap sz cap bits1 a1) (cap + 1 + c.growExtra cap + r % c.bigMod cap))) d1)
      = (match tablePlace c e' e' 0 a1 with
        | some a' => (pure (Rp.heap (sz + 1) cap bits1 a', true) : M D (Rp × Bool))
        | none => do
          let r ← drawM c g cap bits1
          let na ← (a1.toList.filter (· ≠ 0)).foldlM (fun t v => placeRaw v t)
            (Array.replicate (cap + 1 + c.growExtra cap + r % c.bigMod cap) 0)
          let na ← placeRaw e' na
          pure (Rp.heap (sz + 1) (cap + 1 + c.growExtra cap + r % c.bigMod cap) bits1 na, true)) d1 := by
    cases tablePlace c e' e' 0 a1 with
    | some a' => rfl
    | none =>
      refine dropTr_bind _ _ _ (fun r d2 => ?_) d1
      refine dropTr_bind _ _ _ (fun na d3 => ?_) d2
      refine dropTr_bind _ _ _ (fun na2 d4 => ?_) d3
      rfl
  cases RH.lookfor e' a1 0 with
  | found i => rfl
  | empty i => exact key
  | needInsert => exact key

/-- a rebuild whose trace is post-processed -/
theorem dropTr_rebuildLocal (c : Cfg) {recT : InsT D} {rec : Ins D} (h : ProjOK recT rec) (new old : Rp) (e : Nat)
    (k : Tr → Tr) (d : D) :
    dropTr ((rebuildLocalT c recT new old e >>= fun p => pure (p.1, k p.2)) d) = rebuild c rec new old e d := by
  rw [← rebuildLocalT_proj c h]
  exact dropTr_post _ k d

theorem insertBitmapT_proj (c : Cfg) (g : Rng D) {recT : InsT D} {rec : Ins D} (h : ProjOK recT rec)
    (sz cap bits : Nat) (a : Tbl) (e : Nat) (d : D) :
    dropTr (insertBitmapT c g recT sz cap bits a e d) = insertBitmap c g rec sz cap bits a e d := by
  unfold insertBitmapT insertBitmap
  dsimp only
  split
  · refine dropTr_bind _ _ _ (fun r d1 => ?_) d
    refine dropTr_bind _ _ _ (fun new d2 => ?_) d1
    exact dropTr_rebuildLocal c h new _ e (fun t => reqWCB _ _ ++ t) d2
  · cases RH.lookfor (e / bits) a bits with
    | found idx =>
      dsimp only
      split <;> rfl
    | empty i =>
      dsimp only
      cases tablePlace c (e / bits) (modW c ((e / bits) <<< bits) ||| 1 <<< (e % bits)) bits a with
      | some a' => rfl
      | none =>
        dsimp only
        generalize (if e > (a.toList.map (fun x => (x >>> bits) * bits + bits)).foldl max 0 then e
          else (a.toList.map (fun x => (x >>> bits) * bits + bits)).foldl max 0) = mx
        split
        · exact dropTr_rebuildLocal c h _ _ e (fun t => _ :: t) d
        · refine dropTr_bind _ _ _ (fun r d1 => ?_) d
          refine dropTr_bind _ _ _ (fun new d2 => ?_) d1
          exact dropTr_rebuildLocal c h new _ e (fun t => reqWCB _ _ ++ t) d2
    | needInsert =>
      dsimp only
      cases tablePlace c (e / bits) (modW c ((e / bits) <<< bits) ||| 1 <<< (e % bits)) bits a with
      | some a' => rfl
      | none =>
        dsimp only
        generalize (if e > (a.toList.map (fun x => (x >>> bits) * bits + bits)).foldl max 0 then e
          else (a.toList.map (fun x => (x >>> bits) * bits + bits)).foldl max 0) = mx
        split
        · exact dropTr_rebuildLocal c h _ _ e (fun t => _ :: t) d
        · refine dropTr_bind _ _ _ (fun r d1 => ?_) d
          refine dropTr_bind _ _ _ (fun new d2 => ?_) d1
          exact dropTr_rebuildLocal c h new _ e (fun t => reqWCB _ _ ++ t) d2

theorem insertStepT_proj (c : Cfg) (fresh : Bool) (g : Rng D) {recT : InsT D} {rec : Ins D} (h : ProjOK recT rec) :
    ProjOK (insertStepT c fresh g recT) (insertStep c g rec) := by
  intro r e d
  cases r with
  | empty =>
    unfold insertStepT insertStep
    dsimp only
    cases TinyC.newSortedDeduped c.codec [e] with
    | some t => rfl
    | none =>
      refine dropTr_bind _ _ _ (fun r d1 => ?_) d
      exact dropTr_rec h r e (fun t => reqWCM c .empty 1 e ++ t) d1
  | stack t =>
    unfold insertStepT insertStep
    dsimp only
    cases TinyC.insert c.codec t e with
    | some t' => rfl
    | none =>
      refine dropTr_bind _ _ _ (fun r d1 => ?_) d
      rw [← rebuildSelfT_proj c h]
      exact dropTr_post _ (fun tr => reqWCM c (.stack t) (t.sz + 1) _ ++ tr) d1
  | heap sz cap bits a =>
    unfold insertStepT insertStep
    dsimp only
    split
    · exact insertDenseT_proj c fresh g h sz cap a e d
    · split
      · exact insertPlainT_proj c g sz cap bits a e d
      · exact insertBitmapT_proj c g h sz cap bits a e d

theorem insertT_proj (c : Cfg) (fresh : Bool) (g : Rng D) (fuel : Nat) :
    ProjOK (insertT c fresh g fuel) (insert c g fuel) := by
  induction fuel with
  | zero => intro r e d; rfl
  | succ n ih => exact insertStepT_proj c fresh g ih

end SC

#print axioms SC.insertAllT_proj
#print axioms SC.rebuildLocalT_proj
#print axioms SC.rebuildSelfT_proj
#print axioms SC.insertStepT_proj
#print axioms SC.insertT_proj
