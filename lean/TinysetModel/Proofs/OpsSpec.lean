import TinysetModel.Model.Ops
import TinysetModel.Proofs.CoreOK
import TinysetModel.Proofs.Stack
import TinysetModel.Proofs.Plain2
import TinysetModel.Proofs.Bitmap
/-! The derived operations of `Model/Ops.lean` (`extend`, `==`, `|`, `-`, `with_capacity_of`, `drain`,
the `Hash` input, plain serde) against the abstraction `elems`, on top of the core refinement `CoreOK`. -/
namespace SC
open RH

variable {c : Cfg} {D : Type} {g : Rng D} {fuel : Nat}

/-! ### generic list facts -/
namespace Ops

theorem length_eq_of_nodup_mem {l₁ l₂ : List Nat} (d₁ : l₁.Nodup) (d₂ : l₂.Nodup)
    (h : ∀ x, x ∈ l₁ ↔ x ∈ l₂) : l₁.length = l₂.length :=
  ((List.perm_ext_iff_of_nodup d₁ d₂).2 h).length_eq

/-- a duplicate-free list included in a list that is not longer has all of its members -/
theorem subset_of_length_le : ∀ {l₁ l₂ : List Nat}, l₁.Nodup → (∀ x ∈ l₁, x ∈ l₂) → l₂.length ≤ l₁.length →
    ∀ x ∈ l₂, x ∈ l₁
  | [], l₂, _, _, hl => by
    intro x hx
    have := List.length_pos_of_mem hx
    have hl' : l₂.length ≤ 0 := hl
    omega
  | a :: t, l₂, hn, hs, hl => by
    rw [List.nodup_cons] at hn
    have ha : a ∈ l₂ := hs a List.mem_cons_self
    have hts : ∀ x ∈ t, x ∈ l₂.erase a := by
      intro x hx
      have hxa : x ≠ a := fun h => hn.1 (h ▸ hx)
      exact (List.mem_erase_of_ne hxa).2 (hs x (List.mem_cons_of_mem _ hx))
    have hlen : (l₂.erase a).length = l₂.length - 1 := by rw [List.length_erase]; simp [ha]
    have hpos : 1 ≤ l₂.length := List.length_pos_of_mem ha
    have ih := subset_of_length_le hn.2 hts (by simp only [List.length_cons] at hl; omega)
    intro x hx
    by_cases hxa : x = a
    · rw [hxa]; exact List.mem_cons_self
    · exact List.mem_cons_of_mem _ (ih x ((List.mem_erase_of_ne hxa).2 hx))

theorem mem_iff_of_subset_length {l₁ l₂ : List Nat} (d₁ : l₁.Nodup) (hs : ∀ x ∈ l₁, x ∈ l₂)
    (hl : l₁.length = l₂.length) : ∀ x, x ∈ l₁ ↔ x ∈ l₂ :=
  fun x => ⟨hs x, subset_of_length_le d₁ hs (by omega) x⟩

theorem nodup_union {A B : List Nat} (dA : A.Nodup) (dB : B.Nodup) : (A ++ B.filter (· ∉ A)).Nodup := by
  rw [List.nodup_append]
  refine ⟨dA, List.Nodup.sublist List.filter_sublist dB, fun x hx y hy hxy => ?_⟩
  have := (List.mem_filter.1 hy).2
  simp only [decide_eq_true_eq] at this
  exact this (hxy ▸ hx)

theorem mem_union {A B : List Nat} (x : Nat) : x ∈ A ++ B.filter (· ∉ A) ↔ (x ∈ A ∨ x ∈ B) := by
  rw [List.mem_append, List.mem_filter]
  simp only [decide_eq_true_eq]
  constructor
  · rintro (h | h)
    · exact Or.inl h
    · exact Or.inr h.1
  · rintro (h | h)
    · exact Or.inl h
    · by_cases hA : x ∈ A
      · exact Or.inl hA
      · exact Or.inr ⟨h, hA⟩

theorem nodup_diff {A : List Nat} (B : List Nat) (dA : A.Nodup) : (A.filter (· ∉ B)).Nodup :=
  List.Nodup.sublist List.filter_sublist dA

theorem mem_diff {A B : List Nat} (x : Nat) : x ∈ A.filter (· ∉ B) ↔ (x ∈ A ∧ x ∉ B) := by
  rw [List.mem_filter]
  simp only [decide_eq_true_eq]

/-- `Array.qsort` keeps the length -/
theorem qsort_length (as : Array Nat) :
    (as.qsort (fun a b => decide (a < b))).toList.length = as.toList.length := by
  unfold Array.qsort
  by_cases h : as.size = 0
  · rw [dif_pos h]
  · rw [dif_neg h]
    dsimp only
    rw [Vector.toList_toArray, Vector.length_toList, Array.length_toList]

/-- a list that contains a duplicate-free list of the same length is a permutation of it -/
theorem perm_of_subset_length : ∀ (l s : List Nat), l.Nodup → (∀ x ∈ l, x ∈ s) → s.length = l.length → s.Perm l
  | [], s, _, _, hlen => by
    match s, hlen with
    | [], _ => exact List.Perm.nil
  | a :: t, s, dl, hsub, hlen => by
    rw [List.nodup_cons] at dl
    have ha : a ∈ s := hsub a List.mem_cons_self
    have hts : ∀ x ∈ t, x ∈ s.erase a := by
      intro x hx
      have hxa : x ≠ a := fun h => dl.1 (h ▸ hx)
      exact (List.mem_erase_of_ne hxa).2 (hsub x (List.mem_cons_of_mem _ hx))
    have hl2 : (s.erase a).length = t.length := by
      rw [List.length_erase]; simp only [ha, if_true]
      simp only [List.length_cons] at hlen; omega
    have := perm_of_subset_length t (s.erase a) dl.2 hts hl2
    exact (List.perm_cons_erase ha).trans (List.Perm.cons a this)

/-- sorting a duplicate-free list gives a permutation of it -/
theorem qsort_perm {l : List Nat} (dl : l.Nodup) :
    ((l.toArray.qsort (fun a b => decide (a < b))).toList).Perm l := by
  obtain ⟨_, hm⟩ := QS.qsort_spec l.toArray
  have hlen := qsort_length l.toArray
  exact perm_of_subset_length l _ dl (fun x hx => (hm x).2 hx) hlen

end Ops
open Ops

/-! ### 1. `extend`, `removeAll`, `collect` -/

/-- C05: `extend` is the union with the (distinct) items -/
theorem extend_ok (core : CoreOK c g fuel) {r r' : Rp} {xs : List Nat} {d d' : D}
    (wf : WF c r) (hx : ∀ x ∈ xs, x < 2 ^ c.W) (h : extend c g fuel r xs d = .ok (r', d')) :
    WF c r' ∧ ∀ x, x ∈ elems c r' ↔ (x ∈ elems c r ∨ x ∈ xs) :=
  insertAll_ok core.ins xs r d r' d' wf hx h

theorem removeAll_aux (core : CoreOK c g fuel) : ∀ (xs : List Nat) (r : Rp) (d : D) (r' : Rp) (d' : D),
    WF c r → (∀ x ∈ xs, x < 2 ^ c.W) → removeAll c g fuel r xs d = .ok (r', d') →
    WF c r' ∧ ∀ x, x ∈ elems c r' ↔ (x ∈ elems c r ∧ x ∉ xs) := by
  intro xs
  induction xs with
  | nil =>
    intro r d r' d' wf _ h
    simp only [removeAll, List.foldlM_nil, pure, StateT.pure, Except.pure] at h
    cases h
    exact ⟨wf, by simp⟩
  | cons x xs ih =>
    intro r d r' d' wf hx h
    simp only [removeAll, List.foldlM_cons] at h
    obtain ⟨r1, d1, h1, h2⟩ := bind_ok h
    obtain ⟨p, d2, h3, h4⟩ := bind_ok h1
    simp only [pure, StateT.pure, Except.pure] at h4
    cases h4
    have s1 := core.rem r x d p.1 p.2 _ wf (hx x List.mem_cons_self) (by rw [h3])
    have := ih p.1 _ r' d' s1.wf (fun y hy => hx y (List.mem_cons_of_mem _ hy)) h2
    refine ⟨this.1, fun y => ?_⟩
    rw [this.2 y, s1.mem y]
    simp only [List.mem_cons, not_or]
    constructor
    · rintro ⟨⟨h1, h2⟩, h3⟩
      exact ⟨h1, h2, h3⟩
    · rintro ⟨h1, h2, h3⟩
      exact ⟨⟨h1, h2⟩, h3⟩

theorem removeAll_ok (core : CoreOK c g fuel) {r r' : Rp} {xs : List Nat} {d d' : D}
    (wf : WF c r) (hx : ∀ x ∈ xs, x < 2 ^ c.W) (h : removeAll c g fuel r xs d = .ok (r', d')) :
    WF c r' ∧ ∀ x, x ∈ elems c r' ↔ (x ∈ elems c r ∧ x ∉ xs) :=
  removeAll_aux core xs r d r' d' wf hx h

/-- equal member sets have equal `len` -/
theorem len_eq_of_mem_iff (core : CoreOK c g fuel) {a b : Rp} (wa : WF c a) (wb : WF c b)
    (h : ∀ x, x ∈ elems c a ↔ x ∈ elems c b) : len a = len b := by
  rw [(core.abs a wa).len, (core.abs b wb).len]
  exact length_eq_of_nodup_mem (core.abs a wa).nodup (core.abs b wb).nodup h

/-- `len` is the number of members, for any duplicate-free description `l` of the member set -/
theorem len_eq_length (core : CoreOK c g fuel) {a : Rp} (wa : WF c a) {l : List Nat} (dl : l.Nodup)
    (h : ∀ x, x ∈ elems c a ↔ x ∈ l) : len a = l.length := by
  rw [(core.abs a wa).len]
  exact length_eq_of_nodup_mem (core.abs a wa).nodup dl h

/-! ### 2. `==` -/

theorem eqSet_iff (core : CoreOK c g fuel) {a b : Rp} (wa : WF c a) (wb : WF c b) :
    eqSet c a b = true ↔ ∀ x, x ∈ elems c a ↔ x ∈ elems c b := by
  have A := core.abs a wa
  have B := core.abs b wb
  simp only [eqSet, Bool.and_eq_true, beq_iff_eq, List.all_eq_true]
  constructor
  · rintro ⟨hl, hall⟩
    have hs : ∀ x ∈ elems c a, x ∈ elems c b :=
      fun x hx => (core.con b x wb (A.range x hx)).1 (hall x hx)
    exact mem_iff_of_subset_length A.nodup hs (by rw [← A.len, ← B.len, hl])
  · intro h
    exact ⟨len_eq_of_mem_iff core wa wb h, fun x hx => (core.con b x wb (A.range x hx)).2 ((h x).1 hx)⟩

theorem eqSet64_eq_eqSet (a b : Rp) : eqSet64 c a b = eqSet c b a := by
  unfold eqSet64 eqSet
  rw [BEq.comm]

theorem eqSet64_iff (core : CoreOK c g fuel) {a b : Rp} (wa : WF c a) (wb : WF c b) :
    eqSet64 c a b = true ↔ ∀ x, x ∈ elems c a ↔ x ∈ elems c b := by
  rw [eqSet64_eq_eqSet, eqSet_iff core wb wa]
  exact ⟨fun h x => (h x).symm, fun h x => (h x).symm⟩

theorem eqSet_refl (core : CoreOK c g fuel) {a : Rp} (wa : WF c a) : eqSet c a a = true :=
  (eqSet_iff core wa wa).2 (fun _ => Iff.rfl)

theorem eqSet_symm (core : CoreOK c g fuel) {a b : Rp} (wa : WF c a) (wb : WF c b)
    (h : eqSet c a b = true) : eqSet c b a = true :=
  (eqSet_iff core wb wa).2 (fun x => ((eqSet_iff core wa wb).1 h x).symm)

theorem eqSet_trans (core : CoreOK c g fuel) {a b e : Rp} (wa : WF c a) (wb : WF c b) (we : WF c e)
    (h1 : eqSet c a b = true) (h2 : eqSet c b e = true) : eqSet c a e = true :=
  (eqSet_iff core wa we).2 (fun x => ((eqSet_iff core wa wb).1 h1 x).trans ((eqSet_iff core wb we).1 h2 x))

theorem eqSet64_refl (core : CoreOK c g fuel) {a : Rp} (wa : WF c a) : eqSet64 c a a = true :=
  (eqSet64_iff core wa wa).2 (fun _ => Iff.rfl)

theorem eqSet64_symm (core : CoreOK c g fuel) {a b : Rp} (wa : WF c a) (wb : WF c b)
    (h : eqSet64 c a b = true) : eqSet64 c b a = true :=
  (eqSet64_iff core wb wa).2 (fun x => ((eqSet64_iff core wa wb).1 h x).symm)

theorem eqSet64_trans (core : CoreOK c g fuel) {a b e : Rp} (wa : WF c a) (wb : WF c b) (we : WF c e)
    (h1 : eqSet64 c a b = true) (h2 : eqSet64 c b e = true) : eqSet64 c a e = true :=
  (eqSet64_iff core wa we).2 (fun x => ((eqSet64_iff core wa wb).1 h1 x).trans ((eqSet64_iff core wb we).1 h2 x))

/-- `==` implies equal `len` (the first thing the implementation compares) -/
theorem len_eq_of_eqSet {a b : Rp} (h : eqSet c a b = true) : len a = len b := by
  simp only [eqSet, Bool.and_eq_true, beq_iff_eq] at h
  exact h.1

/-- "collect is indistinguishable from inserting one at a time" -/
theorem collect_eq_insert_loop (ok : CfgOK c) (core : CoreOK c g fuel) {xs : List Nat}
    (hx : ∀ x ∈ xs, x < 2 ^ c.W) {d₁ d₁' d₂ d₂' : D} {r₁ r₂ : Rp}
    (h1 : fromIter c g fuel xs d₁ = .ok (r₁, d₁')) (h2 : extend c g fuel .empty xs d₂ = .ok (r₂, d₂')) :
    WF c r₁ ∧ WF c r₂ ∧ (∀ x, x ∈ elems c r₁ ↔ x ∈ elems c r₂) ∧ (∀ x, x ∈ elems c r₁ ↔ x ∈ xs) ∧
      len r₁ = len r₂ ∧ eqSet c r₁ r₂ = true := by
  obtain ⟨w1, m1⟩ := fromIter_ok ok g fuel core.ins xs hx d₁ d₁' r₁ h1
  obtain ⟨w2, m2⟩ := extend_ok core (r := .empty) trivial hx h2
  have hm : ∀ x, x ∈ elems c r₁ ↔ x ∈ elems c r₂ := by
    intro x
    rw [m1, m2, elems_empty]
    simp
  exact ⟨w1, w2, hm, m1, len_eq_of_mem_iff core w1 w2 hm, (eqSet_iff core w1 w2).2 hm⟩

/-! ### 3. `with_capacity_of` -/

/-- a well-formed heap value has a positive capacity and a non-zero `bits` field -/
theorem heap_shape_of_wf (ok : CfgOK c) {sz cap bits : Nat} {a : Tbl} (wf : WF c (.heap sz cap bits a)) :
    0 < cap ∧ bits ≠ 0 ∧ bits < 2 ^ c.W := by
  have hWlt : c.W < 2 ^ c.W := Nat.lt_two_pow_self
  by_cases hd : isDense c bits = true
  · have hb : bits = c.W := by simpa [isDense] using hd
    subst hb
    rw [WF_dense] at wf
    exact ⟨wf.cap_pos, by have := ok.W_pos; omega, hWlt⟩
  · have hd : isDense c bits = false := by simpa using hd
    by_cases hp : isPlain c bits = true
    · obtain ⟨pw, hcap, hW, _, hlt⟩ := (wf_plain_iff hp hd).1 wf
      exact ⟨by rw [hcap]; exact pw.npos, by omega, hlt⟩
    · have hp : isPlain c bits = false := by simpa using hp
      have bw := (WF_bitmap hd hp).1 wf
      exact ⟨bw.cap_pos, by have := bw.bits_pos; omega, by have := bw.bits_lt; omega⟩

/-- C07: `with_capacity_of` gives an empty well-formed set with the same capacity -/
theorem withCapOf_ok (ok : CfgOK c) {r : Rp} (wf : WF c r) :
    WF c (withCapOf r) ∧ elems c (withCapOf r) = [] ∧ capacity (withCapOf r) = capacity r := by
  match r, wf with
  | .empty, _ => exact ⟨trivial, rfl, rfl⟩
  | .stack _, _ => exact ⟨trivial, rfl, rfl⟩
  | .heap sz cap bits a, wf =>
    obtain ⟨hc, hb, hlt⟩ := heap_shape_of_wf ok wf
    exact ⟨WF_replicate c hc hb hlt, elems_zero c (fun w hw => replicate_zero_mem hw), rfl⟩

/-! ### 4. union and difference -/

/-- the common part of the three `|`: two insert loops into an empty start -/
theorem union_loops (core : CoreOK c g fuel) {a b s res : Rp} {d d' : D}
    (wa : WF c a) (wb : WF c b) (ws : WF c s) (hs : elems c s = [])
    (h : (do let s ← extend c g fuel s (elems c a); extend c g fuel s (elems c b) : M D Rp) d = .ok (res, d')) :
    WF c res ∧ (∀ x, x ∈ elems c res ↔ (x ∈ elems c a ∨ x ∈ elems c b)) := by
  obtain ⟨s1, d1, h1, h2⟩ := bind_ok h
  obtain ⟨w1, m1⟩ := extend_ok core ws (core.abs a wa).range h1
  obtain ⟨w2, m2⟩ := extend_ok core w1 (core.abs b wb).range h2
  refine ⟨w2, fun x => ?_⟩
  rw [m2, m1, hs]
  simp

theorem union_len (core : CoreOK c g fuel) {a b res : Rp} (wa : WF c a) (wb : WF c b) (wr : WF c res)
    (hm : ∀ x, x ∈ elems c res ↔ (x ∈ elems c a ∨ x ∈ elems c b)) :
    len res = (elems c a ++ (elems c b).filter (· ∉ elems c a)).length :=
  len_eq_length core wr (nodup_union (core.abs a wa).nodup (core.abs b wb).nodup)
    (fun x => by rw [hm, mem_union])

theorem diff_len (core : CoreOK c g fuel) {a b res : Rp} (wa : WF c a) (wr : WF c res)
    (hm : ∀ x, x ∈ elems c res ↔ (x ∈ elems c a ∧ x ∉ elems c b)) :
    len res = ((elems c a).filter (· ∉ elems c b)).length :=
  len_eq_length core wr (nodup_diff _ (core.abs a wa).nodup) (fun x => by rw [hm, mem_diff])

/-- `&a | &b` -/
theorem unionRef_ok (ok : CfgOK c) (core : CoreOK c g fuel) {a b res : Rp} {d d' : D}
    (wa : WF c a) (wb : WF c b) (h : unionRef c g fuel a b d = .ok (res, d')) :
    WF c res ∧ (∀ x, x ∈ elems c res ↔ (x ∈ elems c a ∨ x ∈ elems c b)) ∧
      len res = (elems c a ++ (elems c b).filter (· ∉ elems c a)).length := by
  unfold unionRef at h
  have hs : WF c (if len a > len b then withCapOf a else withCapOf b) ∧
      elems c (if len a > len b then withCapOf a else withCapOf b) = [] := by
    split
    · exact ⟨(withCapOf_ok ok wa).1, (withCapOf_ok ok wa).2.1⟩
    · exact ⟨(withCapOf_ok ok wb).1, (withCapOf_ok ok wb).2.1⟩
  obtain ⟨wr, hm⟩ := union_loops core wa wb hs.1 hs.2 h
  exact ⟨wr, hm, union_len core wa wb wr hm⟩

/-- `a | &b` (the left operand is consumed and extended) -/
theorem unionOwn_ok (core : CoreOK c g fuel) {a b res : Rp} {d d' : D}
    (wa : WF c a) (wb : WF c b) (h : unionOwn c g fuel a b d = .ok (res, d')) :
    WF c res ∧ (∀ x, x ∈ elems c res ↔ (x ∈ elems c a ∨ x ∈ elems c b)) ∧
      len res = (elems c a ++ (elems c b).filter (· ∉ elems c a)).length := by
  unfold unionOwn at h
  obtain ⟨wr, hm⟩ := extend_ok core wa (core.abs b wb).range h
  exact ⟨wr, hm, union_len core wa wb wr hm⟩

/-- `&a | &b` for `Set64` -/
theorem unionRef64_ok (core : CoreOK c g fuel) {a b res : Rp} {d d' : D}
    (wa : WF c a) (wb : WF c b) (h : unionRef64 c g fuel a b d = .ok (res, d')) :
    WF c res ∧ (∀ x, x ∈ elems c res ↔ (x ∈ elems c a ∨ x ∈ elems c b)) ∧
      len res = (elems c a ++ (elems c b).filter (· ∉ elems c a)).length := by
  unfold unionRef64 at h
  obtain ⟨wr, hm⟩ := union_loops core wa wb (s := .empty) trivial rfl h
  exact ⟨wr, hm, union_len core wa wb wr hm⟩

/-- the filter used by the borrowed differences selects the members of `a` that are not in `b` -/
theorem mem_diff_filter (core : CoreOK c g fuel) {a b : Rp} (wa : WF c a) (wb : WF c b) (x : Nat) :
    x ∈ (elems c a).filter (fun v => !contains c b v) ↔ (x ∈ elems c a ∧ x ∉ elems c b) := by
  rw [List.mem_filter]
  constructor
  · rintro ⟨h1, h2⟩
    refine ⟨h1, fun hb => ?_⟩
    rw [(core.con b x wb ((core.abs a wa).range x h1)).2 hb] at h2
    cases h2
  · rintro ⟨h1, h2⟩
    refine ⟨h1, ?_⟩
    cases hc : contains c b x with
    | false => rfl
    | true => exact absurd ((core.con b x wb ((core.abs a wa).range x h1)).1 hc) h2

theorem diff_loop (core : CoreOK c g fuel) {a b s res : Rp} {d d' : D}
    (wa : WF c a) (wb : WF c b) (ws : WF c s) (hs : elems c s = [])
    (h : extend c g fuel s ((elems c a).filter (fun v => !contains c b v)) d = .ok (res, d')) :
    WF c res ∧ (∀ x, x ∈ elems c res ↔ (x ∈ elems c a ∧ x ∉ elems c b)) ∧
      len res = ((elems c a).filter (· ∉ elems c b)).length := by
  obtain ⟨wr, m⟩ := extend_ok core ws
    (fun x hx => (core.abs a wa).range x (List.mem_filter.1 hx).1) h
  have hm : ∀ x, x ∈ elems c res ↔ (x ∈ elems c a ∧ x ∉ elems c b) := by
    intro x
    rw [m, hs, mem_diff_filter core wa wb]
    simp
  exact ⟨wr, hm, diff_len core wa wr hm⟩

/-- `&a - &b` -/
theorem diffRef_ok (ok : CfgOK c) (core : CoreOK c g fuel) {a b res : Rp} {d d' : D}
    (wa : WF c a) (wb : WF c b) (h : diffRef c g fuel a b d = .ok (res, d')) :
    WF c res ∧ (∀ x, x ∈ elems c res ↔ (x ∈ elems c a ∧ x ∉ elems c b)) ∧
      len res = ((elems c a).filter (· ∉ elems c b)).length :=
  diff_loop core wa wb (withCapOf_ok ok wa).1 (withCapOf_ok ok wa).2.1 h

/-- `&a - &b` for `Set64` -/
theorem diffRef64_ok (core : CoreOK c g fuel) {a b res : Rp} {d d' : D}
    (wa : WF c a) (wb : WF c b) (h : diffRef64 c g fuel a b d = .ok (res, d')) :
    WF c res ∧ (∀ x, x ∈ elems c res ↔ (x ∈ elems c a ∧ x ∉ elems c b)) ∧
      len res = ((elems c a).filter (· ∉ elems c b)).length :=
  diff_loop core wa wb (s := .empty) trivial rfl h

/-- `a - &b` (the left operand is consumed; a remove loop) -/
theorem diffOwn_ok (core : CoreOK c g fuel) {a b res : Rp} {d d' : D}
    (wa : WF c a) (wb : WF c b) (h : diffOwn c g fuel a b d = .ok (res, d')) :
    WF c res ∧ (∀ x, x ∈ elems c res ↔ (x ∈ elems c a ∧ x ∉ elems c b)) ∧
      len res = ((elems c a).filter (· ∉ elems c b)).length := by
  unfold diffOwn at h
  obtain ⟨wr, hm⟩ := removeAll_ok core wa (core.abs b wb).range h
  exact ⟨wr, hm, diff_len core wa wr hm⟩

/-! the case `a = b` needs no extra hypothesis; spelled out: -/

theorem unionRef_self (ok : CfgOK c) (core : CoreOK c g fuel) {a res : Rp} {d d' : D}
    (wa : WF c a) (h : unionRef c g fuel a a d = .ok (res, d')) :
    WF c res ∧ (∀ x, x ∈ elems c res ↔ x ∈ elems c a) ∧ len res = len a := by
  obtain ⟨wr, hm, _⟩ := unionRef_ok ok core wa wa h
  have hm' : ∀ x, x ∈ elems c res ↔ x ∈ elems c a := fun x => by rw [hm]; exact or_self_iff
  exact ⟨wr, hm', len_eq_of_mem_iff core wr wa hm'⟩

theorem diffRef_self (ok : CfgOK c) (core : CoreOK c g fuel) {a res : Rp} {d d' : D}
    (wa : WF c a) (h : diffRef c g fuel a a d = .ok (res, d')) :
    WF c res ∧ elems c res = [] ∧ len res = 0 := by
  obtain ⟨wr, hm, _⟩ := diffRef_ok ok core wa wa h
  have he : elems c res = [] := by
    rw [List.eq_nil_iff_forall_not_mem]
    intro x hx
    exact ((hm x).1 hx).2 ((hm x).1 hx).1
  exact ⟨wr, he, by rw [(core.abs res wr).len, he]; rfl⟩

theorem diffOwn_self (core : CoreOK c g fuel) {a res : Rp} {d d' : D}
    (wa : WF c a) (h : diffOwn c g fuel a a d = .ok (res, d')) :
    WF c res ∧ elems c res = [] ∧ len res = 0 := by
  obtain ⟨wr, hm, _⟩ := diffOwn_ok core wa wa h
  have he : elems c res = [] := by
    rw [List.eq_nil_iff_forall_not_mem]
    intro x hx
    exact ((hm x).1 hx).2 ((hm x).1 hx).1
  exact ⟨wr, he, by rw [(core.abs res wr).len, he]; rfl⟩

/-! ### 5. the `Hash` input -/

/-- the hasher is fed the members in increasing order: strictly sorted, exactly the members -/
theorem hashInput_spec (core : CoreOK c g fuel) {a : Rp} (wa : WF c a) :
    (hashInput c a).Pairwise (· < ·) ∧ (hashInput c a).Perm (elems c a) := by
  have hp := qsort_perm (core.abs a wa).nodup
  obtain ⟨hs, _⟩ := QS.qsort_spec (elems c a).toArray
  refine ⟨?_, hp⟩
  have hn : (hashInput c a).Nodup := hp.symm.nodup (core.abs a wa).nodup
  have hs : (hashInput c a).Pairwise (· ≤ ·) := hs
  have : (hashInput c a).Pairwise (fun x y => x ≤ y ∧ x ≠ y) := hs.and hn
  exact this.imp (fun h => by omega)

/-- equal sets feed the hasher the same sequence, whatever their representations -/
theorem hashInput_congr (core : CoreOK c g fuel) {a b : Rp} (wa : WF c a) (wb : WF c b)
    (h : ∀ x, x ∈ elems c a ↔ x ∈ elems c b) : hashInput c a = hashInput c b := by
  obtain ⟨sa, pa⟩ := hashInput_spec core wa
  obtain ⟨sb, pb⟩ := hashInput_spec core wb
  have pab : (elems c a).Perm (elems c b) :=
    (List.perm_ext_iff_of_nodup (core.abs a wa).nodup (core.abs b wb).nodup).2 h
  have p : (hashInput c a).Perm (hashInput c b) := pa.trans (pab.trans pb.symm)
  exact List.Perm.eq_of_pairwise (le := (· < ·)) (fun x y _ _ h1 h2 => by omega) sa sb p

/-- in particular `==` sets hash alike -/
theorem hashInput_of_eqSet (core : CoreOK c g fuel) {a b : Rp} (wa : WF c a) (wb : WF c b)
    (h : eqSet c a b = true) : hashInput c a = hashInput c b :=
  hashInput_congr core wa wb ((eqSet_iff core wa wb).1 h)

/-! ### 6. `drain` -/

theorem drain_ok (r : Rp) : (drain c r).1 = .empty ∧ (drain c r).2 = elems c r ∧ WF c (drain c r).1 :=
  ⟨rfl, rfl, trivial⟩

/-! ### 7. plain serde (C16): a sequence of the members, read back with an insert loop -/

def ser (c : Cfg) (r : Rp) : List Nat := elems c r
def de (c : Cfg) {D : Type} (g : Rng D) (fuel : Nat) (xs : List Nat) : M D Rp := extend c g fuel .empty xs

theorem ser_length (core : CoreOK c g fuel) {r : Rp} (wf : WF c r) : (ser c r).length = len r :=
  ((core.abs r wf).len).symm

theorem ser_nodup (core : CoreOK c g fuel) {r : Rp} (wf : WF c r) : (ser c r).Nodup :=
  (core.abs r wf).nodup

/-- any sequence (any order, duplicates) deserialises to a well-formed set of exactly its items -/
theorem de_ok (core : CoreOK c g fuel) {xs : List Nat} (hx : ∀ x ∈ xs, x < 2 ^ c.W) {d d' : D} {r : Rp}
    (h : de c g fuel xs d = .ok (r, d')) : WF c r ∧ ∀ x, x ∈ elems c r ↔ x ∈ xs := by
  obtain ⟨w, m⟩ := extend_ok core (r := .empty) trivial hx h
  refine ⟨w, fun x => ?_⟩
  rw [m, elems_empty]
  simp

/-- the order and multiplicity of the serialised items do not matter -/
theorem de_congr (core : CoreOK c g fuel) {xs ys : List Nat} (hx : ∀ x ∈ xs, x < 2 ^ c.W)
    (hxy : ∀ x, x ∈ xs ↔ x ∈ ys) {d₁ d₁' d₂ d₂' : D} {r₁ r₂ : Rp}
    (h1 : de c g fuel xs d₁ = .ok (r₁, d₁')) (h2 : de c g fuel ys d₂ = .ok (r₂, d₂')) :
    eqSet c r₁ r₂ = true := by
  obtain ⟨w1, m1⟩ := de_ok core hx h1
  obtain ⟨w2, m2⟩ := de_ok core (fun y hy => hx y ((hxy y).2 hy)) h2
  exact (eqSet_iff core w1 w2).2 (fun x => by rw [m1, m2, hxy])

/-- the round trip gives back an equal set -/
theorem de_ser (core : CoreOK c g fuel) {r r' : Rp} (wf : WF c r) {d d' : D}
    (h : de c g fuel (ser c r) d = .ok (r', d')) :
    WF c r' ∧ eqSet c r' r = true ∧ eqSet c r r' = true ∧ eqSet64 c r' r = true ∧ len r' = len r ∧
      (ser c r').Perm (ser c r) := by
  obtain ⟨w, m⟩ := de_ok core (core.abs r wf).range h
  have e1 := (eqSet_iff core w wf).2 m
  refine ⟨w, e1, eqSet_symm core w wf e1, (eqSet64_iff core w wf).2 m, len_eq_of_mem_iff core w wf m, ?_⟩
  exact (List.perm_ext_iff_of_nodup (core.abs r' w).nodup (core.abs r wf).nodup).2 m

#print axioms extend_ok
#print axioms removeAll_ok
#print axioms collect_eq_insert_loop
#print axioms eqSet_iff
#print axioms eqSet64_iff
#print axioms eqSet_refl
#print axioms eqSet_symm
#print axioms eqSet_trans
#print axioms eqSet64_refl
#print axioms eqSet64_symm
#print axioms eqSet64_trans
#print axioms withCapOf_ok
#print axioms unionRef_ok
#print axioms unionOwn_ok
#print axioms unionRef64_ok
#print axioms diffRef_ok
#print axioms diffOwn_ok
#print axioms diffRef64_ok
#print axioms unionRef_self
#print axioms diffRef_self
#print axioms diffOwn_self
#print axioms hashInput_spec
#print axioms hashInput_congr
#print axioms hashInput_of_eqSet
#print axioms drain_ok
#print axioms ser_length
#print axioms de_ok
#print axioms de_congr
#print axioms de_ser
end SC
