import TinysetModel.Proofs.ProgramRefine
import TinysetModel.Proofs.TotalOpsRun
/-! Programs over several sets RETURN: every operation of every hint-free program (insert / remove / extend /
collect / clone / with_capacity_of / drop / the four operator forms over any number of simultaneously live sets)
returns normally, for every generator outcome, as long as the total number of items the program feeds in stays
below the size bound of the set type (2^59 items for `SetU64`, 2^27 for `SetU32`).  With `prun_refines` and
`prun_ledger` (same runs): total correctness of programs.  Capacity hints are excluded here as in C11/C20's
history theorems (a hinted table may be arbitrarily large). -/
namespace SC
open RH (Tbl get put)

variable {c : Cfg} {D : Type}

/-- the per-operation "returns, is right, stays reachable" theorems of a configuration, for sets whose high-water
    mark is below `N` -/
structure HistTotal (c : Cfg) (g : Rng D) (fuel N : Nat) : Prop where
  ok : CfgOK c
  cc : CapCfg c
  ins : ∀ {r M}, Hist c g r M → M < N → ∀ e, e < 2 ^ c.W → ∀ d, ∃ r' b d',
    insert c g (fuel + 2) r e d = .ok ((r', b), d') ∧ InsOK c r e r' b ∧ Hist c g r' (Max.max M (len r'))
  rem : ∀ {r M}, Hist c g r M → ∀ e, e < 2 ^ c.W → ∀ d, ∃ r' b d',
    remove c g (fuel + 2) r e d = .ok ((r', b), d') ∧ RemOK c r e r' b ∧ Hist c g r' M
  col : ∀ xs, (∀ x ∈ xs, x < 2 ^ c.W) → xs.length < N → ∀ d, ∃ r d',
    fromIter c g (fuel + 2) xs d = .ok (r, d') ∧ (∀ x, x ∈ elems c r ↔ x ∈ xs) ∧ Hist c g r (len r)
  ext : ∀ {r M}, Hist c g r M → ∀ xs, (∀ x ∈ xs, x < 2 ^ c.W) → M + xs.length < N → ∀ d, ∃ r' d',
    extend c g (fuel + 2) r xs d = .ok (r', d') ∧ (∀ x, x ∈ elems c r' ↔ (x ∈ elems c r ∨ x ∈ xs)) ∧
      Hist c g r' (Max.max M (len r'))
  uniRef : ∀ {a b Ma Mb}, Hist c g a Ma → Hist c g b Mb → Ma + Mb < N → ∀ d, ∃ r d',
    unionRef c g (fuel + 2) a b d = .ok (r, d') ∧ (∀ x, x ∈ elems c r ↔ (x ∈ elems c a ∨ x ∈ elems c b)) ∧
      Hist c g r (Max.max (Max.max Ma Mb) (len r))
  uniOwn : ∀ {a b Ma Mb}, Hist c g a Ma → Hist c g b Mb → Ma + Mb < N → ∀ d, ∃ r d',
    unionOwn c g (fuel + 2) a b d = .ok (r, d') ∧ (∀ x, x ∈ elems c r ↔ (x ∈ elems c a ∨ x ∈ elems c b)) ∧
      Hist c g r (Max.max Ma (len r))
  difRef : ∀ {a b Ma Mb}, Hist c g a Ma → Hist c g b Mb → Ma < N → ∀ d, ∃ r d',
    diffRef c g (fuel + 2) a b d = .ok (r, d') ∧ (∀ x, x ∈ elems c r ↔ (x ∈ elems c a ∧ x ∉ elems c b)) ∧
      Hist c g r Ma
  difOwn : ∀ {a b Ma Mb}, Hist c g a Ma → Hist c g b Mb → ∀ d, ∃ r d',
    diffOwn c g (fuel + 2) a b d = .ok (r, d') ∧ (∀ x, x ∈ elems c r ↔ (x ∈ elems c a ∧ x ∉ elems c b)) ∧
      Hist c g r Ma

theorem histTotal_u64 (g : Rng D) (fuel : Nat) : HistTotal cfg64 g fuel (2 ^ 60) where
  ok := cfg64_ok
  cc := capCfg64
  ins := fun h hM e he d => hist_insert_total_u64 g fuel h hM e he d
  rem := fun h e he d => hist_remove_total_u64 g fuel h e he d
  col := fun xs hx hl d => hist_collect_total_u64 g fuel xs hx hl d
  ext := fun h xs hx hs d => hist_extend_total_u64 g fuel h xs hx hs d
  uniRef := fun ha hb hs d => hist_unionRef_total_u64 g fuel ha hb hs d
  uniOwn := fun ha hb hs d => hist_unionOwn_total_u64 g fuel ha hb hs d
  difRef := fun ha hb hs d => hist_diffRef_total_u64 g fuel ha hb hs d
  difOwn := fun ha hb d => hist_diffOwn_total_u64 g fuel ha hb d

theorem histTotal_u32 (g : Rng D) (fuel : Nat) : HistTotal cfg32 g fuel (2 ^ 28) where
  ok := cfg32_ok
  cc := capCfg32
  ins := fun h hM e he d => hist_insert_total_u32 g fuel h hM e he d
  rem := fun h e he d => hist_remove_total_u32 g fuel h e he d
  col := fun xs hx hl d => hist_collect_total_u32 g fuel xs hx hl d
  ext := fun h xs hx hs d => hist_extend_total_u32 g fuel h xs hx hs d
  uniRef := fun ha hb hs d => hist_unionRef_total_u32 g fuel ha hb hs d
  uniOwn := fun ha hb hs d => hist_unionOwn_total_u32 g fuel ha hb hs d
  difRef := fun ha hb hs d => hist_diffRef_total_u32 g fuel ha hb hs d
  difOwn := fun ha hb d => hist_diffOwn_total_u32 g fuel ha hb d

/-- items an operation feeds into the program -/
def POp.items : POp → List Nat
  | .ins _ e => [e]
  | .ext _ xs | .col _ xs => xs
  | _ => []

/-- capacity hints are not part of these programs -/
def POp.hintFree : POp → Prop
  | .wcb _ _ _ | .wcm _ _ _ => False
  | _ => True

def pitems (ops : List POp) : Nat := (ops.map (fun op => op.items.length)).sum

/-- every slot is reachable with a high-water mark of at most `|U|`, and holds only values of `U` (everything fed
    into the program so far) -/
def Reach (c : Cfg) (g : Rng D) (s : Slots) (U : List Nat) : Prop :=
  ∀ i, i < s.length → ∃ M, Hist c g (s.get i) M ∧ M ≤ U.length ∧ ∀ x, x ∈ elems c (s.get i) → x ∈ U

theorem reach_mono {g : Rng D} {s : Slots} {U V : List Nat} (h : Reach c g s U) (hs : ∀ x, x ∈ U → x ∈ V)
    (hl : U.length ≤ V.length) : Reach c g s V := by
  intro i hi
  obtain ⟨M, hh, hm, hu⟩ := h i hi
  exact ⟨M, hh, by omega, fun x hx => hs x (hu x hx)⟩

theorem reach_set {g : Rng D} {s : Slots} {U : List Nat} (h : Reach c g s U) {i : Nat} (hi : i < s.length) {r : Rp} {M : Nat}
    (hh : Hist c g r M) (hm : M ≤ U.length) (hu : ∀ x, x ∈ elems c r → x ∈ U) : Reach c g (s.set i r) U := by
  intro j hj
  have hj' : j < s.length := by simpa using hj
  by_cases e : j = i
  · subst e
    rw [get_set_self s j r hi]
    exact ⟨M, hh, hm, hu⟩
  · rw [get_set_ne s r e]
    exact h j hj'

theorem max_le_of {a b n : Nat} (ha : a ≤ n) (hb : b ≤ n) : Max.max a b ≤ n := Nat.max_le.mpr ⟨ha, hb⟩

theorem of_proj2 {X : Except Err (((Rp × Bool) × List Ev) × D)} {Y : Except Err ((Rp × Bool) × D)} {res : Rp × Bool} {d' : D}
    (hp : dropEv2 X = Y) (h : Y = .ok (res, d')) : ∃ evs, X = .ok ((res, evs), d') := by
  rw [h] at hp
  cases hq : X with
  | error y => rw [hq] at hp; cases hp
  | ok q =>
    obtain ⟨⟨res', evs⟩, d2⟩ := q
    rw [hq] at hp
    simp only [dropEv2, Except.ok.injEq, Prod.mk.injEq] at hp
    obtain ⟨rfl, rfl⟩ := hp
    exact ⟨evs, rfl⟩

theorem of_proj1 {X : Except Err ((Rp × List Ev) × D)} {Y : Except Err (Rp × D)} {res : Rp} {d' : D}
    (hp : dropEv1 X = Y) (h : Y = .ok (res, d')) : ∃ evs, X = .ok ((res, evs), d') := by
  rw [h] at hp
  cases hq : X with
  | error y => rw [hq] at hp; cases hp
  | ok q =>
    obtain ⟨⟨res', evs⟩, d2⟩ := q
    rw [hq] at hp
    simp only [dropEv1, Except.ok.injEq, Prod.mk.injEq] at hp
    obtain ⟨rfl, rfl⟩ := hp
    exact ⟨evs, rfl⟩

section
variable {g : Rng D} {fuel N : Nat} (tot : HistTotal c g fuel N)
include tot

theorem hist_len_le {r : Rp} {M : Nat} (h : Hist c g r M) {U : List Nat} (hu : ∀ x, x ∈ elems c r → x ∈ U) :
    len r ≤ U.length := by
  have wf := (hist_ok tot.ok tot.cc g (fun f => coreOK tot.ok g f) h).1
  have a := absOK_of_wf tot.ok wf
  rw [a.len]
  exact a.nodup.length_le_of_subset (fun x hx => hu x hx)

/-- one operation returns -/
theorem pstep_total (fresh : Bool) {s : Slots} {U : List Nat} {op : POp} (hf : op.hintFree) (hr : op.InRange c.W)
    (hN : 2 * (U.length + op.items.length) < N) (rc : Reach c g s U) (d : D) :
    ∃ s' evs d', pstep c fresh g (fuel + 2) s op d = .ok ((s', evs), d') ∧ s'.length = s.length ∧
      Reach c g s' (op.items ++ U) := by
  unfold pstep
  by_cases hidx : op.idx.all (· < s.length) = true
  case neg =>
    rw [if_neg hidx]
    exact ⟨s, [], d, rfl, rfl, reach_mono rc (fun x hx => List.mem_append_right _ hx) (by simp)⟩
  rw [if_pos hidx]
  have hlt := idx_lt hidx
  have okv := tot.ok
  cases op with
  | ins i e =>
    have hi := hlt i (by simp [POp.idx])
    obtain ⟨M, hh, hm, hu⟩ := rc i hi
    simp only [POp.items, List.length_singleton] at hN
    obtain ⟨r', b, d', h1, io, hh'⟩ := tot.ins hh (by omega) e hr d
    obtain ⟨evs, hq⟩ := of_proj2 (insertE_proj c fresh g (fuel + 2) (s.get i) e d) h1
    · skip
      refine ⟨s.set i r', evs, d', ?_, by simp, ?_⟩
      · simp only [pstepCore, bind, StateT.bind, Except.bind, hq, pure, StateT.pure, Except.pure]
      · have hu' : ∀ x, x ∈ elems c r' → x ∈ [e] ++ U := by
          intro x hx
          rcases (io.mem x).mp hx with h | h
          · exact List.mem_append_right _ (hu x h)
          · subst h; simp
        have rc' := reach_mono rc (V := [e] ++ U) (fun x hx => List.mem_append_right _ hx) (by simp)
        exact reach_set rc' hi hh' (max_le_of (by simp only [List.length_append]; omega) (hist_len_le tot hh' hu')) hu'
  | rem i e =>
    have hi := hlt i (by simp [POp.idx])
    obtain ⟨M, hh, hm, hu⟩ := rc i hi
    obtain ⟨r', b, d', h1, ro, hh'⟩ := tot.rem hh e hr d
    obtain ⟨evs, hq⟩ := of_proj2 (removeE_proj c fresh g (fuel + 2) (s.get i) e d) h1
    · skip
      refine ⟨s.set i r', evs, d', ?_, by simp, ?_⟩
      · simp only [pstepCore, bind, StateT.bind, Except.bind, hq, pure, StateT.pure, Except.pure]
      · simp only [POp.items, List.nil_append]
        exact reach_set rc hi hh' hm (fun x hx => hu x ((ro.mem x).mp hx).1)
  | ext i xs =>
    have hi := hlt i (by simp [POp.idx])
    obtain ⟨M, hh, hm, hu⟩ := rc i hi
    simp only [POp.items] at hN
    obtain ⟨r', d', h1, hmem, hh'⟩ := tot.ext hh xs hr (by omega) d
    obtain ⟨evs, hq⟩ := of_proj1 (extendE_proj c fresh g (fuel + 2) (s.get i) xs d) h1
    · skip
      refine ⟨s.set i r', evs, d', ?_, by simp, ?_⟩
      · simp only [pstepCore, bind, StateT.bind, Except.bind, hq, pure, StateT.pure, Except.pure]
      · have hu' : ∀ x, x ∈ elems c r' → x ∈ xs ++ U := by
          intro x hx
          rcases (hmem x).mp hx with h | h
          · exact List.mem_append_right _ (hu x h)
          · exact List.mem_append_left _ h
        have rc' := reach_mono rc (V := xs ++ U) (fun x hx => List.mem_append_right _ hx) (by simp)
        exact reach_set rc' hi hh' (max_le_of (by simp only [List.length_append]; omega) (hist_len_le tot hh' hu')) hu'
  | col i xs =>
    have hi := hlt i (by simp [POp.idx])
    simp only [POp.items] at hN
    obtain ⟨r', d', h1, hmem, hh'⟩ := tot.col xs hr (by omega) d
    obtain ⟨evs, hq⟩ := of_proj1 (fromIterE_proj c fresh g (fuel + 2) xs d) h1
    · skip
      refine ⟨s.set i r', evs ++ freeEv c (s.get i), d', ?_, by simp, ?_⟩
      · simp only [pstepCore, assign, bind, StateT.bind, Except.bind, hq, pure, StateT.pure, Except.pure]
      · have hu' : ∀ x, x ∈ elems c r' → x ∈ xs ++ U := fun x hx => List.mem_append_left _ ((hmem x).mp hx)
        have rc' := reach_mono rc (V := xs ++ U) (fun x hx => List.mem_append_right _ hx) (by simp)
        exact reach_set rc' hi hh' (hist_len_le tot hh' hu') hu'
  | clone i j =>
    have hi := hlt i (by simp [POp.idx])
    have hj := hlt j (by simp [POp.idx])
    obtain ⟨M, hh, hm, hu⟩ := rc j hj
    refine ⟨s.set i (clone (s.get j)), _, d, rfl, by simp, ?_⟩
    simp only [POp.items, List.nil_append]
    exact reach_set rc hi (Hist.clone hh) hm hu
  | wco i j =>
    have hi := hlt i (by simp [POp.idx])
    have hj := hlt j (by simp [POp.idx])
    obtain ⟨M, hh, hm, hu⟩ := rc j hj
    refine ⟨s.set i (withCapOf (s.get j)), _, d, rfl, by simp, ?_⟩
    simp only [POp.items, List.nil_append]
    have wf := (hist_ok tot.ok tot.cc g (fun f => coreOK tot.ok g f) hh).1
    have w := withCapOf_ok tot.ok wf
    exact reach_set rc hi (Hist.withCapOf hh) hm (fun x hx => by rw [w.2.1] at hx; cases hx)
  | wcb i cap bits => exact absurd hf (by simp [POp.hintFree])
  | wcm i cap mx => exact absurd hf (by simp [POp.hintFree])
  | drop i =>
    have hi := hlt i (by simp [POp.idx])
    refine ⟨s.set i .empty, _, d, rfl, by simp, ?_⟩
    simp only [POp.items, List.nil_append]
    exact reach_set rc hi Hist.new (Nat.zero_le _) (fun x hx => by simp [elems] at hx)
  | uniRef k i j =>
    have hk := hlt k (by simp [POp.idx])
    have hi := hlt i (by simp [POp.idx])
    have hj := hlt j (by simp [POp.idx])
    obtain ⟨Ma, ha, hma, hua⟩ := rc i hi
    obtain ⟨Mb, hb, hmb, hub⟩ := rc j hj
    simp only [POp.items, List.length_nil] at hN
    obtain ⟨r', d', h1, hmem, hh'⟩ := tot.uniRef ha hb (by omega) d
    obtain ⟨evs, hq⟩ := of_proj1 (unionRefE_proj c fresh g (fuel + 2) (s.get i) (s.get j) d) h1
    · skip
      refine ⟨s.set k r', evs ++ freeEv c (s.get k), d', ?_, by simp, ?_⟩
      · simp only [pstepCore, assign, bind, StateT.bind, Except.bind, hq, pure, StateT.pure, Except.pure]
      · simp only [POp.items, List.nil_append]
        have hu' : ∀ x, x ∈ elems c r' → x ∈ U := by
          intro x hx
          rcases (hmem x).mp hx with h | h
          · exact hua x h
          · exact hub x h
        exact reach_set rc hk hh' (max_le_of (max_le_of hma hmb) (hist_len_le tot hh' hu')) hu'
  | difRef k i j =>
    have hk := hlt k (by simp [POp.idx])
    have hi := hlt i (by simp [POp.idx])
    have hj := hlt j (by simp [POp.idx])
    obtain ⟨Ma, ha, hma, hua⟩ := rc i hi
    obtain ⟨Mb, hb, hmb, hub⟩ := rc j hj
    simp only [POp.items, List.length_nil] at hN
    obtain ⟨r', d', h1, hmem, hh'⟩ := tot.difRef ha hb (by omega) d
    obtain ⟨evs, hq⟩ := of_proj1 (diffRefE_proj c fresh g (fuel + 2) (s.get i) (s.get j) d) h1
    · skip
      refine ⟨s.set k r', evs ++ freeEv c (s.get k), d', ?_, by simp, ?_⟩
      · simp only [pstepCore, assign, bind, StateT.bind, Except.bind, hq, pure, StateT.pure, Except.pure]
      · simp only [POp.items, List.nil_append]
        exact reach_set rc hk hh' hma (fun x hx => hua x ((hmem x).mp hx).1)
  | uniOwn k i j =>
    have hk := hlt k (by simp [POp.idx])
    have hi := hlt i (by simp [POp.idx])
    have hj := hlt j (by simp [POp.idx])
    simp only [pstepCore]
    by_cases e : i = j
    · rw [if_pos e]
      exact ⟨s, [], d, rfl, rfl, by simpa [POp.items] using rc⟩
    · rw [if_neg e]
      obtain ⟨Ma, ha, hma, hua⟩ := rc i hi
      obtain ⟨Mb, hb, hmb, hub⟩ := rc j hj
      simp only [POp.items, List.length_nil] at hN
      obtain ⟨r', d', h1, hmem, hh'⟩ := tot.uniOwn ha hb (by omega) d
      obtain ⟨evs, hq⟩ := of_proj1 (unionOwnE_proj c fresh g (fuel + 2) (s.get i) (s.get j) d) h1
      · skip
        refine ⟨(s.set i .empty).set k r', evs ++ freeEv c (Slots.get (s.set i .empty) k), d', ?_, by simp, ?_⟩
        · simp only [assign, bind, StateT.bind, Except.bind, hq, pure, StateT.pure, Except.pure]
        · simp only [POp.items, List.nil_append]
          have hu' : ∀ x, x ∈ elems c r' → x ∈ U := by
            intro x hx
            rcases (hmem x).mp hx with h | h
            · exact hua x h
            · exact hub x h
          have r1 := reach_set rc hi (Hist.new (c := c) (g := g)) (Nat.zero_le _) (fun x hx => by simp [elems] at hx)
          exact reach_set r1 (by simpa using hk) hh' (max_le_of hma (hist_len_le tot hh' hu')) hu'
  | difOwn k i j =>
    have hk := hlt k (by simp [POp.idx])
    have hi := hlt i (by simp [POp.idx])
    have hj := hlt j (by simp [POp.idx])
    simp only [pstepCore]
    by_cases e : i = j
    · rw [if_pos e]
      exact ⟨s, [], d, rfl, rfl, by simpa [POp.items] using rc⟩
    · rw [if_neg e]
      obtain ⟨Ma, ha, hma, hua⟩ := rc i hi
      obtain ⟨Mb, hb, hmb, hub⟩ := rc j hj
      obtain ⟨r', d', h1, hmem, hh'⟩ := tot.difOwn ha hb d
      obtain ⟨evs, hq⟩ := of_proj1 (diffOwnE_proj c fresh g (fuel + 2) (s.get i) (s.get j) d) h1
      · skip
        refine ⟨(s.set i .empty).set k r', evs ++ freeEv c (Slots.get (s.set i .empty) k), d', ?_, by simp, ?_⟩
        · simp only [assign, bind, StateT.bind, Except.bind, hq, pure, StateT.pure, Except.pure]
        · simp only [POp.items, List.nil_append]
          have r1 := reach_set rc hi (Hist.new (c := c) (g := g)) (Nat.zero_le _) (fun x hx => by simp [elems] at hx)
          exact reach_set r1 (by simpa using hk) hh' hma (fun x hx => hua x ((hmem x).mp hx).1)

/-- whole programs return -/
theorem prun_total (fresh : Bool) (ops : List POp) : ∀ {s : Slots} {U : List Nat} (d : D),
    (∀ op ∈ ops, op.hintFree ∧ op.InRange c.W) → 2 * (U.length + pitems ops) < N → Reach c g s U →
    ∃ s' evs d', prun c fresh g (fuel + 2) s ops d = .ok ((s', evs), d') := by
  induction ops with
  | nil => intro s U d _ _ _; exact ⟨s, [], d, rfl⟩
  | cons op ops ih =>
    intro s U d hops hN rc
    have h1 := hops op List.mem_cons_self
    have hsum : pitems (op :: ops) = op.items.length + pitems ops := by simp [pitems]
    rw [hsum] at hN
    obtain ⟨s1, t1, d1, e1, _, rc1⟩ := pstep_total tot fresh h1.1 h1.2 (by omega) rc d
    obtain ⟨s2, t2, d2, e2⟩ := ih (U := op.items ++ U) d1 (fun o ho => hops o (List.mem_cons_of_mem _ ho))
      (by simp only [List.length_append]; omega) rc1
    exact ⟨s2, t1 ++ t2, d2, by simp only [prun, bind, StateT.bind, Except.bind, e1, e2, pure, StateT.pure, Except.pure]⟩

end

theorem reach_replicate (g : Rng D) (n : Nat) : Reach c g (List.replicate n Rp.empty) [] := by
  intro i hi
  have : Slots.get (List.replicate n Rp.empty) i = .empty := by
    simp [Slots.get, List.getD_eq_getElem?_getD, List.getElem?_replicate]
    split <;> rfl
  rw [this]
  exact ⟨0, Hist.new, Nat.le_refl _, fun x hx => by simp [elems] at hx⟩

/-- **total correctness of programs**: `n` new sets, any hint-free program with arguments of the element type that
feeds in fewer than `N/2` items in total, any generator: the run RETURNS, every set is well formed and holds exactly
the members the same program over ideal sets gives it, and the allocator calls of the run followed by the drops of
all sets are legal and leave nothing live -/
theorem program_total_correct {g : Rng D} {fuel N : Nat} (tot : HistTotal c g fuel N) (fresh : Bool) (n : Nat) (ops : List POp)
    (hops : ∀ op ∈ ops, op.hintFree ∧ op.InRange c.W) (hN : 2 * pitems ops < N) (d : D) :
    ∃ s' evs d', prun c fresh g (fuel + 2) (List.replicate n .empty) ops d = .ok ((s', evs), d') ∧
      (∀ i, i < n → WF c (s'.get i) ∧ ∀ x, x ∈ elems c (s'.get i) ↔ specRunP n (fun _ => none') ops i x) ∧
      runEv [] (evs ++ dropAll c s') = some [] := by
  obtain ⟨s', evs, d', h⟩ := prun_total tot fresh ops (U := []) d hops (by simpa using hN) (reach_replicate g n)
  exact ⟨s', evs, d', h, program_correct_and_balanced tot.ok fresh g (fuel + 2) n ops (fun op ho => (hops op ho).2) h⟩

end SC

#print axioms SC.prun_total
#print axioms SC.program_total_correct
