import TinysetModel.Proofs.AllocBalance
/-! Balance of the remaining operations and of whole programs over several simultaneously live sets
(`pstep`, `prun` of `Model/Alloc.lean`): at every point of every program the ledger of live blocks is, as a
multiset, exactly the blocks of the live sets; every release/resize names a live block with its size; after
every set has gone out of scope nothing is live. -/
namespace SC
open RH (Tbl get put)

variable {c : Cfg} {D : Type}

/-! ### the allocator's ledger does not care about the order of its entries -/

theorem applyEv_perm {L1 L2 : List Nat} (hp : L1.Perm L2) (ev : Ev) {L1' : List Nat} (h : applyEv L1 ev = some L1') :
    ∃ L2', applyEv L2 ev = some L2' ∧ L1'.Perm L2' := by
  cases ev with
  | alloc b =>
    simp only [applyEv, Option.some.injEq] at h ⊢
    subst h
    exact ⟨_, rfl, hp.cons b⟩
  | free b =>
    simp only [applyEv] at h ⊢
    split at h
    · rename_i hm
      simp only [Option.some.injEq] at h
      subst h
      rw [if_pos (hp.mem_iff.mp hm)]
      exact ⟨_, rfl, hp.erase b⟩
    · cases h
  | realloc o n =>
    simp only [applyEv] at h ⊢
    split at h
    · rename_i hm
      simp only [Option.some.injEq] at h
      subst h
      rw [if_pos (hp.mem_iff.mp hm)]
      exact ⟨_, rfl, (hp.erase o).cons n⟩
    · cases h

theorem runEv_perm (evs : List Ev) : ∀ {L1 L2 L1' : List Nat}, L1.Perm L2 → runEv L1 evs = some L1' →
    ∃ L2', runEv L2 evs = some L2' ∧ L1'.Perm L2' := by
  induction evs with
  | nil =>
    intro L1 L2 L1' hp h
    simp only [runEv, Option.some.injEq] at h
    subst h
    exact ⟨L2, rfl, hp⟩
  | cons ev evs ih =>
    intro L1 L2 L1' hp h
    simp only [runEv] at h ⊢
    cases ha : applyEv L1 ev with
    | none => rw [ha] at h; cases h
    | some M1 =>
      rw [ha] at h
      obtain ⟨M2, hb, hq⟩ := applyEv_perm hp ev ha
      rw [hb]
      exact ih hq h

/-! ### the other operations -/

theorem Balanced.of_empty {r r' : Rp} {evs : List Ev} (h0 : owned c r = []) (h : Balanced c .empty r' evs) :
    Balanced c r r' evs := by
  intro L; rw [h0]; exact h L

theorem balanced_allocEv (r : Rp) : Balanced c .empty r (allocEv c r) := fun L => runEv_allocEv r L

theorem balanced_freeEv (r : Rp) : Balanced c r .empty (freeEv c r) := fun L => runEv_freeEv .empty r L

section ops
variable (fresh : Bool) (g : Rng D) (fuel : Nat)

theorem extendE_balanced {r r' : Rp} {xs : List Nat} {d d' : D} {evs : List Ev}
    (h : extendE c fresh g fuel r xs d = .ok ((r', evs), d')) : Balanced c r r' evs :=
  insertAllE_balanced_ok (insertE_balanced fresh g fuel) h

theorem fillE_balanced (s : Rp) (v : List Nat) (d : D) : BalOut1 c .empty (fillE c fresh g fuel s v d) := by
  unfold fillE
  refine BalOut1_bind _ _ d (fun p d1 h1 => ?_)
  obtain ⟨r, t⟩ := p
  exact (balanced_allocEv s).trans (insertAllE_balanced_ok (insertE_balanced fresh g fuel) h1)

theorem fromIterSortedE_balanced (v : List Nat) (d : D) : BalOut1 c .empty (fromIterSortedE c fresh g fuel v d) := by
  unfold fromIterSortedE
  cases v.getLast? with
  | none => exact Balanced.nil rfl
  | some mx =>
    dsimp only
    cases TinyC.newSortedDeduped c.codec v with
    | some t => exact Balanced.nil rfl
    | none =>
      dsimp only
      split
      · exact BalOut1_bind _ _ d (fun s d1 _ => fillE_balanced fresh g fuel s v d1)
      · split
        · exact BalOut1_bind _ _ d (fun s d1 _ => fillE_balanced fresh g fuel s v d1)
        · exact BalOut1_bind _ _ d (fun s d1 _ => fillE_balanced fresh g fuel s v d1)

theorem fromIterE_balanced {v : List Nat} {d d' : D} {r : Rp} {evs : List Ev}
    (h : fromIterE c fresh g fuel v d = .ok ((r, evs), d')) : Balanced c .empty r evs := by
  have := fromIterSortedE_balanced (c := c) fresh g fuel (sortDedup v) d
  unfold fromIterE at h
  rw [h] at this
  exact this

/-- `remove` on a value that is not inline keeps the block it has (it never resizes) -/
def KeepsBlock (c : Cfg) (r : Rp) : Except Err ((Rp × Bool) × D) → Prop
  | .ok ((r', _), _) => owned c r' = owned c r
  | .error _ => True

theorem remove_keeps_heap (sz cap bits : Nat) (a : Tbl) (e : Nat) (d : D) :
    KeepsBlock c (.heap sz cap bits a) (remove c g fuel (.heap sz cap bits a) e d) := by
  unfold remove
  dsimp only
  split
  · split <;> exact rfl
  · split
    · split <;> exact rfl
    · split
      · exact rfl
      · cases RH.lookfor (e / bits) a bits with
        | found idx =>
          dsimp only
          split
          · split <;> exact rfl
          · exact rfl
        | empty i => exact rfl
        | needInsert => exact rfl

theorem removeE_balanced (r : Rp) (e : Nat) (d : D) : BalOut c r (removeE c fresh g fuel r e d) := by
  cases r with
  | empty =>
    simp only [removeE, remove, bind, StateT.bind, Except.bind, pure, StateT.pure, Except.pure]
    exact Balanced.nil rfl
  | stack t =>
    unfold removeE
    dsimp only
    split
    · split
      · exact Balanced.nil rfl
      · refine BalOut_bind _ _ d (fun p d1 h1 => ?_)
        obtain ⟨r', evs⟩ := p
        have := fromIterSortedE_balanced (c := c) fresh g fuel ((t.members c.codec).filter (· ≠ e)) d
        rw [h1] at this
        exact Balanced.of_empty rfl this
    · exact Balanced.nil rfl
  | heap sz cap bits a =>
    have hk := remove_keeps_heap (c := c) g fuel sz cap bits a e d
    simp only [removeE, bind, StateT.bind, Except.bind]
    cases hr : remove c g fuel (.heap sz cap bits a) e d with
    | error y => trivial
    | ok p =>
      obtain ⟨⟨r', b⟩, d1⟩ := p
      rw [hr] at hk
      exact Balanced.nil hk.symm

theorem removeE_balanced_ok {r : Rp} {e : Nat} {d d' : D} {res : Rp × Bool} {evs : List Ev}
    (h : removeE c fresh g fuel r e d = .ok ((res, evs), d')) : Balanced c r res.1 evs := by
  have := removeE_balanced (c := c) fresh g fuel r e d
  rw [h] at this
  exact this

theorem removeAllE_balanced_aux (xs : List Nat) :
    ∀ (r0 r : Rp) (t0 : List Ev) (d : D), Balanced c r0 r t0 →
      BalOut1 c r0 (xs.foldlM (fun (acc : Rp × List Ev) x => (do
          let ((r', _), t) ← removeE c fresh g fuel acc.1 x
          pure (r', acc.2 ++ t) : M D (Rp × List Ev))) (r, t0) d) := by
  induction xs with
  | nil => intro r0 r t0 d hb; exact hb
  | cons x xs ih =>
    intro r0 r t0 d hb
    simp only [List.foldlM_cons]
    refine BalOut1_bind _ _ d (fun acc1 d1 h1 => ?_)
    obtain ⟨p, d2, h3, h4⟩ := bind_ok h1
    obtain ⟨⟨r1, b⟩, t⟩ := p
    simp only [pure, StateT.pure, Except.pure] at h4
    cases h4
    exact ih r0 r1 (t0 ++ t) _ (hb.trans (removeE_balanced_ok fresh g fuel h3))

theorem removeAllE_balanced {r r' : Rp} {xs : List Nat} {d d' : D} {evs : List Ev}
    (h : removeAllE c fresh g fuel r xs d = .ok ((r', evs), d')) : Balanced c r r' evs := by
  have := removeAllE_balanced_aux (c := c) fresh g fuel xs r r [] d (Balanced.refl r)
  unfold removeAllE at h
  rw [h] at this
  exact this

theorem unionRefE_balanced {a b r : Rp} {d d' : D} {evs : List Ev}
    (h : unionRefE c fresh g fuel a b d = .ok ((r, evs), d')) : Balanced c .empty r evs := by
  unfold unionRefE at h
  dsimp only at h
  obtain ⟨p1, d1, h1, h2⟩ := bind_ok h
  obtain ⟨s1, t1⟩ := p1
  obtain ⟨p2, d2, h3, h4⟩ := bind_ok h2
  obtain ⟨s2, t2⟩ := p2
  simp only [pure, StateT.pure, Except.pure] at h4
  cases h4
  exact (balanced_allocEv _).trans ((extendE_balanced fresh g fuel h1).trans (extendE_balanced fresh g fuel h3))

theorem diffRefE_balanced {a b r : Rp} {d d' : D} {evs : List Ev}
    (h : diffRefE c fresh g fuel a b d = .ok ((r, evs), d')) : Balanced c .empty r evs := by
  unfold diffRefE at h
  dsimp only at h
  obtain ⟨p1, d1, h1, h2⟩ := bind_ok h
  obtain ⟨s1, t1⟩ := p1
  simp only [pure, StateT.pure, Except.pure] at h2
  cases h2
  exact (balanced_allocEv _).trans (extendE_balanced fresh g fuel h1)

end ops

/-! ### several sets -/

/-- what is live besides slot `i` -/
def restOf (c : Cfg) (s : Slots) (i : Nat) : List Nat := ownedAll c (s.set i .empty)

theorem ownedAll_cons (x : Rp) (xs : Slots) : ownedAll c (x :: xs) = owned c x ++ ownedAll c xs := by
  simp [ownedAll]

theorem ownedAll_split : ∀ (s : Slots) (i : Nat), i < s.length →
    (ownedAll c s).Perm (owned c (s.get i) ++ restOf c s i)
  | [], i, h => by simp at h
  | x :: xs, 0, _ => by
    simp only [Slots.get, List.getD_cons_zero, restOf, List.set_cons_zero, ownedAll_cons, owned, List.nil_append]
    exact List.Perm.refl _
  | x :: xs, i + 1, h => by
    have ih := ownedAll_split xs i (by simpa using h)
    simp only [Slots.get, List.getD_cons_succ, restOf, List.set_cons_succ, ownedAll_cons] at ih ⊢
    refine ((List.Perm.append_left (owned c x) ih)).trans ?_
    rw [← List.append_assoc, ← List.append_assoc]
    exact List.Perm.append_right _ List.perm_append_comm

theorem get_set_self (s : Slots) (i : Nat) (r : Rp) (h : i < s.length) : Slots.get (s.set i r) i = r := by
  simp [Slots.get, List.getD_eq_getElem?_getD, h]

theorem ownedAll_set (s : Slots) (i : Nat) (r : Rp) (h : i < s.length) :
    (ownedAll c (s.set i r)).Perm (owned c r ++ restOf c s i) := by
  have := ownedAll_split (c := c) (s.set i r) i (by simpa using h)
  rw [get_set_self s i r h] at this
  simpa [restOf, List.set_set] using this

/-- an operation on the value in slot `i` -/
theorem slot_update {s : Slots} {i : Nat} (hi : i < s.length) {r : Rp} {evs : List Ev}
    (hb : Balanced c (s.get i) r evs) {L : List Nat} (hL : L.Perm (ownedAll c s)) :
    ∃ L', runEv L evs = some L' ∧ L'.Perm (ownedAll c (s.set i r)) := by
  have h1 := hL.trans (ownedAll_split s i hi)
  obtain ⟨L', h2, h3⟩ := runEv_perm evs h1.symm (hb (restOf c s i))
  exact ⟨L', h2, h3.symm.trans (ownedAll_set s i r hi).symm⟩

/-- a value made from `a` (which the program no longer holds) is assigned to slot `k` of the remaining slots
    `s1`; the value held there is dropped -/
theorem create_assign {a r : Rp} {t : List Ev} (hb : Balanced c a r t) (s1 : Slots) {k : Nat} (hk : k < s1.length)
    {L : List Nat} (hL : L.Perm (owned c a ++ ownedAll c s1)) :
    ∃ L', runEv L (t ++ freeEv c (s1.get k)) = some L' ∧ L'.Perm (ownedAll c (s1.set k r)) := by
  have h1 : L.Perm (owned c a ++ (owned c (s1.get k) ++ restOf c s1 k)) :=
    hL.trans (List.Perm.append_left _ (ownedAll_split s1 k hk))
  have run : runEv (owned c a ++ (owned c (s1.get k) ++ restOf c s1 k)) (t ++ freeEv c (s1.get k))
      = some (owned c r ++ restOf c s1 k) := by
    rw [runEv_append_some (hb _)]
    exact runEv_freeEv r (s1.get k) _
  obtain ⟨L', h2, h3⟩ := runEv_perm _ h1.symm run
  exact ⟨L', h2, h3.symm.trans (ownedAll_set s1 k r hk).symm⟩

section prog
variable (fresh : Bool) (g : Rng D) (fuel : Nat)

theorem idx_lt {op : POp} {s : Slots} (h : op.idx.all (· < s.length) = true) : ∀ i ∈ op.idx, i < s.length := by
  intro i hi
  have := List.all_eq_true.mp h i hi
  simpa using this

/-- one operation of a program: the events run against any ledger that holds exactly the live sets' blocks,
    and leave exactly the live sets' blocks -/
theorem pstep_ledger {s s' : Slots} {op : POp} {d d' : D} {evs : List Ev}
    (h : pstep c fresh g fuel s op d = .ok ((s', evs), d')) {L : List Nat} (hL : L.Perm (ownedAll c s)) :
    ∃ L', runEv L evs = some L' ∧ L'.Perm (ownedAll c s') := by
  unfold pstep at h
  split at h
  case isFalse =>
    simp only [pure, StateT.pure, Except.pure] at h
    cases h
    exact ⟨L, rfl, hL⟩
  case isTrue hidx =>
  have hlt := idx_lt hidx
  cases op with
  | ins i e =>
    simp only [pstepCore] at h
    obtain ⟨p, d1, h1, h2⟩ := bind_ok h
    obtain ⟨⟨r, b⟩, t⟩ := p
    simp only [pure, StateT.pure, Except.pure] at h2
    cases h2
    exact slot_update (hlt i (by simp [POp.idx])) ((insertE_balanced fresh g fuel).ok h1) hL
  | rem i e =>
    simp only [pstepCore] at h
    obtain ⟨p, d1, h1, h2⟩ := bind_ok h
    obtain ⟨⟨r, b⟩, t⟩ := p
    simp only [pure, StateT.pure, Except.pure] at h2
    cases h2
    exact slot_update (hlt i (by simp [POp.idx])) (removeE_balanced_ok fresh g fuel h1) hL
  | ext i xs =>
    simp only [pstepCore] at h
    obtain ⟨p, d1, h1, h2⟩ := bind_ok h
    obtain ⟨r, t⟩ := p
    simp only [pure, StateT.pure, Except.pure] at h2
    cases h2
    exact slot_update (hlt i (by simp [POp.idx])) (extendE_balanced fresh g fuel h1) hL
  | col i xs =>
    simp only [pstepCore, assign] at h
    obtain ⟨p, d1, h1, h2⟩ := bind_ok h
    obtain ⟨r, t⟩ := p
    simp only [pure, StateT.pure, Except.pure] at h2
    cases h2
    exact create_assign (fromIterE_balanced fresh g fuel h1) s (hlt i (by simp [POp.idx])) (by simpa [owned] using hL)
  | clone i j =>
    simp only [pstepCore, assign, cloneE, pure, StateT.pure, Except.pure] at h
    cases h
    exact create_assign (balanced_allocEv _) s (hlt i (by simp [POp.idx])) (by simpa [owned] using hL)
  | wco i j =>
    simp only [pstepCore, assign, withCapOfE, pure, StateT.pure, Except.pure] at h
    cases h
    exact create_assign (balanced_allocEv _) s (hlt i (by simp [POp.idx])) (by simpa [owned] using hL)
  | wcb i cap bits =>
    simp only [pstepCore, assign] at h
    obtain ⟨r, d1, h1, h2⟩ := bind_ok h
    simp only [pure, StateT.pure, Except.pure] at h2
    cases h2
    exact create_assign (balanced_allocEv _) s (hlt i (by simp [POp.idx])) (by simpa [owned] using hL)
  | wcm i cap mx =>
    simp only [pstepCore, assign] at h
    obtain ⟨r, d1, h1, h2⟩ := bind_ok h
    simp only [pure, StateT.pure, Except.pure] at h2
    cases h2
    exact create_assign (balanced_allocEv _) s (hlt i (by simp [POp.idx])) (by simpa [owned] using hL)
  | drop i =>
    simp only [pstepCore, dropE, pure, StateT.pure, Except.pure] at h
    cases h
    exact slot_update (hlt i (by simp [POp.idx])) (balanced_freeEv _) hL
  | uniRef k i j =>
    simp only [pstepCore, assign] at h
    obtain ⟨p, d1, h1, h2⟩ := bind_ok h
    obtain ⟨r, t⟩ := p
    simp only [pure, StateT.pure, Except.pure] at h2
    cases h2
    exact create_assign (unionRefE_balanced fresh g fuel h1) s (hlt k (by simp [POp.idx])) (by simpa [owned] using hL)
  | difRef k i j =>
    simp only [pstepCore, assign] at h
    obtain ⟨p, d1, h1, h2⟩ := bind_ok h
    obtain ⟨r, t⟩ := p
    simp only [pure, StateT.pure, Except.pure] at h2
    cases h2
    exact create_assign (diffRefE_balanced fresh g fuel h1) s (hlt k (by simp [POp.idx])) (by simpa [owned] using hL)
  | uniOwn k i j =>
    simp only [pstepCore] at h
    split at h
    · simp only [pure, StateT.pure, Except.pure] at h
      cases h
      exact ⟨L, rfl, hL⟩
    · simp only [assign] at h
      obtain ⟨p, d1, h1, h2⟩ := bind_ok h
      obtain ⟨r, t⟩ := p
      simp only [pure, StateT.pure, Except.pure] at h2
      cases h2
      have hi := hlt i (by simp [POp.idx])
      exact create_assign (extendE_balanced fresh g fuel h1) (s.set i .empty)
        (by simpa using hlt k (by simp [POp.idx])) (hL.trans (ownedAll_split s i hi))
  | difOwn k i j =>
    simp only [pstepCore] at h
    split at h
    · simp only [pure, StateT.pure, Except.pure] at h
      cases h
      exact ⟨L, rfl, hL⟩
    · simp only [assign] at h
      obtain ⟨p, d1, h1, h2⟩ := bind_ok h
      obtain ⟨r, t⟩ := p
      simp only [pure, StateT.pure, Except.pure] at h2
      cases h2
      have hi := hlt i (by simp [POp.idx])
      exact create_assign (removeAllE_balanced fresh g fuel h1) (s.set i .empty)
        (by simpa using hlt k (by simp [POp.idx])) (hL.trans (ownedAll_split s i hi))

/-- whole programs -/
theorem prun_ledger (ops : List POp) : ∀ {s s' : Slots} {d d' : D} {evs : List Ev} {L : List Nat},
    prun c fresh g fuel s ops d = .ok ((s', evs), d') → L.Perm (ownedAll c s) →
    ∃ L', runEv L evs = some L' ∧ L'.Perm (ownedAll c s') := by
  induction ops with
  | nil =>
    intro s s' d d' evs L h hL
    simp only [prun, pure, StateT.pure, Except.pure] at h
    cases h
    exact ⟨L, rfl, hL⟩
  | cons op ops ih =>
    intro s s' d d' evs L h hL
    simp only [prun] at h
    obtain ⟨p1, d1, h1, h2⟩ := bind_ok h
    obtain ⟨s1, t1⟩ := p1
    obtain ⟨p2, d2, h3, h4⟩ := bind_ok h2
    obtain ⟨s2, t2⟩ := p2
    simp only [pure, StateT.pure, Except.pure] at h4
    cases h4
    obtain ⟨L1, r1, q1⟩ := pstep_ledger fresh g fuel h1 hL
    obtain ⟨L2, r2, q2⟩ := ih h3 q1
    exact ⟨L2, by rw [runEv_append_some r1]; exact r2, q2⟩

end prog

/-- every set goes out of scope: nothing stays live -/
theorem dropAll_ledger : ∀ (s : Slots), runEv (ownedAll c s) (dropAll c s) = some []
  | [] => rfl
  | x :: xs => by
    have : dropAll c (x :: xs) = freeEv c x ++ dropAll c xs := by simp [dropAll, dropE]
    have hf : runEv (owned c x ++ ownedAll c xs) (freeEv c x) = some (ownedAll c xs) :=
      runEv_freeEv .empty x (ownedAll c xs)
    rw [this, ownedAll_cons, runEv_append_some hf]
    exact dropAll_ledger xs

theorem dropAll_ledger_perm {s : Slots} {L : List Nat} (hL : L.Perm (ownedAll c s)) :
    runEv L (dropAll c s) = some [] := by
  obtain ⟨L', h1, h2⟩ := runEv_perm _ hL.symm (dropAll_ledger (c := c) s)
  rw [h1, List.Perm.eq_nil (h2.symm)]

theorem ownedAll_replicate_empty (n : Nat) : ownedAll c (List.replicate n Rp.empty) = [] := by
  induction n with
  | zero => rfl
  | succ n ih => rw [List.replicate_succ, ownedAll_cons, ih]; rfl

/-- **Any program, any generator, any number of sets**: started with nothing live, the allocator calls of the
    program followed by the drops of every set are all legal (each release/resize names a live block with the
    size it was requested with) and leave nothing live. -/
theorem program_balanced (fresh : Bool) (g : Rng D) (fuel n : Nat) (ops : List POp) {s' : Slots} {d d' : D}
    {evs : List Ev} (h : prun c fresh g fuel (List.replicate n .empty) ops d = .ok ((s', evs), d')) :
    runEv [] (evs ++ dropAll c s') = some [] := by
  obtain ⟨L', h1, h2⟩ := prun_ledger fresh g fuel ops h
    (L := []) (by rw [ownedAll_replicate_empty])
  rw [runEv_append_some h1]
  exact dropAll_ledger_perm h2

end SC

#print axioms SC.program_balanced
#print axioms SC.pstep_ledger
