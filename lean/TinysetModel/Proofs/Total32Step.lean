import TinysetModel.Proofs.TotalSites
import TinysetModel.Proofs.CapSpec
/-! Totality of `insert` for any room rule, part 1: the non-growing steps under the general room hypothesis
"occupied + slack < capacity" (`slack c n = 0` for `SetU64`, `n >>> 4` for `SetU32`, `Proofs/CapSpec.lean`). -/
namespace SC
open RH Plain2

variable {c : Cfg} {D : Type}

/-- a table with more than `slack` empty buckets has room -/
theorem hasRoom_of_slack {a : Tbl} (h : (nz a).length + slack c a.size < a.size) : hasRoom c a = true := by
  cases hr : hasRoom c a with
  | true => rfl
  | false =>
    have := size_le_of_noRoom hr
    omega

/-- `tablePlace` succeeds for a fresh key as soon as more than `slack` buckets are empty -/
theorem tablePlace_isSome_slack {a : Tbl} {off k w : Nat} (hn : 0 < a.size) (inv : Inv a off)
    (hw : w ≠ 0) (hk : w >>> off = k) (hfresh : ∀ i, i < a.size → get a i ≠ 0 → K a off i ≠ k)
    (hlt : (nz a).length + slack c a.size < a.size) : ∃ a', tablePlace c k w off a = some a' := by
  have hspec := tablePlace_spec c hn inv hw hk hfresh
  cases hpl : tablePlace c k w off a with
  | some a' => exact ⟨a', rfl⟩
  | none =>
    rw [hpl, hasRoom_of_slack hlt] at hspec
    cases hspec

/-- conversely: when `tablePlace` gives up on a fresh key, the table is almost full -/
theorem noRoom_of_tablePlace_none {a : Tbl} {off k w : Nat} (hn : 0 < a.size) (inv : Inv a off)
    (hw : w ≠ 0) (hk : w >>> off = k) (hfresh : ∀ i, i < a.size → get a i ≠ 0 → K a off i ≠ k)
    (hpl : tablePlace c k w off a = none) : a.size ≤ (nz a).length + slack c a.size := by
  false_or_by_contra
  rename_i hlt
  obtain ⟨a', h⟩ := tablePlace_isSome_slack (c := c) hn inv hw hk hfresh (by omega)
  rw [hpl] at h
  cases h

/-! ### plain -/

/-- a value other than the placeholder, with room for one more word -/
theorem insertPlain_ne_slack (g : Rng D) {sz cap bits : Nat} {a : Tbl}
    (pw : PlainWF bits sz a) (hcap : cap = a.size) (hW : c.W < bits) (hb : bits < 2 ^ c.W)
    (hwords : ∀ x ∈ nz a, x < 2 ^ c.W) (e : Nat) (he : e < 2 ^ c.W) (hne : e ≠ bits) (d : D)
    (hr : e ∉ plainElems bits a → (nz a).length + slack c a.size < a.size) :
    ∃ sz' a' b, insertPlain c g sz cap bits a e d = .ok ((.heap sz' cap bits a', b), d) ∧
      InsOK c (.heap sz cap bits a) e (.heap sz' cap bits a') b := by
  have hpl := isPlain_of_gt (c := c) hW
  have hnd := isDense_of_gt (c := c) hW
  have wf : WF c (.heap sz cap bits a) := mkWF_plain pw hcap hW hb hwords
  have he' : enc bits e < 2 ^ c.W := by unfold enc; split <;> assumption
  by_cases hmem : e ∈ plainElems bits a
  · refine ⟨sz, a, false, (insert_plain_nogrow c g pw e hne d).1 hmem, wf, ?_, ?_⟩
    · rw [elems_plain hpl hnd]; simp [hmem]
    · intro x
      rw [elems_plain hpl hnd]
      constructor
      · exact Or.inl
      · rintro (h | h)
        · exact h
        · exact h ▸ hmem
  · have hnot : enc bits e ∉ nz a := by rw [← mem_plainElems pw.ph_ne hne]; exact hmem
    have hfresh := fresh_of_not_mem hnot
    obtain ⟨a', hplace⟩ := tablePlace_isSome_slack (c := c) (k := enc bits e) (w := enc bits e) pw.npos pw.inv
      (enc_ne_zero pw.ph_ne) Nat.shiftRight_zero hfresh (hr hmem)
    have hspec := tablePlace_spec c (k := enc bits e) (w := enc bits e) pw.npos pw.inv
      (enc_ne_zero pw.ph_ne) Nat.shiftRight_zero hfresh
    rw [hplace] at hspec
    obtain ⟨s1, _, _, s4⟩ := hspec
    obtain ⟨q1, q2, q3⟩ := (insert_plain_nogrow c g pw e hne d).2 hmem a' hplace
    refine ⟨sz + 1, a', true, q1, insOK_of_perm hW hmem q3 (mkWF_plain q2 (by rw [s1]; exact hcap) hW hb ?_)⟩
    intro x hx
    rcases List.mem_cons.1 ((s4.mem_iff).1 hx) with h | h
    · rw [h]; exact he'
    · exact hwords x h

/-- `insertPlain` with room: succeeds, the capacity is unchanged, the result is a plain table -/
theorem insertPlain_slack (g : Rng D) {sz cap bits : Nat} {a : Tbl}
    (wf : WF c (.heap sz cap bits a)) (hpl : isPlain c bits = true) (hnd : isDense c bits = false)
    (e : Nat) (he : e < 2 ^ c.W) (d : D) (hsmall : cap + c.W + 3 ≤ 2 ^ c.W)
    (hr : e ∉ elems c (.heap sz cap bits a) → sz + slack c cap < cap) :
    ∃ sz' bits' a' b d', insertPlain c g sz cap bits a e d = .ok ((.heap sz' cap bits' a', b), d') ∧
      InsOK c (.heap sz cap bits a) e (.heap sz' cap bits' a') b ∧ c.W < bits' ∧ bits' < 2 ^ c.W := by
  obtain ⟨pw, hcap, hW, hw, hbits⟩ := plain_unfold wf hpl hnd
  rw [elems_plain hpl hnd] at hr
  by_cases hne : e = bits
  · subst hne
    have hl : (premove e a 0).2.toList.length = (premove e a 0).2.size := Array.length_toList
    obtain ⟨i, hi, _⟩ := scanUp_terminates c (premove e a 0).2.toList e (modW c (g.draw d cap e).1)
      (modW_lt _) (by rw [hl, premove_size, ← hcap]; exact hsmall)
    rw [hl] at hi
    obtain ⟨a2, hrp, pw2, s2, hWi, hilt, hie, hw2, hperm⟩ := repick_spec g pw hw d hi
    obtain ⟨sz', a', b, hins, ok⟩ :=
      insertPlain_ne_slack g pw2 (hcap.trans s2.symm) hWi hilt hw2 e he (Ne.symm hie) (g.draw d cap e).2
        (by
          intro _
          rw [← pw2.szc, s2, ← hcap]
          exact hr (ph_not_mem pw.ph_ne))
    refine ⟨sz', i, a', b, (g.draw d cap e).2, ?_, ⟨ok.wf, ?_, ?_⟩, hWi, hilt⟩
    · rw [insertPlain_of_repick g hrp, ← insertPlain_of_ne g (Ne.symm hie)]; exact hins
    · rw [ok.ret, elems_plain (isPlain_of_gt hWi) (isDense_of_gt hWi),
        elems_plain (isPlain_of_gt hW) (isDense_of_gt hW), hperm.mem_iff]
    · intro x
      rw [ok.mem x, elems_plain (isPlain_of_gt hWi) (isDense_of_gt hWi),
        elems_plain (isPlain_of_gt hW) (isDense_of_gt hW), hperm.mem_iff]
  · obtain ⟨sz', a', b, hins, ok⟩ := insertPlain_ne_slack g pw hcap hW hbits hw e he hne d
      (by intro h; rw [← pw.szc, ← hcap]; exact hr h)
    exact ⟨sz', bits, a', b, d, hins, ok, hW, hbits⟩

/-! ### bitmap -/

/-- `insertBitmap` with room: succeeds without rebuilding; capacity and width are unchanged -/
theorem insertBitmap_slack (ok : CfgOK c) (g : Rng D) (rec : Ins D)
    {sz cap bits : Nat} {a : Tbl} (hb : isDense c bits = false) (hp : isPlain c bits = false)
    (wf : BitmapWF c sz cap bits a) (e : Nat) (he : e < 2 ^ c.W) (hfit : ¬ c.cab e < bits)
    {KL : List Nat} (hnd : KL.Nodup) (hlen : KL.length + slack c cap ≤ cap)
    (hsub : ∀ x ∈ elems c (.heap sz cap bits a), x / bits ∈ KL) (hk : e / bits ∈ KL) (d : D) :
    ∃ sz' a' b, insertBitmap c g rec sz cap bits a e d = .ok ((.heap sz' cap bits a', b), d) ∧
      InsOK c (.heap sz cap bits a) e (.heap sz' cap bits a') b := by
  rcases lookfor_cases wf.inv wf.npos (e / bits) with ⟨idx, hl, _, _, _⟩ | ⟨hnf, hfresh⟩
  · by_cases hbit : (get a idx).testBit (e % bits) = true
    · exact ⟨_, _, _, insertBitmap_found_set g rec hb hp wf e hfit hl hbit d⟩
    · exact ⟨_, _, _, insertBitmap_found_clear g rec hb hp wf e he hfit hl hbit d⟩
  · have hpos := wf.bits_pos
    have hoff : e % bits < bits := Nat.mod_lt _ hpos
    obtain ⟨hm, hkW⟩ := newword_facts ok hpos wf.bits_lt e he hfit
    have hbitlt : 1 <<< (e % bits) < 2 ^ bits := by
      rw [Nat.shiftLeft_eq, Nat.one_mul]; exact Nat.pow_lt_pow_right (by omega) hoff
    have hvk : (modW c ((e / bits) <<< bits) ||| (1 <<< (e % bits))) >>> bits = e / bits := by
      rw [hm]; exact key_of_word hbitlt
    have hv0 : modW c ((e / bits) <<< bits) ||| (1 <<< (e % bits)) ≠ 0 := by
      apply ne_zero_of_testBit (off := e % bits)
      rw [testBit_or_bit]; simp
    have hlt : (nz a).length + slack c a.size < a.size := by
      have := buckets_lt hb hp wf hnd hsub hk hfresh
      have := wf.cap_eq
      subst this
      omega
    obtain ⟨a', hpl⟩ := tablePlace_isSome_slack (c := c) wf.npos wf.inv hv0 hvk hfresh hlt
    exact ⟨_, _, _, insertBitmap_place g rec hb hp ok wf e he hfit hnf hpl d⟩

#print axioms tablePlace_isSome_slack
#print axioms noRoom_of_tablePlace_none
#print axioms insertPlain_slack
#print axioms insertBitmap_slack
end SC
