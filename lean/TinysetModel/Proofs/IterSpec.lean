import TinysetModel.Proofs.IterLists
/-! The iterator cursor yields exactly `elems`, and the shortcuts (`count`, `size_hint`, `last`, `min`, `max`)
agree with plain iteration. -/
namespace SC
open RH

variable {c : Cfg}

/-! ## Part 1: `next`/`advance`/`drainFrom` against `elems` -/

theorem advance_inv (ok : CfgOK c) {r : Rp} (wf : WF c r) : ∀ (j : Nat) (k : Cursor) (rest : List Nat),
    CInv c r k rest → ∃ ck, advance c r j k = .ok ck ∧ CInv c r ck (rest.drop j)
  | 0, k, _, h => ⟨k, rfl, h⟩
  | j + 1, k, rest, h => by
    obtain ⟨k', e, h'⟩ := CInv_next ok wf h
    obtain ⟨ck, e2, h2⟩ := advance_inv ok wf j k' rest.tail h'
    refine ⟨ck, ?_, ?_⟩
    · unfold advance; rw [e]; exact e2
    · rw [← List.drop_one, List.drop_drop] at h2
      rw [Nat.add_comm]; exact h2

theorem drain_inv (ok : CfgOK c) {r : Rp} (wf : WF c r) : ∀ (fuel : Nat) (k : Cursor) (rest : List Nat),
    CInv c r k rest → rest.length < fuel → drainFrom c r fuel k = .ok rest
  | 0, _, _, _, hf => by omega
  | f + 1, k, rest, h, hf => by
    obtain ⟨k', e, h'⟩ := CInv_next ok wf h
    unfold drainFrom
    rw [e]
    cases rest with
    | nil => rfl
    | cons x xs =>
      have := drain_inv ok wf f k' xs h' (by simpa using hf)
      simp only [List.head?_cons]
      rw [this]

/-- the cursor after `j` calls of `next` exists (no `IErr`) and has exactly `(elems c r).drop j` left -/
theorem cursor_after (ok : CfgOK c) {r : Rp} (wf : WF c r) (j : Nat) :
    ∃ ck, advance c r j (cursorOf r) = .ok ck ∧ CInv c r ck ((elems c r).drop j) :=
  advance_inv ok wf j _ _ (CInv_init ok wf)

theorem reach_inv (ok : CfgOK c) {r : Rp} (wf : WF c r) {j : Nat} {ck : Cursor}
    (h : advance c r j (cursorOf r) = .ok ck) : CInv c r ck ((elems c r).drop j) := by
  obtain ⟨ck', e, h'⟩ := cursor_after ok wf j
  rw [e] at h
  cases h
  exact h'

/-- iterating a fresh cursor to the end yields `elems` -/
theorem drain_eq_elems (ok : CfgOK c) {r : Rp} (wf : WF c r) :
    drainFrom c r ((elems c r).length + 1) (cursorOf r) = .ok (elems c r) :=
  drain_inv ok wf _ _ _ (CInv_init ok wf) (Nat.lt_succ_self _)

/-- after `j` steps: the counter is right and the rest of `elems` is what remains -/
theorem advance_drain (ok : CfgOK c) {r : Rp} (wf : WF c r) (j : Nat) :
    ∃ ck, advance c r j (cursorOf r) = .ok ck ∧ ck.szLeft = (elems c r).length - j ∧
      drainFrom c r ((elems c r).length + 1) ck = .ok ((elems c r).drop j) := by
  obtain ⟨ck, e, h⟩ := cursor_after ok wf j
  refine ⟨ck, e, ?_, ?_⟩
  · rw [CInv_szLeft ok wf h, List.length_drop]
  · apply drain_inv ok wf _ _ _ h
    rw [List.length_drop]; omega

/-- `advance (n+1)` is `advance n` followed by one `next` -/
theorem advance_succ_ok (c : Cfg) (r : Rp) : ∀ (n : Nat) (k k1 : Cursor) (o : Option Nat) (k2 : Cursor),
    advance c r n k = .ok k1 → next c r k1 = .ok (o, k2) → advance c r (n + 1) k = .ok k2
  | 0, k, k1, o, k2, h1, h2 => by
    unfold advance at h1
    cases h1
    unfold advance
    rw [h2]; rfl
  | n + 1, k, k1, o, k2, h1, h2 => by
    rw [advance] at h1 ⊢
    cases hn : next c r k with
    | error e => rw [hn] at h1; cases h1
    | ok p =>
      rw [hn] at h1
      exact advance_succ_ok c r n p.2 k1 o k2 h1 h2

/-- one step from the cursor after `j` steps yields the `j`-th member (or `none` at the end) -/
theorem next_after (ok : CfgOK c) {r : Rp} (wf : WF c r) {j : Nat} {ck : Cursor}
    (h : advance c r j (cursorOf r) = .ok ck) :
    ∃ ck', next c r ck = .ok ((elems c r)[j]?, ck') ∧ advance c r (j + 1) (cursorOf r) = .ok ck' := by
  have hI := reach_inv ok wf h
  obtain ⟨ck', e, _⟩ := CInv_next ok wf hI
  rw [List.head?_drop] at e
  exact ⟨ck', e, advance_succ_ok c r j _ _ _ _ h e⟩

/-- an exhausted cursor keeps answering `none` -/
theorem exhausted (ok : CfgOK c) {r : Rp} (wf : WF c r) {j : Nat} (hj : (elems c r).length ≤ j) {ck : Cursor}
    (h : advance c r j (cursorOf r) = .ok ck) :
    ∃ ck', next c r ck = .ok (none, ck') ∧ ck'.szLeft = 0 ∧
      ∃ ck'', next c r ck' = .ok (none, ck'') ∧ ck''.szLeft = 0 := by
  have hI := reach_inv ok wf h
  rw [List.drop_eq_nil_of_le hj] at hI
  obtain ⟨ck', e1, h1⟩ := CInv_next ok wf hI
  obtain ⟨ck'', e2, h2⟩ := CInv_next ok wf h1
  exact ⟨ck', e1, CInv_szLeft ok wf h1, ck'', e2, CInv_szLeft ok wf h2⟩

/-! ## Part 2: the shortcuts -/

theorem count_after (ok : CfgOK c) {r : Rp} (wf : WF c r) {j : Nat} {ck : Cursor}
    (h : advance c r j (cursorOf r) = .ok ck) : count ck = ((elems c r).drop j).length :=
  CInv_szLeft ok wf (reach_inv ok wf h)

theorem sizeHint_after (ok : CfgOK c) {r : Rp} (wf : WF c r) {j : Nat} {ck : Cursor}
    (h : advance c r j (cursorOf r) = .ok ck) :
    sizeHint ck = (((elems c r).drop j).length, some ((elems c r).drop j).length) := by
  unfold sizeHint; rw [CInv_szLeft ok wf (reach_inv ok wf h)]

/-! ### `last` -/

theorem getLast_suffix {l : List Nat} {j : Nat} (h : l.drop j ≠ []) : (l.drop j).getLast? = l.getLast? := by
  rw [List.getLast?_drop]
  split
  · rename_i hle; exact absurd (List.drop_eq_nil_of_le hle) h
  · rfl

theorem elems_stack_sorted (t : TinyC.T) : (elems c (.stack t)).Pairwise (· < ·) := by
  show (t.members c.codec).Pairwise (· < ·)
  unfold TinyC.T.members
  rw [TinyC.members_eq]
  exact mem'_sorted _ _

theorem elems_dense_sorted (ok : CfgOK c) (sz cap : Nat) (a : Tbl) :
    (elems c (.heap sz cap c.W a)).Pairwise (· < ·) := by
  rw [elems_dense ok]
  unfold fD
  rw [← ok.W_eq]
  exact rows_dense_sorted c a 0 a.size

/-- dense layout: the formula of `last` is the last member -/
theorem last_dense (ok : CfgOK c) {sz cap : Nat} {a : Tbl} (wf : DenseWF c sz cap a)
    (hne : elems c (.heap sz cap c.W a) ≠ []) :
    ∃ w tb, lastNonzero a = some w ∧ topBit w = some tb ∧
      (elems c (.heap sz cap c.W a)).getLast? =
        some ((a.size - 1 - (a.toList.reverse.takeWhile (· = 0)).length) * c.W + tb) := by
  rw [elems_dense ok] at hne ⊢
  cases hl : lastNonzero a with
  | none => exact absurd (rows_nil_of_zero (lastNonzero_none hl)) hne
  | some w =>
    obtain ⟨w0, hz, hg, hafter⟩ := lastNonzero_some hl
    have hp : a.size - 1 - (a.toList.reverse.takeWhile (· = 0)).length < a.size := by omega
    have hw : w % 2 ^ c.W ≠ 0 := by
      rw [Nat.mod_eq_of_lt (by rw [← hg]; exact wf.words _ hp)]; exact w0
    refine ⟨w, Nat.log2 w, rfl, by unfold topBit; rw [if_neg w0], ?_⟩
    have hrow : (row c.W (fD c) a (a.size - 1 - (a.toList.reverse.takeWhile (· = 0)).length)).getLast? =
        some ((a.size - 1 - (a.toList.reverse.takeWhile (· = 0)).length) * c.W + Nat.log2 w) := by
      unfold row
      rw [List.getLast?_map, hg, bitsOf_getLast hw, Nat.mod_eq_of_lt (by rw [← hg]; exact wf.words _ hp)]
      unfold fD
      rw [← ok.W_eq]; rfl
    rw [rows_last hp hafter (by intro h; rw [h] at hrow; cases hrow), hrow]

/-- bitmap layout: the formula of `last` is the last member -/
theorem last_bitmap {sz cap bits : Nat} {a : Tbl} (wf : BitmapWF c sz cap bits a)
    (hne : rows bits (fB bits a) a 0 a.size ≠ []) :
    ∃ x tb, lastNonzero a = some x ∧ topBit (x % 2 ^ bits) = some tb ∧
      (rows bits (fB bits a) a 0 a.size).getLast? = some ((x >>> bits) * bits + tb) := by
  cases hl : lastNonzero a with
  | none => exact absurd (rows_nil_of_zero (lastNonzero_none hl)) hne
  | some x =>
    obtain ⟨x0, hz, hg, hafter⟩ := lastNonzero_some hl
    have hp : a.size - 1 - (a.toList.reverse.takeWhile (· = 0)).length < a.size := by omega
    have hx : x % 2 ^ bits ≠ 0 := by
      have := (wf.bucket _ hp (by rw [hg]; exact x0)).1
      rw [hg] at this; exact this
    refine ⟨x, Nat.log2 (x % 2 ^ bits), rfl, by unfold topBit; rw [if_neg hx], ?_⟩
    have hrow : (row bits (fB bits a) a (a.size - 1 - (a.toList.reverse.takeWhile (· = 0)).length)).getLast? =
        some ((x >>> bits) * bits + Nat.log2 (x % 2 ^ bits)) := by
      unfold row
      rw [List.getLast?_map, hg, bitsOf_getLast hx]
      unfold fB
      rw [hg]; rfl
    rw [rows_last hp hafter (by intro h; rw [h] at hrow; cases hrow), hrow]

theorem last_inv (ok : CfgOK c) {r : Rp} (wf : WF c r) {k : Cursor} {rest : List Nat} {j : Nat}
    (hI : CInv c r k rest) (hs : rest = (elems c r).drop j) : last c r k = .ok rest.getLast? := by
  have hsz := CInv_szLeft ok wf hI
  unfold last
  by_cases h0 : k.szLeft = 0
  · rw [if_pos h0]
    have : rest = [] := List.eq_nil_of_length_eq_zero (by omega)
    rw [this]; rfl
  · rw [if_neg h0]
    have hne : rest ≠ [] := by intro h; rw [h] at hsz; exact h0 hsz
    have hsuf : rest.getLast? = (elems c r).getLast? := by
      rw [hs]; exact getLast_suffix (by rw [← hs]; exact hne)
    have hne' : elems c r ≠ [] := by
      intro h; rw [h] at hs; simp at hs; exact hne hs
    rw [hsuf]
    cases r with
    | empty => rfl
    | stack t => rfl
    | heap sz cap bits a =>
      dsimp only
      rw [WF_heap] at wf
      obtain ⟨hb, _, _⟩ := hI
      by_cases hd : isDense c bits = true
      · rw [if_pos hd] at wf ⊢
        have hbw := isDense_iff.1 hd
        subst hbw
        obtain ⟨w, tb, e1, e2, e3⟩ := last_dense ok wf hne'
        rw [e1]; dsimp only; rw [e2, e3]
      · rw [if_neg hd] at wf ⊢
        have hd' : isDense c bits = false := by simpa using hd
        by_cases hp : isPlain c bits = true
        · rw [if_pos hp] at wf ⊢
          rw [hb, lastNonzero_eq_nz]
          rw [elems_plain_rows hp]
          unfold plainRest
          rw [List.drop_zero, List.getLast?_map]
          rfl
        · rw [if_neg hp] at wf ⊢
          have hp' : isPlain c bits = false := by simpa using hp
          rw [elems_bitmap hp' hd'] at hne' ⊢
          obtain ⟨x, tb, e1, e2, e3⟩ := last_bitmap wf hne'
          rw [e1]; dsimp only; rw [hb, e2, e3]

/-! ### `min` and `max` -/

theorem nz_of_rows_ne_nil {L : Nat} {f : Nat → Nat → Nat} {a : Tbl} (hne : rows L f a 0 a.size ≠ []) :
    a.toList.filter (· ≠ 0) ≠ [] := by
  obtain ⟨e, he⟩ := List.exists_mem_of_ne_nil _ hne
  obtain ⟨i0, hi0, b0, _, ht0, _⟩ := mem_rows.1 he
  have hnz0 : get a i0 ∈ nz a := mem_nz.2 ⟨fun h => by rw [h] at ht0; simp at ht0, i0, hi0, rfl⟩
  intro h
  unfold nz at hnz0
  rw [h] at hnz0; cases hnz0

theorem shiftRight_mono {x y : Nat} (h : x ≤ y) (b : Nat) : x >>> b ≤ y >>> b := by
  rw [Nat.shiftRight_eq_div_pow, Nat.shiftRight_eq_div_pow]; exact Nat.div_le_div_right h

/-- bitmap layout, fresh cursor: `min` from the smallest bucket word -/
theorem bitmap_fresh_min {sz cap bits : Nat} {a : Tbl} (wf : BitmapWF c sz cap bits a)
    (hne : rows bits (fB bits a) a 0 a.size ≠ []) :
    ∃ x, listMin (a.toList.filter (· ≠ 0)) = some x ∧
      (rows bits (fB bits a) a 0 a.size).min? = some ((x >>> bits) * bits + lowBit x c.W) := by
  rw [listMin_eq]
  cases hm : (a.toList.filter (· ≠ 0)).min? with
  | none => exact absurd (List.min?_eq_none_iff.1 hm) (nz_of_rows_ne_nil hne)
  | some x =>
    refine ⟨x, rfl, ?_⟩
    obtain ⟨m1, m2⟩ := List.min?_eq_some_iff.1 hm
    obtain ⟨hx0, ix, hix, hgx⟩ := mem_nz.1 m1
    have hbk := wf.bucket ix hix (by rw [hgx]; exact hx0)
    rw [hgx] at hbk
    obtain ⟨l1, l2, l3⟩ := low_spec hbk.1 (Nat.le_of_lt wf.bits_lt)
    rw [List.min?_eq_some_iff]
    constructor
    · exact mem_rows.2 ⟨ix, hix, lowBit x c.W, l1, by rw [hgx]; exact l2, by unfold fB; rw [hgx]⟩
    · intro e he
      obtain ⟨i, hi, b, hb, ht, rfl⟩ := mem_rows.1 he
      have hy0 : get a i ≠ 0 := fun h => by rw [h] at ht; simp at ht
      have hxy : x ≤ get a i := m2 _ (mem_nz.2 ⟨hy0, i, hi, rfl⟩)
      have hk := shiftRight_mono hxy bits
      unfold fB
      rcases Nat.lt_or_eq_of_le hk with hlt | heq
      · have h2 : (x >>> bits + 1) * bits ≤ (get a i >>> bits) * bits := Nat.mul_le_mul_right _ hlt
        rw [Nat.succ_mul] at h2; omega
      · have hii : ix = i := wf.inv.distinct ix i hix hi (by rw [hgx]; exact hx0) hy0
          (by show get a ix >>> bits = _; rw [hgx]; exact heq)
        subst hii
        rw [hgx] at ht ⊢
        have := l3 b ht
        omega

/-- bitmap layout, fresh cursor: `max` from the largest bucket word -/
theorem bitmap_fresh_max {sz cap bits : Nat} {a : Tbl} (wf : BitmapWF c sz cap bits a)
    (hne : rows bits (fB bits a) a 0 a.size ≠ []) :
    ∃ x tb, listMax (a.toList.filter (· ≠ 0)) = some x ∧ topBit (x % 2 ^ bits) = some tb ∧
      (rows bits (fB bits a) a 0 a.size).max? = some ((x >>> bits) * bits + tb) := by
  rw [listMax_eq]
  cases hm : (a.toList.filter (· ≠ 0)).max? with
  | none => exact absurd (List.max?_eq_none_iff.1 hm) (nz_of_rows_ne_nil hne)
  | some x =>
    obtain ⟨m1, m2⟩ := List.max?_eq_some_iff.1 hm
    obtain ⟨hx0, ix, hix, hgx⟩ := mem_nz.1 m1
    have hbk := wf.bucket ix hix (by rw [hgx]; exact hx0)
    rw [hgx] at hbk
    obtain ⟨l1, l2, l3⟩ := top_spec hbk.1
    refine ⟨x, Nat.log2 (x % 2 ^ bits), rfl, by unfold topBit; rw [if_neg hbk.1], ?_⟩
    rw [List.max?_eq_some_iff]
    constructor
    · exact mem_rows.2 ⟨ix, hix, _, l1, by rw [hgx]; exact l2, by unfold fB; rw [hgx]⟩
    · intro e he
      obtain ⟨i, hi, b, hb, ht, rfl⟩ := mem_rows.1 he
      have hy0 : get a i ≠ 0 := fun h => by rw [h] at ht; simp at ht
      have hxy : get a i ≤ x := m2 _ (mem_nz.2 ⟨hy0, i, hi, rfl⟩)
      have hk := shiftRight_mono hxy bits
      unfold fB
      rcases Nat.lt_or_eq_of_le hk with hlt | heq
      · have h2 : (get a i >>> bits + 1) * bits ≤ (x >>> bits) * bits := Nat.mul_le_mul_right _ hlt
        rw [Nat.succ_mul] at h2; omega
      · have hii : ix = i := wf.inv.distinct ix i hix hi (by rw [hgx]; exact hx0) hy0
          (by show get a ix >>> bits = _; rw [hgx]; exact heq.symm)
        subst hii
        rw [hgx] at ht ⊢
        have := l3 b hb ht
        omega

theorem foldl_natMin (x : Nat) (xs : List Nat) : some (xs.foldl Nat.min x) = (x :: xs).min? := rfl
theorem foldl_natMax (x : Nat) (xs : List Nat) : some (xs.foldl Nat.max x) = (x :: xs).max? := rfl

theorem sorted_suffix {l : List Nat} (h : l.Pairwise (· < ·)) (j : Nat) : (l.drop j).Pairwise (· < ·) :=
  h.sublist (List.drop_sublist j l)

theorem min_inv (ok : CfgOK c) {r : Rp} (wf : WF c r) {k : Cursor} {rest : List Nat} {j : Nat}
    (hI : CInv c r k rest) (hs : rest = (elems c r).drop j) : min c r k = .ok rest.min? := by
  have hsz := CInv_szLeft ok wf hI
  unfold min
  by_cases h0 : k.szLeft = 0
  · rw [if_pos h0]
    have : rest = [] := List.eq_nil_of_length_eq_zero (by omega)
    rw [this]; rfl
  · rw [if_neg h0]
    have hne : rest ≠ [] := by intro h; rw [h] at hsz; exact h0 hsz
    obtain ⟨k', hnext, _⟩ := CInv_next ok wf hI
    cases r with
    | empty => exact absurd hI.1 hne
    | stack t =>
      dsimp only
      rw [hnext, sorted_min (by rw [hs]; exact sorted_suffix (elems_stack_sorted t) j)]
      rfl
    | heap sz cap bits a =>
      dsimp only
      have wf0 := wf
      rw [WF_heap] at wf
      obtain ⟨hb, _, h3⟩ := hI
      by_cases hd : isDense c bits = true
      · rw [if_pos hd] at wf ⊢
        have hbw := isDense_iff.1 hd
        subst hbw
        rw [hnext, sorted_min (by rw [hs]; exact sorted_suffix (elems_dense_sorted ok sz cap a) j)]
        rfl
      · rw [if_neg hd] at wf h3 ⊢
        by_cases hp : isPlain c bits = true
        · rw [if_pos hp] at wf h3 ⊢
          rw [listMin_eq, hb, h3]
          rfl
        · rw [if_neg hp] at wf h3 ⊢
          by_cases hwb : k.whichbit = 0
          · rw [if_pos hwb]
            rcases h3.2 hwb with hi0 | hnil
            · have hall : rest = rows bits (fB bits a) a 0 a.size := by
                rw [h3.1, hi0, hwb, ← rows_eq_restAt, Nat.sub_zero]
              obtain ⟨x, e1, e2⟩ := bitmap_fresh_min wf (by rw [← hall]; exact hne)
              rw [e1]; dsimp only; rw [hb, hall, e2]
            · exact absurd hnil hne
          · rw [if_neg hwb]
            have hdr := drain_inv ok wf0 (k.szLeft + 1) k rest ⟨hb, hsz, by rw [if_neg hd, if_neg hp]; exact h3⟩
              (by omega)
            rw [hdr]
            cases rest with
            | nil => exact absurd rfl hne
            | cons x xs => dsimp only; rw [foldl_natMin]

theorem max_inv (ok : CfgOK c) {r : Rp} (wf : WF c r) {k : Cursor} {rest : List Nat} {j : Nat}
    (hI : CInv c r k rest) (hs : rest = (elems c r).drop j) : max c r k = .ok rest.max? := by
  have hsz := CInv_szLeft ok wf hI
  have hlast := last_inv ok wf hI hs
  unfold max
  by_cases h0 : k.szLeft = 0
  · rw [if_pos h0]
    have : rest = [] := List.eq_nil_of_length_eq_zero (by omega)
    rw [this]; rfl
  · rw [if_neg h0]
    have hne : rest ≠ [] := by intro h; rw [h] at hsz; exact h0 hsz
    cases r with
    | empty => exact absurd hI.1 hne
    | stack t =>
      dsimp only
      rw [sorted_max (by rw [hs]; exact sorted_suffix (elems_stack_sorted t) j), hs,
        getLast_suffix (by rw [← hs]; exact hne)]
      rfl
    | heap sz cap bits a =>
      dsimp only
      have wf0 := wf
      rw [WF_heap] at wf
      obtain ⟨hb, _, h3⟩ := hI
      by_cases hd : isDense c bits = true
      · rw [if_pos hd] at wf ⊢
        have hbw := isDense_iff.1 hd
        subst hbw
        rw [hlast, sorted_max (by rw [hs]; exact sorted_suffix (elems_dense_sorted ok sz cap a) j)]
      · rw [if_neg hd] at wf h3 ⊢
        by_cases hp : isPlain c bits = true
        · rw [if_pos hp] at wf h3 ⊢
          have e : (((a.toList.drop k.index).filter (· ≠ 0)).map (fun x => if x = k.bits then 0 else x)) = rest := by
            rw [hb, h3]; rfl
          rw [e]
          cases rest with
          | nil => exact absurd rfl hne
          | cons x xs =>
            rw [List.foldl_cons]
            have : Nat.max 0 x = x := Nat.zero_max x
            rw [this, foldl_natMax]
        · rw [if_neg hp] at wf h3 ⊢
          by_cases hwb : k.whichbit = 0
          · rw [if_pos hwb]
            rcases h3.2 hwb with hi0 | hnil
            · have hall : rest = rows bits (fB bits a) a 0 a.size := by
                rw [h3.1, hi0, hwb, ← rows_eq_restAt, Nat.sub_zero]
              obtain ⟨x, tb, e1, e2, e3⟩ := bitmap_fresh_max wf (by rw [← hall]; exact hne)
              rw [e1]; dsimp only; rw [hb, e2, hall, e3]
            · exact absurd hnil hne
          · rw [if_neg hwb]
            have hdr := drain_inv ok wf0 (k.szLeft + 1) k rest ⟨hb, hsz, by rw [if_neg hd, if_neg hp]; exact h3⟩
              (by omega)
            rw [hdr]
            cases rest with
            | nil => exact absurd rfl hne
            | cons x xs => dsimp only; rw [foldl_natMax]

/-! ### the shortcuts, for the cursor after `j` steps -/

theorem last_after (ok : CfgOK c) {r : Rp} (wf : WF c r) {j : Nat} {ck : Cursor}
    (h : advance c r j (cursorOf r) = .ok ck) : last c r ck = .ok ((elems c r).drop j).getLast? :=
  last_inv ok wf (reach_inv ok wf h) rfl

theorem min_after (ok : CfgOK c) {r : Rp} (wf : WF c r) {j : Nat} {ck : Cursor}
    (h : advance c r j (cursorOf r) = .ok ck) : min c r ck = .ok ((elems c r).drop j).min? :=
  min_inv ok wf (reach_inv ok wf h) rfl

theorem max_after (ok : CfgOK c) {r : Rp} (wf : WF c r) {j : Nat} {ck : Cursor}
    (h : advance c r j (cursorOf r) = .ok ck) : max c r ck = .ok ((elems c r).drop j).max? :=
  max_inv ok wf (reach_inv ok wf h) rfl

#print axioms drain_eq_elems
#print axioms advance_drain
#print axioms next_after
#print axioms exhausted
#print axioms count_after
#print axioms sizeHint_after
#print axioms last_after
#print axioms min_after
#print axioms max_after
end SC
