import TinysetModel.Proofs.Plain
import TinysetModel.Proofs.Bits
import TinysetModel.Proofs.Tiny.Ascending
/-! The representation invariant `WF`, and the specification every operation is proved against.
`elems c r` (the iteration order, `Model/Set.lean`) is the abstraction function. -/
namespace SC
open RH

/-- facts about a configuration that the proofs use; both instances satisfy them (`cfg64_ok`, `cfg32_ok`) -/
structure CfgOK (c : Cfg) : Prop where
  W_eq : c.W = 2 ^ c.dShift
  W_pos : 4 ≤ c.W
  codec : TinyC.CodecOK c.codec
  /-- `compute_array_bits(e) ≥ b` (for a bitmap width `0 < b < W`) means `e` has at most `W - b` bits -/
  cab_bound : ∀ e b, e < 2 ^ c.W → 0 < b → b < c.W → b ≤ c.cab e → e < 2 ^ (c.W - b)
  cab_le : ∀ e, 2 ≤ e → c.cab e ≤ c.W
  /-- `compute_array_bits` is a small number (at most 62), in particular a `W`-bit value -/
  cab_lt : ∀ e, c.cab e < 2 ^ c.W
  denseCap_pos : ∀ mx, 0 < c.denseCap mx
  /-- the grown dense block contains the word of the element that caused the growth -/
  grow : ∀ e, e >>> c.dShift < c.denseGrow e

/-- inline value -/
structure StackWF (c : Cfg) (t : TinyC.T) : Prop where
  sz_pos : 1 ≤ t.sz
  sz_le : t.sz ≤ c.codec.maxN
  range : ∀ x, x ∈ t.members c.codec → x < 2 ^ c.W

/-- dense bitset: `bits = W` -/
structure DenseWF (c : Cfg) (sz cap : Nat) (a : Tbl) : Prop where
  cap_eq : cap = a.size
  cap_pos : 0 < cap
  words : ∀ i, i < a.size → get a i < 2 ^ c.W
  szc : sz = (elems c (.heap sz cap c.W a)).length
  range : ∀ x, x ∈ elems c (.heap sz cap c.W a) → x < 2 ^ c.W

/-- bitmap Robin-Hood table: `0 < bits < W` -/
structure BitmapWF (c : Cfg) (sz cap bits : Nat) (a : Tbl) : Prop where
  cap_eq : cap = a.size
  cap_pos : 0 < cap
  bits_pos : 0 < bits
  bits_lt : bits < c.W
  inv : Inv a bits
  cut : ∃ b, b < a.size ∧ Lin a bits b
  /-- every occupied bucket has a non-empty bitmap and a key that fits above it -/
  bucket : ∀ i, i < a.size → get a i ≠ 0 → get a i % 2 ^ bits ≠ 0 ∧ get a i < 2 ^ c.W
  /-- every member could be stored with this width -/
  fits : ∀ x, x ∈ elems c (.heap sz cap bits a) → bits ≤ c.cab x
  szc : sz = (elems c (.heap sz cap bits a)).length
  range : ∀ x, x ∈ elems c (.heap sz cap bits a) → x < 2 ^ c.W

/-- the representation invariant -/
def WF (c : Cfg) : Rp → Prop
  | .empty => True
  | .stack t => StackWF c t
  | .heap sz cap bits a =>
    if isDense c bits then DenseWF c sz cap a
    else if isPlain c bits then PlainWF bits sz a ∧ cap = a.size ∧ c.W < bits ∧ (∀ i, i < a.size → get a i < 2 ^ c.W) ∧ bits < 2 ^ c.W
    else BitmapWF c sz cap bits a

/-- what every well-formed value satisfies (derived from `WF` in `Proofs/Refine.lean`: `absOK_of_wf`) -/
structure AbsOK (c : Cfg) (r : Rp) : Prop where
  nodup : (elems c r).Nodup
  len : len r = (elems c r).length
  range : ∀ x, x ∈ elems c r → x < 2 ^ c.W

/-- specification of one `insert` -/
structure InsOK (c : Cfg) (r : Rp) (e : Nat) (r' : Rp) (b : Bool) : Prop where
  wf : WF c r'
  ret : b = true ↔ e ∉ elems c r
  mem : ∀ x, x ∈ elems c r' ↔ (x ∈ elems c r ∨ x = e)

/-- specification of one `remove` -/
structure RemOK (c : Cfg) (r : Rp) (e : Nat) (r' : Rp) (b : Bool) : Prop where
  wf : WF c r'
  ret : b = true ↔ e ∈ elems c r
  mem : ∀ x, x ∈ elems c r' ↔ (x ∈ elems c r ∧ x ≠ e)

/-- an `insert` function (the recursive calls of `insertStep`) that is correct whenever it returns -/
def RecOK (c : Cfg) {D : Type} (rec : Ins D) : Prop :=
  ∀ r e d r' b d', WF c r → e < 2 ^ c.W → rec r e d = .ok ((r', b), d') → InsOK c r e r' b

end SC
