import TinysetModel.Proofs.WF
/-! `insertAll` / `rebuild` (the re-insertion loops of every growth and conversion branch) for a
recursive `insert` that is correct whenever it returns. -/
namespace SC
open RH

variable {c : Cfg} {D : Type}

theorem bind_ok {α β : Type} {m : M D α} {f : α → M D β} {d : D} {y : β} {d' : D}
    (h : (m >>= f) d = .ok (y, d')) : ∃ x d1, m d = .ok (x, d1) ∧ f x d1 = .ok (y, d') := by
  simp only [bind, StateT.bind, Except.bind] at h
  cases hm : m d with
  | error e => rw [hm] at h; cases h
  | ok p => rw [hm] at h; exact ⟨p.1, p.2, rfl, h⟩

/-- folding a correct `insert` over a list of in-range values adds exactly those values -/
theorem insertAll_ok {rec : Ins D} (hrec : RecOK c rec) : ∀ (xs : List Nat) (r : Rp) (d : D) (r' : Rp) (d' : D),
    WF c r → (∀ x ∈ xs, x < 2 ^ c.W) → insertAll rec r xs d = .ok (r', d') →
    WF c r' ∧ ∀ x, x ∈ elems c r' ↔ (x ∈ elems c r ∨ x ∈ xs) := by
  intro xs
  induction xs with
  | nil =>
    intro r d r' d' wf _ h
    simp only [insertAll, List.foldlM_nil, pure, StateT.pure, Except.pure] at h
    cases h
    exact ⟨wf, by simp⟩
  | cons x xs ih =>
    intro r d r' d' wf hx h
    simp only [insertAll, List.foldlM_cons] at h
    obtain ⟨r1, d1, h1, h2⟩ := bind_ok h
    obtain ⟨p, d2, h3, h4⟩ := bind_ok h1
    simp only [pure, StateT.pure, Except.pure] at h4
    cases h4
    have s1 := hrec r x d p.1 p.2 _ wf (hx x List.mem_cons_self) (by rw [h3])
    have := ih p.1 _ r' d' s1.wf (fun y hy => hx y (List.mem_cons_of_mem _ hy)) h2
    refine ⟨this.1, fun y => ?_⟩
    rw [this.2 y, s1.mem y]
    simp only [List.mem_cons]
    constructor
    · rintro ((h | h) | h)
      · exact Or.inl h
      · exact Or.inr (Or.inl h)
      · exact Or.inr (Or.inr h)
    · rintro (h | h | h)
      · exact Or.inl (Or.inl h)
      · exact Or.inl (Or.inr h)
      · exact Or.inr h

/-- `rebuild new old e`: refill an empty well-formed `new` with the members of `old`, then insert `e` -/
theorem rebuild_ok {rec : Ins D} (hrec : RecOK c rec) {new old : Rp} {e : Nat} {d d' : D} {r' : Rp} {b : Bool}
    (hnew : WF c new) (hempty : elems c new = []) (hold : ∀ x ∈ elems c old, x < 2 ^ c.W) (he : e < 2 ^ c.W)
    (h : rebuild c rec new old e d = .ok ((r', b), d')) :
    WF c r' ∧ b = true ∧ ∀ x, x ∈ elems c r' ↔ (x ∈ elems c old ∨ x = e) := by
  unfold rebuild at h
  obtain ⟨r1, d1, h1, h2⟩ := bind_ok h
  obtain ⟨p, d2, h3, h4⟩ := bind_ok h2
  simp only [pure, StateT.pure, Except.pure] at h4
  cases h4
  have s1 := insertAll_ok hrec _ _ _ _ _ hnew hold h1
  have s2 := hrec r1 e d1 p.1 p.2 _ s1.1 he (by rw [h3])
  refine ⟨s2.wf, rfl, fun x => ?_⟩
  rw [s2.mem x, s1.2 x, hempty]
  simp

end SC
