import TinysetModel.Proofs.Total32Fill
/-! Totality of `insert` for any room rule, part 4: the rebuild sites.  `LikeS c` collects what the argument
needs to know about a configuration; both `cfg64` and `cfg32` have these properties. -/
namespace SC
open RH Plain2

variable {c : Cfg} {D : Type}

structure LikeS (c : Cfg) : Prop where
  cab_mono : ∀ x y, x ≤ y → c.cab y ≤ c.cab x
  /-- `with_capacity_and_max(cap, mx)` picks the dense layout whenever `cap > mx >>> 4` -/
  dense_first : ∀ m, m >>> c.capShift ≤ m >>> 4
  /-- the widths chosen at creation (`mx ≥ 16`) are `0` (plain) or proper bitmap widths -/
  cab_range : ∀ m, 0 < m >>> 4 → c.cab m = 0 ∨ (0 < c.cab m ∧ c.cab m < c.W)
  dense_in : ∀ y mx, y ≤ mx → y >>> c.dShift < c.denseCap mx
  /-- the sparse fallback has room for every member and the new value -/
  sparse_fit : ∀ sz, sz + 1 + slack c (c.sparseCap sz) ≤ c.sparseCap sz
  sparse_small : ∀ e sz, e < 2 ^ c.W → sz < e >>> c.capShift → c.sparseCap sz + c.W + 3 ≤ 2 ^ c.W
  /-- the narrowed table has room for `n` keys -/
  narrow_fit : ∀ n r, 0 < n → n + slack c (n + 1 + c.narrowExtra n + c.narrowMul * (r % n)) ≤
    n + 1 + c.narrowExtra n + c.narrowMul * (r % n)
  narrow_le : ∀ n r, 0 < n → c.narrowExtra n + c.narrowMul * (r % n) ≤ 2 * n
  codec_small : c.codec.maxN + 1 + c.W + 3 ≤ 2 ^ c.W
  codec_small3 : 3 * c.codec.maxN + 5 + c.W + 3 ≤ 2 ^ c.W
  /-- the pre-sized bitmap table of `collect` (`(k + 1) * 11 / 10` buckets) has room for its `k` keys -/
  presize_fit : ∀ k, k + slack c ((k + 1) * 11 / 10) ≤ (k + 1) * 11 / 10
  /-- the table replacing an inline value is so small that the room rule asks for no slack -/
  inline_slack : ∀ s, s ≤ c.codec.maxN → slack c (s + 1) = 0
  /-- the regrown table (`cap + 1 + growExtra cap + r % cap` buckets) has room for `cap + 1` keys -/
  grow_fit : ∀ cap r, 0 < cap → cap + 1 + slack c (cap + 1 + c.growExtra cap + r % cap) ≤
    cap + 1 + c.growExtra cap + r % cap

theorem cfg32_cab_mono {x y : Nat} (h : x ≤ y) : cfg32.cab y ≤ cfg32.cab x := by
  have hl : log2 x ≤ log2 y := TinyC.log2_mono h
  rw [cfg32_cab_eq, cfg32_cab_eq]
  repeat' split
  all_goals omega

theorem cfg32_likeS : LikeS cfg32 where
  cab_mono := fun _ _ h => cfg32_cab_mono h
  dense_first := by
    intro m
    show m >>> 5 ≤ m >>> 4
    rw [Nat.shiftRight_eq_div_pow, Nat.shiftRight_eq_div_pow]
    omega
  cab_range := by
    intro m hm
    have hm' : 0 < m >>> 4 := hm
    rw [Nat.shiftRight_eq_div_pow] at hm'
    have hm0 : m ≠ 0 := by intro h; subst h; simp at hm'
    have h6 : ¬ log2 m ≤ 4 := by
      intro hl
      have := (TinyC.log2_le_iff hm0).1 hl
      omega
    show cfg32.cab m = 0 ∨ (0 < cfg32.cab m ∧ cfg32.cab m < 32)
    rw [cfg32_cab_eq]
    repeat' split
    all_goals omega
  dense_in := by
    intro y mx h
    show y >>> 5 < 1 + mx / 32 + mx / 128
    rw [Nat.shiftRight_eq_div_pow]
    omega
  sparse_fit := by
    intro sz
    show sz + 1 + slack cfg32 (1 + 2 * sz) ≤ 1 + 2 * sz
    rw [slack32]; omega
  sparse_small := by
    intro e sz he h
    have he' : e < 2 ^ 32 := he
    have h' : sz < e >>> 5 := h
    rw [Nat.shiftRight_eq_div_pow] at h'
    show 1 + 2 * sz + 32 + 3 ≤ 2 ^ 32
    omega
  narrow_fit := by
    intro n r hn
    show n + slack cfg32 (n + 1 + n / 8 + 1 * (r % n)) ≤ n + 1 + n / 8 + 1 * (r % n)
    rw [slack32]
    have := Nat.mod_lt r hn
    omega
  narrow_le := by
    intro n r hn
    show n / 8 + 1 * (r % n) ≤ 2 * n
    have := Nat.mod_lt r hn
    omega
  codec_small := by decide
  codec_small3 := by decide
  presize_fit := by
    intro k
    rw [slack32]; omega
  inline_slack := by
    intro s hs
    have hs' : s ≤ 6 := hs
    rw [slack32]; omega
  grow_fit := by
    intro cap r hc
    show cap + 1 + slack cfg32 (cap + 1 + cap / 8 + r % cap) ≤ cap + 1 + cap / 8 + r % cap
    rw [slack32]
    have := Nat.mod_lt r hc
    omega

theorem slack_of_none (h : c.roomShift = none) (n : Nat) : slack c n = 0 := by
  unfold slack; rw [h]

/-- every configuration with the `cfg64` room rule (`Like64`) is an instance -/
theorem Like64.toLikeS (lk : Like64 c) (h1 : ∀ m, m >>> c.capShift ≤ m >>> 4)
    (h2 : 3 * c.codec.maxN + 5 + c.W + 3 ≤ 2 ^ c.W) : LikeS c where
  cab_mono := lk.cab_mono
  dense_first := h1
  codec_small3 := h2
  presize_fit := by
    intro k
    rw [slack_of_none lk.room]
    omega
  cab_range := fun m _ => lk.cab_range m
  dense_in := lk.dense_in
  sparse_fit := by
    intro sz
    rw [slack_of_none lk.room]
    exact lk.sparse_le sz
  sparse_small := lk.sparse_small
  narrow_fit := by
    intro n r _
    rw [slack_of_none lk.room]
    omega
  narrow_le := lk.narrow_le
  codec_small := lk.codec_small
  inline_slack := fun s _ => slack_of_none lk.room _
  grow_fit := by
    intro cap r _
    rw [slack_of_none lk.room]
    omega

theorem cfg64_likeS : LikeS cfg64 := cfg64_like.toLikeS
  (by
    intro m
    show m >>> 7 ≤ m >>> 4
    rw [Nat.shiftRight_eq_div_pow, Nat.shiftRight_eq_div_pow]
    omega)
  (by decide)

/-! ### fresh tables are good -/

theorem withCapBits_goodS (ok : CfgOK c) (g : Rng D) {V : List Nat} {cap bits : Nat} (hcap : 0 < cap)
    (hb : bits = 0 ∨ (0 < bits ∧ bits < c.W))
    (hfit : ∀ y ∈ V, bits ≤ c.cab y) (hsmall : bits = 0 → cap + c.W + 3 ≤ 2 ^ c.W)
    (hKL : ∃ KL : List Nat, KL.Nodup ∧ KL.length + slack c cap ≤ cap ∧ ∀ y ∈ V, y / Max.max bits 1 ∈ KL) (d : D) :
    ∃ r d', withCapBits c g cap bits d = .ok (r, d') ∧ RefillGoodS c V r := by
  obtain ⟨r, d', h⟩ := withCapBits_total (c := c) g cap bits d
  have hbW : bits < 2 ^ c.W := by
    rcases hb with h0 | ⟨_, h1⟩
    · rw [h0]; exact Nat.two_pow_pos _
    · exact Nat.lt_trans h1 Nat.lt_two_pow_self
  obtain ⟨wf, hempty⟩ := withCapBits_ok ok g cap bits hbW d d' r h
  refine ⟨r, d', h, wf, (by rw [hempty]; intro y hy; cases hy), ?_⟩
  obtain ⟨KL, hnd, hlen, hK⟩ := hKL
  rcases withCapBits_shape g cap bits d d' r h with ⟨h0, _⟩ | ⟨_, bits', hr, hne, heq⟩
  · omega
  · subst hr
    rcases hb with h0 | ⟨h1, h2⟩
    · have hW := heq h0
      refine (RefillShapeS_plain (isDense_of_gt hW) (isPlain_of_gt hW)).2 ⟨hsmall h0, KL, hnd, hlen, fun y hy => ?_⟩
      have := hK y hy
      rw [h0] at this
      simpa using this
    · have hbb : bits' = bits := hne (by omega)
      subst hbb
      have hd : isDense c bits' = false := by unfold isDense; exact decide_eq_false (by omega)
      have hp : isPlain c bits' = false := by unfold isPlain; exact decide_eq_false (by omega)
      refine (RefillShapeS_bitmap hd hp).2 ⟨hfit, KL, hnd, hlen, fun y hy => ?_⟩
      have := hK y hy
      rw [Nat.max_eq_left (by omega : 1 ≤ bits')] at this
      exact this

theorem denseWithMax_goodS (ok : CfgOK c) (lk : LikeS c) {V : List Nat} {mx : Nat} (hmx : ∀ y ∈ V, y ≤ mx) :
    RefillGoodS c V (denseWithMax c mx) := by
  obtain ⟨wf, hempty⟩ := denseWithMax_ok ok mx
  refine ⟨wf, (by rw [hempty]; intro y hy; cases hy), ?_⟩
  unfold denseWithMax
  exact RefillShapeS_dense.2 (fun y hy => lk.dense_in y mx (hmx y hy))

/-- `with_capacity_and_max(cap, mx)` is good for values `≤ mx` whose number, plus the slack, is at most `cap` -/
theorem withCapMax_goodS (ok : CfgOK c) (lk : LikeS c) (g : Rng D) {V : List Nat} {cap mx : Nat} (hcap : 0 < cap)
    (hmx : ∀ y ∈ V, y ≤ mx) (hlen : V.length + slack c cap ≤ cap) (hsmall : cap + c.W + 3 ≤ 2 ^ c.W) (d : D) :
    ∃ r d', withCapMax c g cap mx d = .ok (r, d') ∧ RefillGoodS c V r := by
  unfold withCapMax
  by_cases h : cap > mx >>> c.capShift
  · rw [if_pos h]
    exact ⟨_, _, rfl, denseWithMax_goodS ok lk hmx⟩
  · rw [if_neg h]
    obtain ⟨KL, h1, h2, h3⟩ := total_KL_of_length V (Max.max (c.cab mx) 1)
    have hdf := lk.dense_first mx
    exact withCapBits_goodS ok g hcap (lk.cab_range mx (by omega)) (fun y hy => lk.cab_mono y mx (hmx y hy))
      (fun _ => hsmall) ⟨KL, h1, by omega, h3⟩ d

/-! ### `.empty`, inline values, dense -/

theorem insertEmpty_totalS (ok : CfgOK c) (lk : LikeS c) (g : Rng D) (rec0 : Ins D) (hrec0 : RecOK c rec0)
    (e : Nat) (he : e < 2 ^ c.W) (d : D) :
    ∃ r' b d', insertStep c g (insertStep c g rec0) .empty e d = .ok ((r', b), d') := by
  rw [insertStep]
  cases hnew : TinyC.newSortedDeduped c.codec [e] with
  | some t => exact ⟨_, _, _, rfl⟩
  | none =>
    dsimp only
    have hsl : slack c 1 = 0 := lk.inline_slack 0 (Nat.zero_le _)
    obtain ⟨r, d1, h1, gd⟩ := withCapMax_goodS ok lk g (V := [e]) (cap := 1) (mx := e) (by omega)
      (fun y hy => by rw [List.mem_singleton.1 hy]; exact Nat.le_refl _)
      (by rw [List.length_singleton]; omega) (total_small_one ok) d
    obtain ⟨r2, b, d2, h2, _⟩ := step_totalS ok g rec0 hrec0 gd List.mem_cons_self he d1
    exact ⟨r2, b, d2, by rw [bind_run h1]; exact h2⟩

theorem insertStack_totalS (ok : CfgOK c) (lk : LikeS c) (g : Rng D) (rec0 : Ins D) (hrec0 : RecOK c rec0)
    {t : TinyC.T} (wf : StackWF c t) (e : Nat) (he : e < 2 ^ c.W) (d : D) :
    ∃ r' b d', insertStep c g (insertStep c g rec0) (.stack t) e d = .ok ((r', b), d') := by
  rw [insertStep]
  cases hins : TinyC.insert c.codec t e with
  | some t' => exact ⟨_, _, _, rfl⟩
  | none =>
    dsimp only
    have hlenM := stack_members_length ok wf
    have hsz := wf.sz_le
    have hcs := lk.codec_small
    have hsl := lk.inline_slack t.sz hsz
    obtain ⟨r, d1, h1, gd⟩ := withCapMax_goodS ok lk g (V := t.members c.codec ++ [e]) (cap := t.sz + 1)
      (mx := if e > (t.members c.codec).getLast?.getD 0 then e else (t.members c.codec).getLast?.getD 0)
      (by omega)
      (by
        intro y hy
        rcases List.mem_append.1 hy with h | h
        · have := total_le_getLast_of_sorted _ (members_sorted (c := c) t) y h
          split <;> omega
        · rw [List.mem_singleton.1 h]
          split <;> omega)
      (by rw [List.length_append, hlenM, List.length_singleton]; omega)
      (by omega) d
    obtain ⟨r2, b, d2, h2⟩ := rebuild_totalS ok g rec0 hrec0 (old := .stack t) (e := e) gd
      (fun x hx => ⟨List.mem_append_left _ hx, wf.range x hx⟩)
      (List.mem_append_right _ List.mem_cons_self) he d1
    exact ⟨r2, b, d2, by rw [bind_run h1]; exact h2⟩

theorem insertDense_totalS (ok : CfgOK c) (lk : LikeS c) (g : Rng D) (rec0 : Ins D) (hrec0 : RecOK c rec0)
    {sz cap : Nat} {a : Tbl} (dw : DenseWF c sz cap a) (e : Nat) (he : e < 2 ^ c.W) (d : D) :
    ∃ r' b d', insertDense c g (insertStep c g rec0) sz cap a e d = .ok ((r', b), d') := by
  unfold insertDense
  dsimp only
  by_cases hk : e >>> c.dShift < cap
  · rw [if_pos hk]; exact ⟨_, _, _, rfl⟩
  · rw [if_neg hk]
    by_cases hsp : e >>> c.capShift > sz
    · rw [if_pos hsp]
      have hszc := dw.szc
      have hsl := lk.sparse_fit sz
      have hdf := lk.dense_first e
      obtain ⟨KL, k1, k2, k3⟩ := total_KL_of_length (elems c (.heap sz cap c.W a) ++ [e]) (Max.max (c.cab e) 1)
      rw [List.length_append, List.length_singleton, ← hszc] at k2
      obtain ⟨r, d1, h1, gd⟩ := withCapBits_goodS ok g (V := elems c (.heap sz cap c.W a) ++ [e])
        (cap := c.sparseCap sz) (bits := c.cab e) (by omega) (lk.cab_range e (by omega))
        (by
          intro y hy
          rcases List.mem_append.1 hy with h | h
          · apply lk.cab_mono
            have h1 := ((mem_elems_dense ok y).1 h).1
            have h2 := dw.cap_eq
            rw [shr_dShift ok] at hk
            exact Nat.le_of_lt (total_lt_of_div_lt_div (W := c.W) (by omega))
          · rw [List.mem_singleton.1 h]; exact Nat.le_refl _)
        (fun _ => lk.sparse_small e sz he hsp) ⟨KL, k1, by omega, k3⟩ d
      obtain ⟨r2, b, d2, h2⟩ := rebuild_totalS ok g rec0 hrec0 (old := .heap sz cap c.W a) (e := e) gd
        (fun x hx => ⟨List.mem_append_left _ hx, dw.range x hx⟩)
        (List.mem_append_right _ List.mem_cons_self) he d1
      exact ⟨r2, b, d2, by rw [bind_run h1]; exact h2⟩
    · rw [if_neg hsp]; exact ⟨_, _, _, rfl⟩

#print axioms cfg32_likeS
#print axioms cfg64_likeS
#print axioms insertEmpty_totalS
#print axioms insertStack_totalS
#print axioms insertDense_totalS
#print axioms withCapMax_goodS
end SC
