import TinysetModel.Generated.Fits

/-! Fits64 encoding theorems over the generated `BitVec` terms. -/
namespace FitsP

/-! ## generic zig-zag, parametrised by the width -/

def toG {w : Nat} (self : BitVec w) : BitVec 64 :=
  (((((BitVec.signExtend 64 (~~~self)) <<< 1) ||| 1#64) &&& ((if (BitVec.sle 0#w self) then 1#64 else 0#64) - 1#64)) ||| (((BitVec.signExtend 64 self) <<< 1) &&& (~~~((if (BitVec.sle 0#w self) then 1#64 else 0#64) - 1#64))))

def fromG (w : Nat) (x : BitVec 64) : BitVec w :=
  (((BitVec.setWidth w (x >>> 1)) &&& ((BitVec.setWidth w (x &&& 1#64)) - 1#w)) ||| ((BitVec.setWidth w (~~~(x >>> 1))) &&& (~~~((BitVec.setWidth w (x &&& 1#64)) - 1#w))))

theorem m1 : (0#64 - 1#64) = BitVec.allOnes 64 := by decide
theorem m0 : (1#64 - 1#64) = 0#64 := by decide

theorem sel_ones {w} (a b : BitVec w) : (a &&& BitVec.allOnes w) ||| (b &&& ~~~ BitVec.allOnes w) = a := by
  simp
theorem sel_zero {w} (a b : BitVec w) : (a &&& 0#w) ||| (b &&& ~~~ 0#w) = b := by
  simp

theorem toG_pos {w} (x : BitVec w) (h : x.msb = false) : toG x = (BitVec.signExtend 64 x) <<< 1 := by
  unfold toG; rw [BitVec.zero_sle_eq_not_msb, h]
  simp only [Bool.not_false, if_true, m0]; exact sel_zero _ _
theorem toG_neg {w} (x : BitVec w) (h : x.msb = true) :
    toG x = ((BitVec.signExtend 64 (~~~x)) <<< 1) ||| 1#64 := by
  unfold toG; rw [BitVec.zero_sle_eq_not_msb, h]
  simp only [Bool.not_true, Bool.false_eq_true, if_false, m1]; exact sel_ones _ _

theorem low_pos (x : BitVec 64) : (x <<< 1) &&& 1#64 = 0#64 := by
  ext i hi; simp; omega
theorem low_neg (y : BitVec 64) : ((y <<< 1) ||| 1#64) &&& 1#64 = 1#64 := by
  ext i hi; simp; intro h; omega

theorem fromG_even (w : Nat) (y : BitVec 64) (h : y &&& 1#64 = 0#64) :
    fromG w y = BitVec.setWidth w (y >>> 1) := by
  unfold fromG; rw [h]
  have : (BitVec.setWidth w 0#64) - 1#w = BitVec.allOnes w := by
    simp [BitVec.neg_one_eq_allOnes]
  rw [this]; exact sel_ones _ _

theorem fromG_odd (w : Nat) (y : BitVec 64) (h : y &&& 1#64 = 1#64) :
    fromG w y = BitVec.setWidth w (~~~(y >>> 1)) := by
  unfold fromG; rw [h]
  have : (BitVec.setWidth w 1#64) - 1#w = 0#w := by
    have : BitVec.setWidth w 1#64 = 1#w := by
      ext i hi; simp
    rw [this, BitVec.sub_self]
  rw [this]; exact sel_zero _ _

theorem rt_pos {w} (hw : w ≤ 64) (x : BitVec w) (h : x.msb = false) :
    BitVec.setWidth w (((BitVec.signExtend 64 x) <<< 1) >>> 1) = x := by
  ext i hi
  simp [BitVec.getLsbD_signExtend]
  have hi64 : i < 64 := by omega
  rw [BitVec.msb_eq_getLsbD_last] at h
  by_cases h1 : 1 + i < 64
  · simp [h1, hi64, hi]
  · have hw' : w = 64 := by omega
    subst hw'
    have hi' : i = 63 := by omega
    subst hi'
    simp at h
    simp [h]

theorem rt_neg {w} (hw : w ≤ 64) (x : BitVec w) (h : x.msb = true) :
    BitVec.setWidth w (~~~((((BitVec.signExtend 64 (~~~x)) <<< 1) ||| 1#64) >>> 1)) = x := by
  ext i hi
  simp [BitVec.getLsbD_signExtend]
  have hi64 : i < 64 := by omega
  rw [BitVec.msb_eq_getLsbD_last] at h
  by_cases h1 : 1 + i < 64
  · simp [h1, hi64, hi]
  · have hw' : w = 64 := by omega
    subst hw'
    have hi' : i = 63 := by omega
    subst hi'
    simp at h
    simp [h]

theorem fromG_toG {w} (hw : w ≤ 64) (x : BitVec w) : fromG w (toG x) = x := by
  cases h : x.msb
  · rw [toG_pos x h, fromG_even _ _ (low_pos _)]; exact rt_pos hw x h
  · rw [toG_neg x h, fromG_odd _ _ (low_neg _)]; exact rt_neg hw x h

/-! ### magnitude -/

theorem pow_le64 {w} (hw : w ≤ 64) : 2 ^ w ≤ 2 ^ 64 := Nat.pow_le_pow_right (by decide) hw

theorem toG_toNat_pos {w} (hw : w ≤ 64) (x : BitVec w) (h : x.msb = false) :
    (toG x).toNat = 2 * x.toNat := by
  rw [toG_pos x h, BitVec.signExtend_eq_setWidth_of_msb_false h, BitVec.toNat_shiftLeft,
    BitVec.toNat_setWidth, Nat.shiftLeft_eq]
  have h1 := BitVec.msb_eq_false_iff_two_mul_lt.1 h
  have h2 := pow_le64 hw
  have h3 : x.toNat % 2 ^ 64 = x.toNat := Nat.mod_eq_of_lt (by omega)
  rw [h3, Nat.mod_eq_of_lt (by omega)]; omega

theorem toG_toNat_neg {w} (hw : w ≤ 64) (x : BitVec w) (h : x.msb = true) :
    (toG x).toNat = 2 * (2 ^ w - 1 - x.toNat) + 1 := by
  have hw0 : 0 < w := by
    cases w with
    | zero => have := x.isLt; simp [BitVec.msb_eq_decide] at h; omega
    | succ n => omega
  have hn : (~~~x).msb = false := by simp [h]
  rw [toG_neg x h, BitVec.signExtend_eq_setWidth_of_msb_false hn, BitVec.toNat_or,
    BitVec.toNat_shiftLeft, BitVec.toNat_setWidth, BitVec.toNat_not]
  have h1 := BitVec.msb_eq_true_iff_two_mul_ge.1 h
  have h2 := pow_le64 hw
  have hx := x.isLt
  have h3 : (2 ^ w - 1 - x.toNat) % 2 ^ 64 = 2 ^ w - 1 - x.toNat := Nat.mod_eq_of_lt (by omega)
  rw [h3]
  have h4 : (2 ^ w - 1 - x.toNat) <<< 1 % 2 ^ 64 = (2 ^ w - 1 - x.toNat) <<< 1 := by
    apply Nat.mod_eq_of_lt; rw [Nat.shiftLeft_eq]; omega
  rw [h4]
  show (2 ^ w - 1 - x.toNat) <<< 1 ||| 1 = _
  rw [← Nat.shiftLeft_add_eq_or_of_lt (by decide), Nat.shiftLeft_eq]; omega

/-- exact form, nonnegative case -/
theorem toG_exact_pos {w} (hw : w ≤ 64) (x : BitVec w) (h : 0 ≤ x.toInt) :
    (toG x).toNat = 2 * x.toInt.toNat := by
  have hm : x.msb = false := by
    cases hm : x.msb
    · rfl
    · have := BitVec.toInt_neg_of_msb_true hm; omega
  rw [toG_toNat_pos hw x hm, BitVec.toInt_eq_toNat_of_msb hm]; simp

/-- exact form, negative case -/
theorem toG_exact_neg {w} (hw : w ≤ 64) (x : BitVec w) (h : x.toInt < 0) :
    (toG x).toNat = 2 * x.toInt.natAbs - 1 := by
  have hm : x.msb = true := by
    cases hm : x.msb
    · have := BitVec.toInt_nonneg_of_msb_false hm; omega
    · rfl
  rw [toG_toNat_neg hw x hm, BitVec.toInt_eq_msb_cond, hm]
  simp only [if_true]
  have hx := x.isLt
  omega

theorem toG_small {w} (hw : w ≤ 64) (x : BitVec w) :
    (toG x).toNat ≤ 2 * x.toInt.natAbs + 1 := by
  by_cases h : 0 ≤ x.toInt
  · rw [toG_exact_pos hw x h]; omega
  · rw [toG_exact_neg hw x (by omega)]; omega

end FitsP

/-! ## the generated definitions -/

open FitsP

theorem from_to_u64 (x : BitVec 64) : Gen.from_u64_u64 (Gen.to_u64_u64 x) = x := rfl
theorem to_injective_u64 (x y : BitVec 64) (h : Gen.to_u64_u64 x = Gen.to_u64_u64 y) : x = y := h
theorem to_small_u64 (x : BitVec 64) : (Gen.to_u64_u64 x).toNat = x.toNat := rfl

theorem from_to_usize (x : BitVec 64) : Gen.from_u64_usize (Gen.to_u64_usize x) = x := rfl
theorem to_injective_usize (x y : BitVec 64) (h : Gen.to_u64_usize x = Gen.to_u64_usize y) : x = y := h
theorem to_small_usize (x : BitVec 64) : (Gen.to_u64_usize x).toNat = x.toNat := rfl

theorem from_to_u32 (x : BitVec 32) : Gen.from_u64_u32 (Gen.to_u64_u32 x) = x := by
  unfold Gen.from_u64_u32 Gen.to_u64_u32
  ext i hi; simp
theorem to_injective_u32 (x y : BitVec 32) (h : Gen.to_u64_u32 x = Gen.to_u64_u32 y) : x = y := by
  rw [← from_to_u32 x, ← from_to_u32 y, h]
theorem to_small_u32 (x : BitVec 32) : (Gen.to_u64_u32 x).toNat = x.toNat := by
  unfold Gen.to_u64_u32
  rw [BitVec.toNat_setWidth]; have := x.isLt; omega

theorem from_to_u16 (x : BitVec 16) : Gen.from_u64_u16 (Gen.to_u64_u16 x) = x := by
  unfold Gen.from_u64_u16 Gen.to_u64_u16
  ext i hi; simp
theorem to_injective_u16 (x y : BitVec 16) (h : Gen.to_u64_u16 x = Gen.to_u64_u16 y) : x = y := by
  rw [← from_to_u16 x, ← from_to_u16 y, h]
theorem to_small_u16 (x : BitVec 16) : (Gen.to_u64_u16 x).toNat = x.toNat := by
  unfold Gen.to_u64_u16
  rw [BitVec.toNat_setWidth]; have := x.isLt; omega

theorem from_to_u8 (x : BitVec 8) : Gen.from_u64_u8 (Gen.to_u64_u8 x) = x := by
  unfold Gen.from_u64_u8 Gen.to_u64_u8
  ext i hi; simp
theorem to_injective_u8 (x y : BitVec 8) (h : Gen.to_u64_u8 x = Gen.to_u64_u8 y) : x = y := by
  rw [← from_to_u8 x, ← from_to_u8 y, h]
theorem to_small_u8 (x : BitVec 8) : (Gen.to_u64_u8 x).toNat = x.toNat := by
  unfold Gen.to_u64_u8
  rw [BitVec.toNat_setWidth]; have := x.isLt; omega

theorem to_eq_i8 (x : BitVec 8) : Gen.to_u64_i8 x = toG x := rfl
theorem from_eq_i8 (y : BitVec 64) : Gen.from_u64_i8 y = fromG 8 y := rfl
theorem from_to_i8 (x : BitVec 8) : Gen.from_u64_i8 (Gen.to_u64_i8 x) = x := by
  rw [to_eq_i8, from_eq_i8]; exact fromG_toG (by decide) x
theorem to_injective_i8 (x y : BitVec 8) (h : Gen.to_u64_i8 x = Gen.to_u64_i8 y) : x = y := by
  rw [← from_to_i8 x, ← from_to_i8 y, h]
theorem to_small_i8 (x : BitVec 8) : (Gen.to_u64_i8 x).toNat ≤ 2 * x.toInt.natAbs + 1 := by
  rw [to_eq_i8]; exact toG_small (by decide) x
/-- exact magnitude, nonnegative values -/
theorem to_exact_nonneg_i8 (x : BitVec 8) (h : 0 ≤ x.toInt) :
    (Gen.to_u64_i8 x).toNat = 2 * x.toInt.toNat := by
  rw [to_eq_i8]; exact toG_exact_pos (by decide) x h
/-- exact magnitude, negative values -/
theorem to_exact_neg_i8 (x : BitVec 8) (h : x.toInt < 0) :
    (Gen.to_u64_i8 x).toNat = 2 * x.toInt.natAbs - 1 := by
  rw [to_eq_i8]; exact toG_exact_neg (by decide) x h

theorem to_eq_i16 (x : BitVec 16) : Gen.to_u64_i16 x = toG x := rfl
theorem from_eq_i16 (y : BitVec 64) : Gen.from_u64_i16 y = fromG 16 y := rfl
theorem from_to_i16 (x : BitVec 16) : Gen.from_u64_i16 (Gen.to_u64_i16 x) = x := by
  rw [to_eq_i16, from_eq_i16]; exact fromG_toG (by decide) x
theorem to_injective_i16 (x y : BitVec 16) (h : Gen.to_u64_i16 x = Gen.to_u64_i16 y) : x = y := by
  rw [← from_to_i16 x, ← from_to_i16 y, h]
theorem to_small_i16 (x : BitVec 16) : (Gen.to_u64_i16 x).toNat ≤ 2 * x.toInt.natAbs + 1 := by
  rw [to_eq_i16]; exact toG_small (by decide) x
/-- exact magnitude, nonnegative values -/
theorem to_exact_nonneg_i16 (x : BitVec 16) (h : 0 ≤ x.toInt) :
    (Gen.to_u64_i16 x).toNat = 2 * x.toInt.toNat := by
  rw [to_eq_i16]; exact toG_exact_pos (by decide) x h
/-- exact magnitude, negative values -/
theorem to_exact_neg_i16 (x : BitVec 16) (h : x.toInt < 0) :
    (Gen.to_u64_i16 x).toNat = 2 * x.toInt.natAbs - 1 := by
  rw [to_eq_i16]; exact toG_exact_neg (by decide) x h

theorem to_eq_i32 (x : BitVec 32) : Gen.to_u64_i32 x = toG x := rfl
theorem from_eq_i32 (y : BitVec 64) : Gen.from_u64_i32 y = fromG 32 y := rfl
theorem from_to_i32 (x : BitVec 32) : Gen.from_u64_i32 (Gen.to_u64_i32 x) = x := by
  rw [to_eq_i32, from_eq_i32]; exact fromG_toG (by decide) x
theorem to_injective_i32 (x y : BitVec 32) (h : Gen.to_u64_i32 x = Gen.to_u64_i32 y) : x = y := by
  rw [← from_to_i32 x, ← from_to_i32 y, h]
theorem to_small_i32 (x : BitVec 32) : (Gen.to_u64_i32 x).toNat ≤ 2 * x.toInt.natAbs + 1 := by
  rw [to_eq_i32]; exact toG_small (by decide) x
/-- exact magnitude, nonnegative values -/
theorem to_exact_nonneg_i32 (x : BitVec 32) (h : 0 ≤ x.toInt) :
    (Gen.to_u64_i32 x).toNat = 2 * x.toInt.toNat := by
  rw [to_eq_i32]; exact toG_exact_pos (by decide) x h
/-- exact magnitude, negative values -/
theorem to_exact_neg_i32 (x : BitVec 32) (h : x.toInt < 0) :
    (Gen.to_u64_i32 x).toNat = 2 * x.toInt.natAbs - 1 := by
  rw [to_eq_i32]; exact toG_exact_neg (by decide) x h

theorem to_eq_i64 (x : BitVec 64) : Gen.to_u64_i64 x = toG x := by
  unfold Gen.to_u64_i64 toG; simp only [BitVec.signExtend_eq]
theorem from_eq_i64 (y : BitVec 64) : Gen.from_u64_i64 y = fromG 64 y := by
  unfold Gen.from_u64_i64 fromG; simp only [BitVec.setWidth_eq]
theorem from_to_i64 (x : BitVec 64) : Gen.from_u64_i64 (Gen.to_u64_i64 x) = x := by
  rw [to_eq_i64, from_eq_i64]; exact fromG_toG (by decide) x
theorem to_injective_i64 (x y : BitVec 64) (h : Gen.to_u64_i64 x = Gen.to_u64_i64 y) : x = y := by
  rw [← from_to_i64 x, ← from_to_i64 y, h]
theorem to_small_i64 (x : BitVec 64) : (Gen.to_u64_i64 x).toNat ≤ 2 * x.toInt.natAbs + 1 := by
  rw [to_eq_i64]; exact toG_small (by decide) x
/-- exact magnitude, nonnegative values -/
theorem to_exact_nonneg_i64 (x : BitVec 64) (h : 0 ≤ x.toInt) :
    (Gen.to_u64_i64 x).toNat = 2 * x.toInt.toNat := by
  rw [to_eq_i64]; exact toG_exact_pos (by decide) x h
/-- exact magnitude, negative values -/
theorem to_exact_neg_i64 (x : BitVec 64) (h : x.toInt < 0) :
    (Gen.to_u64_i64 x).toNat = 2 * x.toInt.natAbs - 1 := by
  rw [to_eq_i64]; exact toG_exact_neg (by decide) x h

theorem to_eq_isize (x : BitVec 64) : Gen.to_u64_isize x = toG x := by
  unfold Gen.to_u64_isize toG; simp only [BitVec.signExtend_eq]
theorem from_eq_isize (y : BitVec 64) : Gen.from_u64_isize y = fromG 64 y := by
  unfold Gen.from_u64_isize fromG; simp only [BitVec.setWidth_eq]
theorem from_to_isize (x : BitVec 64) : Gen.from_u64_isize (Gen.to_u64_isize x) = x := by
  rw [to_eq_isize, from_eq_isize]; exact fromG_toG (by decide) x
theorem to_injective_isize (x y : BitVec 64) (h : Gen.to_u64_isize x = Gen.to_u64_isize y) : x = y := by
  rw [← from_to_isize x, ← from_to_isize y, h]
theorem to_small_isize (x : BitVec 64) : (Gen.to_u64_isize x).toNat ≤ 2 * x.toInt.natAbs + 1 := by
  rw [to_eq_isize]; exact toG_small (by decide) x
/-- exact magnitude, nonnegative values -/
theorem to_exact_nonneg_isize (x : BitVec 64) (h : 0 ≤ x.toInt) :
    (Gen.to_u64_isize x).toNat = 2 * x.toInt.toNat := by
  rw [to_eq_isize]; exact toG_exact_pos (by decide) x h
/-- exact magnitude, negative values -/
theorem to_exact_neg_isize (x : BitVec 64) (h : x.toInt < 0) :
    (Gen.to_u64_isize x).toNat = 2 * x.toInt.natAbs - 1 := by
  rw [to_eq_isize]; exact toG_exact_neg (by decide) x h

/-! ### char -/

theorem setWidth_char (c : BitVec 32) : BitVec.setWidth 32 (Gen.to_u64_char c) = c := by
  unfold Gen.to_u64_char
  ext i hi; simp
theorem from_to_char (c : BitVec 32) (h : Gen.isScalar c = true) :
    Gen.from_u64_char (Gen.to_u64_char c) = some c := by
  unfold Gen.from_u64_char
  rw [setWidth_char, if_pos h]
theorem to_small_char (c : BitVec 32) : (Gen.to_u64_char c).toNat = c.toNat := by
  unfold Gen.to_u64_char
  rw [BitVec.toNat_setWidth]; have := c.isLt; omega
theorem to_injective_char (x y : BitVec 32) (h : Gen.to_u64_char x = Gen.to_u64_char y) : x = y := by
  rw [← setWidth_char x, ← setWidth_char y, h]
/-- decoding never produces a non-scalar value -/
theorem from_char_scalar (x : BitVec 64) (c : BitVec 32) (h : Gen.from_u64_char x = some c) :
    Gen.isScalar c = true := by
  unfold Gen.from_u64_char at h
  split at h
  · cases h; assumption
  · cases h

#print axioms from_to_u64
#print axioms to_injective_u64
#print axioms to_small_u64
#print axioms from_to_u32
#print axioms to_injective_u32
#print axioms to_small_u32
#print axioms from_to_u16
#print axioms to_injective_u16
#print axioms to_small_u16
#print axioms from_to_u8
#print axioms to_injective_u8
#print axioms to_small_u8
#print axioms from_to_usize
#print axioms to_injective_usize
#print axioms to_small_usize
#print axioms from_to_i8
#print axioms to_injective_i8
#print axioms to_small_i8
#print axioms to_exact_nonneg_i8
#print axioms to_exact_neg_i8
#print axioms from_to_i16
#print axioms to_injective_i16
#print axioms to_small_i16
#print axioms to_exact_nonneg_i16
#print axioms to_exact_neg_i16
#print axioms from_to_i32
#print axioms to_injective_i32
#print axioms to_small_i32
#print axioms to_exact_nonneg_i32
#print axioms to_exact_neg_i32
#print axioms from_to_i64
#print axioms to_injective_i64
#print axioms to_small_i64
#print axioms to_exact_nonneg_i64
#print axioms to_exact_neg_i64
#print axioms from_to_isize
#print axioms to_injective_isize
#print axioms to_small_isize
#print axioms to_exact_nonneg_isize
#print axioms to_exact_neg_isize
#print axioms from_to_char
#print axioms to_injective_char
#print axioms to_small_char
