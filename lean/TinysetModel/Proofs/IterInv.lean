import TinysetModel.Proofs.IterGen
/-! The cursor invariant `CInv c r k rest` ("cursor `k` over `r` still has to yield exactly `rest`"),
its establishment by `cursorOf`, and its preservation by `next`. -/
namespace SC
open RH

/-! ### arrays as index ranges -/

theorem toList_eq_map_get (a : Tbl) : a.toList = (List.range' 0 a.size).map (get a) := by
  apply List.ext_getElem
  · simp
  · intro i h1 h2
    have hi : i < a.size := by simpa using h1
    rw [List.getElem_map, List.getElem_range', ← get_eq_getElem (by omega)]
    congr 1; omega

theorem zipIdx_eq_map_get (a : Tbl) : a.toList.zipIdx = (List.range' 0 a.size).map (fun i => (get a i, i)) := by
  apply List.ext_getElem
  · simp
  · intro i h1 h2
    have hi : i < a.size := by simpa using h1
    rw [List.getElem_zipIdx, List.getElem_map, List.getElem_range', ← get_eq_getElem (by omega)]
    have : 0 + 1 * i = i := by omega
    rw [this]
    simp

/-! ### plain table -/

def plainRest (bits : Nat) (a : Tbl) (i : Nat) : List Nat :=
  ((a.toList.drop i).filter (· ≠ 0)).map (fun x => if x = bits then 0 else x)

theorem plainRest_oob {bits : Nat} {a : Tbl} {i : Nat} (h : a.size ≤ i) : plainRest bits a i = [] := by
  unfold plainRest
  rw [List.drop_eq_nil_of_le (by simpa using h)]; rfl

theorem plainRest_step {bits : Nat} {a : Tbl} {i : Nat} (h : i < a.size) :
    plainRest bits a i =
      (if get a i ≠ 0 then [if get a i = bits then 0 else get a i] else []) ++ plainRest bits a (i + 1) := by
  unfold plainRest
  have hi : i < a.toList.length := by simpa using h
  rw [List.drop_eq_getElem_cons hi, ← get_eq_getElem h, List.filter_cons]
  by_cases h0 : get a i ≠ 0
  · rw [if_pos h0, if_pos (by simpa using h0)]; rfl
  · rw [if_neg h0, if_neg (by simpa using h0)]; rfl

theorem nextBig_spec (a : Tbl) : ∀ (fuel : Nat) (k : Cursor),
    a.size - k.index + 1 ≤ fuel →
    k.szLeft = (plainRest k.bits a k.index).length →
    ∃ i', nextBig a fuel k =
        .ok ((plainRest k.bits a k.index).head?, { k with index := i', szLeft := k.szLeft - 1 }) ∧
      plainRest k.bits a i' = (plainRest k.bits a k.index).tail
  | 0, k, hf, _ => by omega
  | fu + 1, k, hf, hsz => by
    unfold nextBig
    dsimp only
    by_cases hi : k.index < a.size
    · rw [if_pos hi]
      have hstep := plainRest_step (bits := k.bits) hi
      by_cases h0 : get a k.index ≠ 0
      · rw [if_pos h0] at hstep ⊢
        have hpos : k.szLeft ≠ 0 := by rw [hsz, hstep]; simp
        refine ⟨k.index + 1, ?_, ?_⟩
        · rw [hstep]
          simp only [decLeft, hpos, if_false, bind, Except.bind, pure, Except.pure, List.head?_cons,
            List.singleton_append]
        · rw [hstep]; rfl
      · rw [if_neg h0] at hstep ⊢
        rw [List.nil_append] at hstep
        have ih := nextBig_spec a fu { k with index := k.index + 1 }
          (by show a.size - (k.index + 1) + 1 ≤ fu; omega)
          (by show k.szLeft = _; rw [hsz, hstep])
        obtain ⟨i', h1, h2⟩ := ih
        refine ⟨i', ?_, ?_⟩
        · rw [hstep]; exact h1
        · rw [hstep]; exact h2
    · rw [if_neg hi]
      have hR : plainRest k.bits a k.index = [] := plainRest_oob (by omega)
      rw [hR] at hsz ⊢
      refine ⟨k.index, ?_, hR⟩
      have : k.szLeft - 1 = k.szLeft := by rw [hsz]; rfl
      rw [this]; rfl

/-! ### the invariant -/

def fD (c : Cfg) : Nat → Nat → Nat := fun i b => i * 2 ^ c.dShift + b
def fB (bits : Nat) (a : Tbl) : Nat → Nat → Nat := fun i b => (get a i >>> bits) * bits + b

def CInv (c : Cfg) : Rp → Cursor → List Nat → Prop
  | .empty, k, rest => rest = [] ∧ k.szLeft = 0
  | .stack t, k, rest => k.sz = t.sz ∧ k.szLeft ≤ t.sz ∧
      rest = TinyC.mem' (if k.szLeft = k.sz then 0 else k.last + 1)
        (TinyC.unpack ((TinyC.widths c.codec t.sz).drop (t.sz - k.szLeft)) k.sbits)
  | .heap _ _ bits a, k, rest => k.bits = bits ∧ k.szLeft = rest.length ∧
      if isDense c bits then rest = restAt c.W (fD c) a k.index k.whichbit
      else if isPlain c bits then rest = plainRest bits a k.index
      else rest = restAt bits (fB bits a) a k.index k.whichbit ∧ (k.whichbit = 0 → k.index = 0 ∨ rest = [])

theorem mem'_length (b : Nat) (fs : List Nat) : (TinyC.mem' b fs).length = fs.length := by
  induction fs generalizing b with
  | nil => rfl
  | cons f fs ih => simp [TinyC.mem', ih]

theorem isDense_iff {c : Cfg} {bits : Nat} : isDense c bits = true ↔ bits = c.W := by
  unfold isDense; simp

theorem isPlain_iff {c : Cfg} {bits : Nat} : isPlain c bits = true ↔ (bits = 0 ∨ bits > c.W) := by
  unfold isPlain; simp

variable {c : Cfg}

theorem WF_heap (sz cap bits : Nat) (a : Tbl) : WF c (.heap sz cap bits a) =
    (if isDense c bits then DenseWF c sz cap a
    else if isPlain c bits then PlainWF bits sz a ∧ cap = a.size ∧ c.W < bits ∧ (∀ i, i < a.size → get a i < 2 ^ c.W) ∧ bits < 2 ^ c.W
    else BitmapWF c sz cap bits a) := rfl

theorem CInv_szLeft (ok : CfgOK c) {r : Rp} (wf : WF c r) {k : Cursor} {rest : List Nat}
    (h : CInv c r k rest) : k.szLeft = rest.length := by
  cases r with
  | empty => obtain ⟨h1, h2⟩ := h; rw [h1, h2]; rfl
  | stack t =>
    obtain ⟨h1, h2, h3⟩ := h
    have hw := ok.codec.widths_length t.sz wf.sz_le
    rw [h3, mem'_length, TinyC.unpack_length, List.length_drop, hw]; omega
  | heap sz cap bits a => exact h.2.1

/-! ### elems in row form -/

theorem elems_dense (ok : CfgOK c) (sz cap : Nat) (a : Tbl) :
    elems c (.heap sz cap c.W a) = rows c.W (fD c) a 0 a.size := by
  unfold elems
  have hp : isPlain c c.W = false := by
    cases h : isPlain c c.W with
    | false => rfl
    | true => have := isPlain_iff.1 h; have := ok.W_pos; omega
  have hd : isDense c c.W = true := isDense_iff.2 rfl
  simp only [hp, hd, if_true, Bool.false_eq_true, if_false]
  rw [zipIdx_eq_map_get, List.flatMap_map]
  unfold rows row fD
  rw [← ok.W_eq]

theorem elems_bitmap {bits : Nat} (hp : isPlain c bits = false) (hd : isDense c bits = false)
    (sz cap : Nat) (a : Tbl) :
    elems c (.heap sz cap bits a) = rows bits (fB bits a) a 0 a.size := by
  unfold elems
  simp only [hp, hd, Bool.false_eq_true, if_false]
  rw [toList_eq_map_get, List.flatMap_map]
  rfl

theorem elems_plain_rows {bits : Nat} (hp : isPlain c bits = true) (sz cap : Nat) (a : Tbl) :
    elems c (.heap sz cap bits a) = plainRest bits a 0 := by
  unfold elems plainRest
  simp only [hp, if_true, List.drop_zero]

/-! ### `cursorOf` establishes the invariant -/

theorem CInv_init (ok : CfgOK c) {r : Rp} (wf : WF c r) : CInv c r (cursorOf r) (elems c r) := by
  cases r with
  | empty => exact ⟨rfl, rfl⟩
  | stack t =>
    refine ⟨rfl, Nat.le_refl _, ?_⟩
    show t.members c.codec = _
    simp only [cursorOf, if_true, Nat.sub_self, List.drop_zero]
    unfold TinyC.T.members TinyC.T.fields
    rw [TinyC.members_eq]
  | heap sz cap bits a =>
    rw [WF_heap] at wf
    refine ⟨rfl, ?_⟩
    by_cases hd : isDense c bits = true
    · rw [if_pos hd] at wf
      have hb := isDense_iff.1 hd
      subst hb
      rw [if_pos hd]
      refine ⟨wf.szc, ?_⟩
      rw [elems_dense ok]
      have := rows_eq_restAt c.W (fD c) a 0
      rw [Nat.sub_zero] at this
      exact this
    · rw [if_neg hd] at wf
      rw [if_neg hd]
      have hd' : isDense c bits = false := by simpa using hd
      by_cases hp : isPlain c bits = true
      · rw [if_pos hp] at wf
        rw [if_pos hp]
        rw [elems_plain_rows hp]
        refine ⟨?_, rfl⟩
        show sz = _
        rw [wf.1.szc]
        unfold plainRest nz
        simp
      · rw [if_neg hp] at wf
        rw [if_neg hp]
        have hp' : isPlain c bits = false := by simpa using hp
        refine ⟨wf.szc, ?_, fun _ => Or.inl rfl⟩
        rw [elems_bitmap hp' hd']
        have := rows_eq_restAt bits (fB bits a) a 0
        rw [Nat.sub_zero] at this
        exact this

/-! ### `next` yields the head and keeps the invariant -/

theorem CInv_next (ok : CfgOK c) {r : Rp} (wf : WF c r) {k : Cursor} {rest : List Nat}
    (h : CInv c r k rest) : ∃ k', next c r k = .ok (rest.head?, k') ∧ CInv c r k' rest.tail := by
  cases r with
  | empty =>
    obtain ⟨h1, h2⟩ := h
    subst h1
    exact ⟨k, rfl, rfl, h2⟩
  | stack t =>
    obtain ⟨h1, h2, h3⟩ := h
    have hw := ok.codec.widths_length t.sz wf.sz_le
    obtain ⟨ksz, kleft, kbits, ksbits, kwb, kidx, klast⟩ := k
    obtain ⟨tsz, tbits⟩ := t
    dsimp only at h1 h2 h3 hw
    subst h1
    unfold next
    dsimp only
    by_cases hpos : kleft > 0
    · rw [if_pos hpos]
      have hj : ksz - kleft < (TinyC.widths c.codec ksz).length := by rw [hw]; omega
      rw [List.getElem?_eq_getElem hj]
      dsimp only
      rw [List.drop_eq_getElem_cons hj] at h3
      simp only [TinyC.unpack, TinyC.mem'] at h3
      have hy : (if kleft = ksz then ksbits % 2 ^ (TinyC.widths c.codec ksz)[ksz - kleft]
            else klast + 1 + ksbits % 2 ^ (TinyC.widths c.codec ksz)[ksz - kleft]) =
          (if kleft = ksz then 0 else klast + 1) + ksbits % 2 ^ (TinyC.widths c.codec ksz)[ksz - kleft] := by
        split <;> omega
      refine ⟨_, by rw [h3, List.head?_cons, hy], rfl, by show kleft - 1 ≤ ksz; omega, ?_⟩
      rw [h3, List.tail_cons]
      dsimp only
      have hne : ¬ kleft - 1 = ksz := by omega
      have e1 : ksz - (kleft - 1) = ksz - kleft + 1 := by omega
      rw [if_neg hne, e1, Nat.shiftRight_eq_div_pow]
    · rw [if_neg hpos]
      have h0 : kleft = 0 := by omega
      have : rest = [] := by
        rw [h3, h0, Nat.sub_zero, List.drop_eq_nil_of_le (by omega)]
        rfl
      subst this
      exact ⟨_, rfl, rfl, h2, h3⟩
  | heap sz cap bits a =>
    obtain ⟨hb, hsz, h3⟩ := h
    rw [WF_heap] at wf
    unfold next
    dsimp only
    by_cases hd : isDense c bits = true
    · rw [if_pos hd] at h3 ⊢
      rw [nextDense_eq]
      obtain ⟨i', wb', e1, e2, _⟩ := nextGen_spec c.W (fD c) a (a.size - k.index + 1) k (Nat.le_refl _)
        (by rw [hsz, h3])
      refine ⟨{ k with index := i', whichbit := wb', szLeft := k.szLeft - 1 }, by rw [h3]; exact e1, hb, ?_, ?_⟩
      · show k.szLeft - 1 = _; rw [List.length_tail, hsz]
      · rw [if_pos hd, h3]; exact e2.symm
    · rw [if_neg hd] at h3 wf ⊢
      by_cases hp : isPlain c bits = true
      · rw [if_pos hp] at h3 ⊢
        subst hb
        obtain ⟨i', e1, e2⟩ := nextBig_spec a (a.size - k.index + 1) k (Nat.le_refl _) (by rw [hsz, h3])
        refine ⟨{ k with index := i', szLeft := k.szLeft - 1 }, by rw [h3]; exact e1, rfl, ?_, ?_⟩
        · show k.szLeft - 1 = _; rw [List.length_tail, hsz]
        · rw [if_neg hd, if_pos hp, h3]; exact e2.symm
      · rw [if_neg hp] at h3 wf ⊢
        have hbp : k.bits > 0 := by rw [hb]; exact wf.bits_pos
        rw [if_pos hbp, nextHeap_eq a bits _ k hb]
        obtain ⟨h3, h4⟩ := h3
        obtain ⟨i', wb', e1, e2, e3⟩ := nextGen_spec bits (fB bits a) a (a.size - k.index + 1) k (Nat.le_refl _)
          (by rw [hsz, h3])
        refine ⟨{ k with index := i', whichbit := wb', szLeft := k.szLeft - 1 }, by rw [h3]; exact e1, hb, ?_, ?_⟩
        · show k.szLeft - 1 = _; rw [List.length_tail, hsz]
        · rw [if_neg hd, if_neg hp]
          refine ⟨by rw [h3]; exact e2.symm, ?_⟩
          intro hwb
          right
          have hwb' : wb' = 0 := hwb
          cases hr : rest with
          | nil => rfl
          | cons x xs =>
            exfalso
            have := e3 (by rw [← h3, hr]; simp)
            omega

end SC
