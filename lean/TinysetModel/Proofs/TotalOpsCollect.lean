import TinysetModel.Proofs.TotalSites
import TinysetModel.Proofs.RemoveTotal
import TinysetModel.Proofs.PropsAux
import TinysetModel.Proofs.CapSpec
/-! Total correctness of the public surface, part 1: `fromIterSorted` / `fromIter` (collect) and `remove`
return normally.

The pre-sized table that `fromIterSorted` creates is *good* (`RefillGood`, `Proofs/TotalFill.lean`) for the
values it is about to receive, so the fill loop takes only non-growing branches: recursion depth one
(fuel `fuel + 1`) is enough, and the only size condition is `v.length + W + 3 ≤ 2 ^ W` (the plain-table
placeholder scan).  `remove` needs no size condition at all: the heap layouts never allocate
(`remove_heap_total`), and an inline value has at most `maxN` members. -/
namespace SC
open RH Plain2

variable {c : Cfg} {D : Type}

theorem insert_succ (c : Cfg) (g : Rng D) (fuel : Nat) : insert c g (fuel + 1) = insertStep c g (insert c g fuel) := rfl

theorem total_le_of_getLast {v : List Nat} {mx : Nat} (hs : v.Pairwise (· < ·)) (hl : v.getLast? = some mx) :
    ∀ y ∈ v, y ≤ mx := by
  intro y hy
  have := total_le_getLast_of_sorted v hs y hy
  rw [hl] at this
  exact this

theorem total_length_pos_of_getLast {v : List Nat} {mx : Nat} (hl : v.getLast? = some mx) : 0 < v.length := by
  cases v with
  | nil => cases hl
  | cons x xs => exact Nat.succ_pos _

/-- the fill loop of `fromIterSorted`, into a good table -/
theorem fill_total (ok : CfgOK c) (lk : Like64 c) (g : Rng D) (fuel : Nat) {v : List Nat}
    (hrange : ∀ x ∈ v, x < 2 ^ c.W) {s : Rp} (gd : RefillGood c v s) (d : D) :
    ∃ r d', insertAll (insert c g (fuel + 1)) s v d = .ok (r, d') := by
  obtain ⟨r, d', h, _⟩ := insertAll_total ok lk.room g (insert c g fuel) (insert_refines ok g fuel) v s d gd
    (fun x hx => ⟨hx, hrange x hx⟩)
  exact ⟨r, d', h⟩

/-- **`fromIterSorted` returns normally** for a sorted duplicate-free list of in-range values, with fuel `≥ 1` -/
theorem fromIterSorted_total (ok : CfgOK c) (lk : Like64 c) (g : Rng D) (fuel : Nat) (v : List Nat)
    (hsorted : v.Pairwise (· < ·)) (hrange : ∀ x ∈ v, x < 2 ^ c.W) (hsmall : v.length + c.W + 3 ≤ 2 ^ c.W) (d : D) :
    ∃ r d', fromIterSorted c g (fuel + 1) v d = .ok (r, d') := by
  unfold fromIterSorted
  cases hl : v.getLast? with
  | none => exact ⟨_, _, rfl⟩
  | some mx =>
    dsimp only
    cases hnew : TinyC.newSortedDeduped c.codec v with
    | some t => exact ⟨_, _, rfl⟩
    | none =>
      dsimp only
      have hmx := total_le_of_getLast hsorted hl
      have hpos := total_length_pos_of_getLast hl
      by_cases h1 : v.length > mx >>> 4
      · rw [if_pos h1]
        obtain ⟨s, d1, h2, gd⟩ := withCapMax_good ok lk g (V := v) (cap := v.length) (mx := mx) hpos hmx
          (Nat.le_refl _) hsmall d
        obtain ⟨r, d', h3⟩ := fill_total ok lk g fuel hrange gd d1
        exact ⟨r, d', by rw [bind_run h2]; exact h3⟩
      · rw [if_neg h1]
        by_cases h4 : c.cab mx = 0
        · rw [if_pos h4]
          obtain ⟨s, d1, h2, gd⟩ := withCapBits_good ok g (V := v) (cap := v.length) (bits := c.cab mx) hpos
            (Or.inl h4) (fun y hy => lk.cab_mono y mx (hmx y hy)) (fun _ => hsmall)
            ⟨v, pairwise_lt_nodup hsorted, Nat.le_refl _, fun y hy => by
              rw [h4, Nat.max_eq_right (Nat.zero_le 1), Nat.div_one]; exact hy⟩ d
          obtain ⟨r, d', h3⟩ := fill_total ok lk g fuel hrange gd d1
          exact ⟨r, d', by rw [bind_run h2]; exact h3⟩
        · rw [if_neg h4]
          have hb : 0 < c.cab mx ∧ c.cab mx < c.W := by
            rcases lk.cab_range mx with h | h
            · exact absurd h h4
            · exact h
          obtain ⟨s, d1, h2, gd⟩ := withCapBits_good ok g (V := v)
            (cap := ((v.map (· / c.cab mx)).eraseDups.length + 1) * 11 / 10) (bits := c.cab mx) (by omega)
            (Or.inr hb) (fun y hy => lk.cab_mono y mx (hmx y hy)) (fun h0 => absurd h0 h4)
            ⟨(v.map (· / c.cab mx)).eraseDups, nodup_eraseDups _, by omega, fun y hy => by
              rw [Nat.max_eq_left hb.1, List.mem_eraseDups]
              exact List.mem_map.2 ⟨y, hy, rfl⟩⟩ d
          obtain ⟨r, d', h3⟩ := fill_total ok lk g fuel hrange gd d1
          exact ⟨r, d', by rw [bind_run h2]; exact h3⟩

/-- **`collect` returns normally** -/
theorem fromIter_total (ok : CfgOK c) (lk : Like64 c) (g : Rng D) (fuel : Nat) (xs : List Nat)
    (hrange : ∀ x ∈ xs, x < 2 ^ c.W) (hlen : xs.length + c.W + 3 ≤ 2 ^ c.W) (d : D) :
    ∃ r d', fromIter c g (fuel + 1) xs d = .ok (r, d') := by
  unfold fromIter
  obtain ⟨s1, s2⟩ := sortDedup_spec xs
  have := sortDedup_length_le xs
  exact fromIterSorted_total ok lk g fuel (sortDedup xs) s1 (fun x hx => hrange x ((s2 x).1 hx)) (by omega) d

/-- **`remove` returns normally**, for every well-formed set and every in-range value, with fuel `≥ 1`
    (no size condition: the heap layouts never allocate, an inline value is rebuilt from `< maxN` members) -/
theorem remove_total (ok : CfgOK c) (lk : Like64 c) (g : Rng D) (fuel : Nat) {r : Rp} (wf : WF c r) (e : Nat)
    (he : e < 2 ^ c.W) (d : D) : ∃ r' b d', remove c g (fuel + 1) r e d = .ok ((r', b), d') := by
  match r, wf with
  | .empty, _ => exact ⟨_, _, _, rfl⟩
  | .stack t, wf =>
    rw [remove]
    by_cases hc : (t.members c.codec).contains e = true
    · rw [if_pos hc]
      by_cases h1 : t.sz - 1 = 0
      · rw [if_pos h1]; exact ⟨_, _, _, rfl⟩
      · rw [if_neg h1]
        have hlen := List.length_filter_le (fun x => decide (x ≠ e)) (t.members c.codec)
        rw [stack_members_length ok wf] at hlen
        have := wf.sz_le
        have := lk.codec_small
        obtain ⟨r1, d1, h2⟩ := fromIterSorted_total ok lk g fuel ((t.members c.codec).filter (· ≠ e))
          ((members_sorted (c := c) t).filter _)
          (fun x hx => wf.range x (List.mem_filter.1 hx).1) (by omega) d
        exact ⟨r1, true, d1, by rw [bind_run h2]; rfl⟩
    · rw [if_neg hc]; exact ⟨_, _, _, rfl⟩
  | .heap sz cap bits a, wf =>
    obtain ⟨r', b, h, _⟩ := remove_heap_total ok g (fuel + 1) wf e he d
    exact ⟨r', b, d, h⟩

/-! ### the `SetU64` instances, with the partial-correctness theorems attached -/

/-- `SetU64::remove` returns normally (recursion depth 1 is enough; in particular every fuel `fuel + 2`) -/
theorem remove_total_u64 (g : Rng D) (fuel : Nat) {r : Rp} (wf : WF cfg64 r) (e : Nat) (he : e < 2 ^ 64) (d : D) :
    ∃ r' b d', remove cfg64 g (fuel + 2) r e d = .ok ((r', b), d') :=
  remove_total cfg64_ok cfg64_like g (fuel + 1) wf e he d

/-- total correctness of `SetU64::remove` -/
theorem remove_total_correct_u64 (g : Rng D) (fuel : Nat) {r : Rp} (wf : WF cfg64 r) (e : Nat) (he : e < 2 ^ 64)
    (d : D) : ∃ r' b d', remove cfg64 g (fuel + 2) r e d = .ok ((r', b), d') ∧ RemOK cfg64 r e r' b := by
  obtain ⟨r', b, d', h⟩ := remove_total_u64 g fuel wf e he d
  exact ⟨r', b, d', h, remove_refines cfg64_ok g (fuel + 2) wf e he h⟩

/-- `collect::<SetU64>()` returns normally for every sequence of fewer than `2^60` values -/
theorem fromIter_total_u64 (g : Rng D) (fuel : Nat) (xs : List Nat) (hrange : ∀ x ∈ xs, x < 2 ^ 64)
    (hlen : xs.length < 2 ^ 60) (d : D) : ∃ r d', fromIter cfg64 g (fuel + 2) xs d = .ok (r, d') :=
  fromIter_total cfg64_ok cfg64_like g (fuel + 1) xs hrange
    (by have : cfg64.W = 64 := rfl; rw [this]; omega) d

/-- total correctness of `collect::<SetU64>()`: the result is well formed and holds exactly the values given -/
theorem fromIter_total_correct_u64 (g : Rng D) (fuel : Nat) (xs : List Nat) (hrange : ∀ x ∈ xs, x < 2 ^ 64)
    (hlen : xs.length < 2 ^ 60) (d : D) :
    ∃ r d', fromIter cfg64 g (fuel + 2) xs d = .ok (r, d') ∧ WF cfg64 r ∧ ∀ x, x ∈ elems cfg64 r ↔ x ∈ xs := by
  obtain ⟨r, d', h⟩ := fromIter_total_u64 g fuel xs hrange hlen d
  exact ⟨r, d', h, fromIter_ok cfg64_ok g (fuel + 2) (insert_refines cfg64_ok g (fuel + 2)) xs hrange d d' r h⟩

#print axioms fromIterSorted_total
#print axioms fromIter_total
#print axioms remove_total
#print axioms remove_total_u64
#print axioms remove_total_correct_u64
#print axioms fromIter_total_u64
#print axioms fromIter_total_correct_u64
end SC
