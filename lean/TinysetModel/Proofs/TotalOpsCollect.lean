import TinysetModel.Proofs.Total32Insert
import TinysetModel.Proofs.CoreInst
import TinysetModel.Proofs.RemoveTotal
import TinysetModel.Proofs.PropsAux
import TinysetModel.Proofs.CapSpec
/-! Total correctness of the public surface, part 1: `fromIterSorted` / `fromIter` (collect) and `remove`
return normally.

The pre-sized dense block / bitmap table that `fromIterSorted` creates is *good* (`RefillGoodS`,
`Proofs/Total32Fill.lean`) for the values it is about to receive, so the fill loop takes only non-growing
branches.  The pre-sized plain table has exactly `v.length` buckets, which under the `SetU32` room rule is not
enough to avoid growth; but the plain layout grows in place, without a recursive `insert` (`plainFill_total`).
Either way recursion depth one (fuel `fuel + 1`) is enough, and the only size condition is
`SizeFits c v.length` (the plain-table placeholder scan, for a table that may have grown).  `remove` needs no
size condition at all: the heap layouts never allocate (`remove_heap_total`), and an inline value has at most
`maxN` members. -/
namespace SC
open RH Plain2

variable {c : Cfg} {D : Type}

theorem insert_succ (c : Cfg) (g : Rng D) (fuel : Nat) : insert c g (fuel + 1) = insertStep c g (insert c g fuel) := rfl

theorem total_le_of_getLast {v : List Nat} {mx : Nat} (hs : v.Pairwise (· < ·)) (hl : v.getLast? = some mx) :
    ∀ y ∈ v, y ≤ mx := by
  intro y hy
  have := total_le_getLast_of_sorted v hs y hy
  rw [hl] at this
  exact this

theorem total_length_pos_of_getLast {v : List Nat} {mx : Nat} (hl : v.getLast? = some mx) : 0 < v.length := by
  cases v with
  | nil => cases hl
  | cons x xs => exact Nat.succ_pos _

/-- a ghost bound small enough for the size conditions of `insert_total` -/
def SizeFits (c : Cfg) (N : Nat) : Prop := 3 * N + 5 + c.W + 3 ≤ 2 ^ c.W

theorem SizeFits.mono {N N' : Nat} (h : SizeFits c N) (hle : N' ≤ N) : SizeFits c N' := by
  unfold SizeFits at *; omega

theorem allCores (ok : CfgOK c) (g : Rng D) : ∀ fuel, CoreOK c g fuel := fun fuel => coreOK ok g fuel

/-- the fill loop of `fromIterSorted`, into a good table -/
theorem fill_total (ok : CfgOK c) (g : Rng D) (fuel : Nat) {v : List Nat}
    (hrange : ∀ x ∈ v, x < 2 ^ c.W) {s : Rp} (gd : RefillGoodS c v s) (d : D) :
    ∃ r d', insertAll (insert c g (fuel + 1)) s v d = .ok (r, d') := by
  obtain ⟨r, d', h, _⟩ := insertAll_totalS ok g (insert c g fuel) (insert_refines ok g fuel) v s d gd
    (fun x hx => ⟨hx, hrange x hx⟩)
  exact ⟨r, d', h⟩

/-- a loop of inserts into a plain table returns with recursion depth 1, whatever the room rule: the plain
    layout grows in place (no recursive `insert`), and its capacity stays within the ghost bound -/
theorem plainFill_total (ok : CfgOK c) (cc : CapCfg c) (g : Rng D) (fuel : Nat) {N : Nat} (hN : SizeFits c N) :
    ∀ (xs : List Nat) (sz cap bits : Nat) (a : Tbl) (d : D) (M : Nat), WF c (.heap sz cap bits a) → c.W < bits →
      (∀ x ∈ xs, x < 2 ^ c.W) → CapOK (.heap sz cap bits a) M → M ≤ N → sz + xs.length ≤ N →
      ∃ r' d', insertAll (insert c g (fuel + 1)) (.heap sz cap bits a) xs d = .ok (r', d') := by
  intro xs
  induction xs with
  | nil => intro sz cap bits a d M _ _ _ _ _ _; exact ⟨_, d, rfl⟩
  | cons x xs ih =>
    intro sz cap bits a d M wf hW hx hc hMN hfit
    rw [List.length_cons] at hfit
    have hp := isPlain_of_gt (c := c) hW
    have hd := isDense_of_gt (c := c) hW
    have hx1 := hx x List.mem_cons_self
    have hcapeq := (plain_unfold wf hp hd).2.1
    have hc1 : cap ≤ 3 * M + 5 := hc.1
    obtain ⟨r1, b, d1, h1⟩ := insertPlain_total ok g wf hp hd x hx1 d
      (by unfold SizeFits at hN; rw [← hcapeq]; omega)
    have h1' : insert c g (fuel + 1) (.heap sz cap bits a) x d = .ok ((r1, b), d1) := by
      rw [insert_succ, insertStep, if_neg (by rw [hd]; exact Bool.false_ne_true), if_pos hp]; exact h1
    have sp := insert_refines ok g (fuel + 1) _ x d r1 b d1 wf hx1 h1'
    have cp := insert_capOK ok cc g (allCores ok g) (fuel + 1) _ x d r1 b d1 M wf hx1 hc h1'
    have hl := len_of_InsOK ok wf sp
    obtain ⟨sz', cap', bits', a', hr1, hW', _⟩ := insertPlain_shape ok g wf hp hd x hx1 d d1 r1 b h1
    subst hr1
    have hle : sz' ≤ sz + 1 := by
      have : sz' = if b = true then sz + 1 else sz := hl
      rw [this]; split <;> omega
    obtain ⟨r', d', h2⟩ := ih sz' cap' bits' a' d1 (Max.max M sz') sp.wf hW'
      (fun y hy => hx y (List.mem_cons_of_mem _ hy)) cp (Nat.max_le.2 ⟨hMN, by omega⟩) (by omega)
    exact ⟨r', d', by rw [insertAll_cons_ok _ _ _ _ _ h1']; exact h2⟩

/-- **`fromIterSorted` returns normally** for a sorted duplicate-free list of in-range values, with fuel `≥ 1` -/
theorem fromIterSorted_total (ok : CfgOK c) (lk : LikeS c) (cc : CapCfg c) (g : Rng D) (fuel : Nat) (v : List Nat)
    (hsorted : v.Pairwise (· < ·)) (hrange : ∀ x ∈ v, x < 2 ^ c.W) (hsmall : SizeFits c v.length) (d : D) :
    ∃ r d', fromIterSorted c g (fuel + 1) v d = .ok (r, d') := by
  unfold fromIterSorted
  cases hl : v.getLast? with
  | none => exact ⟨_, _, rfl⟩
  | some mx =>
    dsimp only
    cases hnew : TinyC.newSortedDeduped c.codec v with
    | some t => exact ⟨_, _, rfl⟩
    | none =>
      dsimp only
      have hmx := total_le_of_getLast hsorted hl
      have hpos := total_length_pos_of_getLast hl
      by_cases h1 : v.length > mx >>> 4
      · -- always the dense layout
        rw [if_pos h1]
        have hdf := lk.dense_first mx
        have h2 : withCapMax c g v.length mx d = .ok (denseWithMax c mx, d) := by
          unfold withCapMax
          rw [if_pos (by omega)]; rfl
        obtain ⟨r, d', h3⟩ := fill_total ok g fuel hrange (denseWithMax_goodS ok lk hmx) d
        exact ⟨r, d', by rw [bind_run h2]; exact h3⟩
      · rw [if_neg h1]
        by_cases h4 : c.cab mx = 0
        · -- plain table with exactly `v.length` buckets: may grow in place while it is filled
          rw [if_pos h4]
          obtain ⟨s, d1, h2⟩ := withCapBits_total (c := c) g v.length (c.cab mx) d
          obtain ⟨wf, hempty⟩ := withCapBits_ok ok g v.length (c.cab mx)
            (by rw [h4]; exact Nat.two_pow_pos _) d d1 s h2
          rcases withCapBits_shape g v.length (c.cab mx) d d1 s h2 with ⟨h0, _⟩ | ⟨_, bits', hr, _, heq⟩
          · omega
          · subst hr
            have hW := heq h4
            have hlen0 : len (Rp.heap 0 v.length bits' (Array.replicate v.length 0)) = 0 := rfl
            obtain ⟨r, d', h3⟩ := plainFill_total ok cc g fuel hsmall v 0 v.length bits' _ d1 v.length wf hW hrange
              ⟨by show v.length ≤ 3 * v.length + 5; omega, by rw [hlen0]; omega⟩
              (Nat.le_refl _) (by omega)
            exact ⟨r, d', by rw [bind_run h2]; exact h3⟩
        · rw [if_neg h4]
          have hb : 0 < c.cab mx ∧ c.cab mx < c.W := by
            rcases lk.cab_range mx (by omega) with h | h
            · exact absurd h h4
            · exact h
          have hpf := lk.presize_fit (v.map (· / c.cab mx)).eraseDups.length
          obtain ⟨s, d1, h2, gd⟩ := withCapBits_goodS ok g (V := v)
            (cap := ((v.map (· / c.cab mx)).eraseDups.length + 1) * 11 / 10) (bits := c.cab mx) (by omega)
            (Or.inr hb) (fun y hy => lk.cab_mono y mx (hmx y hy)) (fun h0 => absurd h0 h4)
            ⟨(v.map (· / c.cab mx)).eraseDups, nodup_eraseDups _, hpf, fun y hy => by
              rw [Nat.max_eq_left hb.1, List.mem_eraseDups]
              exact List.mem_map.2 ⟨y, hy, rfl⟩⟩ d
          obtain ⟨r, d', h3⟩ := fill_total ok g fuel hrange gd d1
          exact ⟨r, d', by rw [bind_run h2]; exact h3⟩

/-- **`collect` returns normally** -/
theorem fromIter_total (ok : CfgOK c) (lk : LikeS c) (cc : CapCfg c) (g : Rng D) (fuel : Nat) (xs : List Nat)
    (hrange : ∀ x ∈ xs, x < 2 ^ c.W) (hlen : SizeFits c xs.length) (d : D) :
    ∃ r d', fromIter c g (fuel + 1) xs d = .ok (r, d') := by
  unfold fromIter
  obtain ⟨s1, s2⟩ := sortDedup_spec xs
  have := sortDedup_length_le xs
  exact fromIterSorted_total ok lk cc g fuel (sortDedup xs) s1 (fun x hx => hrange x ((s2 x).1 hx))
    (hlen.mono this) d

/-- **`remove` returns normally**, for every well-formed set and every in-range value, with fuel `≥ 1`
    (no size condition: the heap layouts never allocate, an inline value is rebuilt from `< maxN` members) -/
theorem remove_total (ok : CfgOK c) (lk : LikeS c) (cc : CapCfg c) (g : Rng D) (fuel : Nat) {r : Rp} (wf : WF c r) (e : Nat)
    (he : e < 2 ^ c.W) (d : D) : ∃ r' b d', remove c g (fuel + 1) r e d = .ok ((r', b), d') := by
  match r, wf with
  | .empty, _ => exact ⟨_, _, _, rfl⟩
  | .stack t, wf =>
    rw [remove]
    by_cases hc : (t.members c.codec).contains e = true
    · rw [if_pos hc]
      by_cases h1 : t.sz - 1 = 0
      · rw [if_pos h1]; exact ⟨_, _, _, rfl⟩
      · rw [if_neg h1]
        have hlen := List.length_filter_le (fun x => decide (x ≠ e)) (t.members c.codec)
        rw [stack_members_length ok wf] at hlen
        have := wf.sz_le
        have := lk.codec_small3
        obtain ⟨r1, d1, h2⟩ := fromIterSorted_total ok lk cc g fuel ((t.members c.codec).filter (· ≠ e))
          ((members_sorted (c := c) t).filter _)
          (fun x hx => wf.range x (List.mem_filter.1 hx).1) (by unfold SizeFits; omega) d
        exact ⟨r1, true, d1, by rw [bind_run h2]; rfl⟩
    · rw [if_neg hc]; exact ⟨_, _, _, rfl⟩
  | .heap sz cap bits a, wf =>
    obtain ⟨r', b, h, _⟩ := remove_heap_total ok g (fuel + 1) wf e he d
    exact ⟨r', b, d, h⟩

/-! ### the `SetU64` instances, with the partial-correctness theorems attached -/

/-- `SetU64::remove` returns normally (recursion depth 1 is enough; in particular every fuel `fuel + 2`) -/
theorem remove_total_u64 (g : Rng D) (fuel : Nat) {r : Rp} (wf : WF cfg64 r) (e : Nat) (he : e < 2 ^ 64) (d : D) :
    ∃ r' b d', remove cfg64 g (fuel + 2) r e d = .ok ((r', b), d') :=
  remove_total cfg64_ok cfg64_likeS capCfg64 g (fuel + 1) wf e he d

/-- total correctness of `SetU64::remove` -/
theorem remove_total_correct_u64 (g : Rng D) (fuel : Nat) {r : Rp} (wf : WF cfg64 r) (e : Nat) (he : e < 2 ^ 64)
    (d : D) : ∃ r' b d', remove cfg64 g (fuel + 2) r e d = .ok ((r', b), d') ∧ RemOK cfg64 r e r' b := by
  obtain ⟨r', b, d', h⟩ := remove_total_u64 g fuel wf e he d
  exact ⟨r', b, d', h, remove_refines cfg64_ok g (fuel + 2) wf e he h⟩

/-- `collect::<SetU64>()` returns normally for every sequence of fewer than `2^60` values -/
theorem fromIter_total_u64 (g : Rng D) (fuel : Nat) (xs : List Nat) (hrange : ∀ x ∈ xs, x < 2 ^ 64)
    (hlen : xs.length < 2 ^ 60) (d : D) : ∃ r d', fromIter cfg64 g (fuel + 2) xs d = .ok (r, d') :=
  fromIter_total cfg64_ok cfg64_likeS capCfg64 g (fuel + 1) xs hrange
    (by have : cfg64.W = 64 := rfl; unfold SizeFits; rw [this]; omega) d

/-- total correctness of `collect::<SetU64>()`: the result is well formed and holds exactly the values given -/
theorem fromIter_total_correct_u64 (g : Rng D) (fuel : Nat) (xs : List Nat) (hrange : ∀ x ∈ xs, x < 2 ^ 64)
    (hlen : xs.length < 2 ^ 60) (d : D) :
    ∃ r d', fromIter cfg64 g (fuel + 2) xs d = .ok (r, d') ∧ WF cfg64 r ∧ ∀ x, x ∈ elems cfg64 r ↔ x ∈ xs := by
  obtain ⟨r, d', h⟩ := fromIter_total_u64 g fuel xs hrange hlen d
  exact ⟨r, d', h, fromIter_ok cfg64_ok g (fuel + 2) (insert_refines cfg64_ok g (fuel + 2)) xs hrange d d' r h⟩

/-! ### the `SetU32` instances -/

theorem sizeFits32 {N : Nat} (h : N ≤ 2 ^ 30) : SizeFits cfg32 N := by
  have : cfg32.W = 32 := rfl
  unfold SizeFits
  rw [this]
  omega

/-- `SetU32::remove` returns normally -/
theorem remove_total_u32 (g : Rng D) (fuel : Nat) {r : Rp} (wf : WF cfg32 r) (e : Nat) (he : e < 2 ^ 32) (d : D) :
    ∃ r' b d', remove cfg32 g (fuel + 2) r e d = .ok ((r', b), d') :=
  remove_total cfg32_ok cfg32_likeS capCfg32 g (fuel + 1) wf e he d

/-- total correctness of `SetU32::remove` -/
theorem remove_total_correct_u32 (g : Rng D) (fuel : Nat) {r : Rp} (wf : WF cfg32 r) (e : Nat) (he : e < 2 ^ 32)
    (d : D) : ∃ r' b d', remove cfg32 g (fuel + 2) r e d = .ok ((r', b), d') ∧ RemOK cfg32 r e r' b := by
  obtain ⟨r', b, d', h⟩ := remove_total_u32 g fuel wf e he d
  exact ⟨r', b, d', h, remove_refines cfg32_ok g (fuel + 2) wf e he h⟩

/-- `collect::<SetU32>()` returns normally for every sequence of fewer than `2^28` values -/
theorem fromIter_total_u32 (g : Rng D) (fuel : Nat) (xs : List Nat) (hrange : ∀ x ∈ xs, x < 2 ^ 32)
    (hlen : xs.length < 2 ^ 28) (d : D) : ∃ r d', fromIter cfg32 g (fuel + 2) xs d = .ok (r, d') :=
  fromIter_total cfg32_ok cfg32_likeS capCfg32 g (fuel + 1) xs hrange (sizeFits32 (by omega)) d

/-- total correctness of `collect::<SetU32>()` -/
theorem fromIter_total_correct_u32 (g : Rng D) (fuel : Nat) (xs : List Nat) (hrange : ∀ x ∈ xs, x < 2 ^ 32)
    (hlen : xs.length < 2 ^ 28) (d : D) :
    ∃ r d', fromIter cfg32 g (fuel + 2) xs d = .ok (r, d') ∧ WF cfg32 r ∧ ∀ x, x ∈ elems cfg32 r ↔ x ∈ xs := by
  obtain ⟨r, d', h⟩ := fromIter_total_u32 g fuel xs hrange hlen d
  exact ⟨r, d', h, fromIter_ok cfg32_ok g (fuel + 2) (insert_refines cfg32_ok g (fuel + 2)) xs hrange d d' r h⟩

#print axioms fromIterSorted_total
#print axioms remove_total_u32
#print axioms remove_total_correct_u32
#print axioms fromIter_total_u32
#print axioms fromIter_total_correct_u32
#print axioms fromIter_total
#print axioms remove_total
#print axioms remove_total_u64
#print axioms remove_total_correct_u64
#print axioms fromIter_total_u64
#print axioms fromIter_total_correct_u64
end SC
